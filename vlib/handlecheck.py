"""Shared engine of the handle-level properties (C05, C06, …):
  A. L1 correspondence: random histories on RAW/AU/WAV, model transcript == implementation transcript (byte exact);
  B. all-format relational check: the C05/C06 contract evaluated on the implementation's own transcript, for every
     writable format incl. opaque codecs, against one sequential reference read.
"""
import collections
from . import scripts as S, readcamp as R, formats, kernels as K


def known_class(fmt, ch, text, cat, script=None, line=None):
    """maps a problem to the id of a known finding, or None. Classes are decidable predicates on (format, channels,
    symptom, history); they mirror the hypotheses excluded by the `_partial` theorems."""
    if fmt is None:
        return None
    # (KF-VOX-ODD -- OKI/VOX calls with an odd item count transferred one sample too many -- is repaired: no class is left for it)
    # RAW/DWVW has no header: the frame count is an estimate from the file length
    if fmt.major == 0x04 and fmt.codec in (0x40, 0x41, 0x42) and cat in ("eof", "frames"):
        return "KF-RAW-DWVW-FRAMES"
    return None


class Finding:
    def __init__(self, kind, name, script, line, text, cat, fmt=None, ch=1, impl=None, model=None):
        self.kind, self.name, self.script, self.line, self.text, self.cat = kind, name, script, line, text, cat
        self.fmt, self.ch, self.impl, self.model = fmt, ch, impl, model


def l1_campaign(ctx, nscripts, modes=("w", "r", "rw"), max_ops=24, gen=None):
    """returns (findings, stats). A finding of kind 'corr' is a model/implementation disagreement."""
    rng = ctx.rng
    fmts = S.l1_formats()
    scripts = []
    for k in range(nscripts):
        fe = fmts[(k * 7 + rng.randrange(len(fmts))) % len(fmts)]
        text = (gen or S.gen_rw_script)(rng, fe, max_ops=max_ops, modes=modes)
        scripts.append(("%s-%08x-%d" % (fe[0], fe[1], k), text))
    impl = ctx.batch(scripts)
    model = S.run_model_parallel(ctx, scripts)
    findings = []
    stats = collections.Counter()
    if scripts:
        k0 = len(scripts) // 2
        ctx.notes["l1_example"] = {"name": scripts[k0][0], "script": scripts[k0][1][:900], "implementation_transcript_head": impl.get(scripts[k0][0], [])[:6]}
    for n, t in scripts:
        i, m = impl.get(n, []), model.get(n, [])
        stats["scripts"] += 1
        stats["ops"] += S.modelled_prefix(m)
        if "unmodelled" in m:
            stats["partly_unmodelled"] += 1
        for l in i:
            if l.startswith(("CRASH", "ABORT", "TIMEOUT")):
                findings.append(Finding("crash", n, t, len(i) - 1, "implementation died: " + l, "crash", impl=l))
                break
        d = S.first_diff(i, m)
        if d is not None:
            findings.append(Finding("corr", n, t, d, "model and implementation disagree", "corr",
                                    impl=i[d] if d < len(i) else "<missing>", model=m[d] if d < len(m) else "<missing>"))
        for tag in set(l.split()[0] + (":" + l.split()[2] if l.startswith(("r ", "w ")) else "") for l in t.split("\n") if l):
            ctx.distinct.add("l1:" + n.split("-")[0] + ":" + tag)
    return findings, stats


def allformat_read_campaign(ctx, stride=1, nops=30, channels=(1, 2, 3), route_skip=(0x16,)):
    """returns (findings, stats); findings are contract violations on the implementation's own transcript"""
    rng = ctx.rng
    fs = [f for f in formats.writable_formats(ctx) if f.major not in route_skip]
    jobs = []
    for f in fs:
        for ch in sorted(set(min(c, f.maxch) for c in channels)):
            n = rng.choice(R.pick_lengths(rng, f))
            jobs.append((f, ch, n))
    if stride > 1:
        # sample-granular formats are thinned out; block codecs (where position arithmetic can go wrong in more ways) never are
        blk = [j for j in jobs if R.block_hint(j[0]) > 1]
        gran = [j for j in jobs if R.block_hint(j[0]) <= 1]
        jobs = blk + gran[rng.randrange(stride)::stride]
    # staging-buffer boundaries: every kernel of a sample-granular codec stages through a fixed 8192-byte buffer (8192 / 4096 / 2048 / 1024 items per pass);
    # one long mono file per codec (WAV / AU first) makes the sequential reference read and the large requests of the history cross it, so that a slip at a
    # chunk boundary of ONE kernel (one codec x one caller type) shows as a `data` clause against the reads that do not cross it
    seen = set()
    for f in sorted(fs, key=lambda f: (f.major not in (0x01, 0x03), f.major)):
        if R.block_hint(f) <= 1 and getattr(f, "granular", False) and f.codec not in seen:
            seen.add(f.codec)
            jobs.append((f, 1, 9000))
    ws = [("%s-c%d-n%d-%d" % (f.name, ch, n, i), R.write_phase(rng, f, ch, n)) for i, (f, ch, n) in enumerate(jobs)]
    out = ctx.batch(ws)
    findings, stats, tests = [], collections.Counter(), []
    for (name, script), (f, ch, n) in zip(ws, jobs):
        stats["files"] += 1
        lines = out.get(name, [])
        dead = [l for l in lines if l.startswith(("CRASH", "ABORT", "TIMEOUT"))]
        if dead:
            findings.append(Finding("crash", name, script, len(lines) - 1, "implementation died while writing/reading back: " + dead[0], "crash", f, ch))
            continue
        info = R.parse_write_phase(lines, script, ch)
        if info["problems"]:
            cat = "count" if not info["write_ok"] else "open"
            findings.append(Finding("pred", name, script, 0, "; ".join(info["problems"][:2]), cat, f, ch))
            continue
        F = info["frames"]
        ok = True
        for ty in R.TYS:
            if info["ref_ret"][ty] != F * ch or info["after_ret"][ty] != 0:
                findings.append(Finding("pred", name, script, 0,
                                        "sequential read of the whole file: open reported %d frames, one call delivered %d items (%d channels), the next call %d"
                                        % (F, info["ref_ret"][ty], ch, info["after_ret"][ty]), "frames", f, ch))
                ok = False
                break
        if not ok:
            continue
        tests.append((name, f, ch, F, info, R.test_phase(rng, f, ch, F, info["filehex"], nops)))
        ctx.distinct.add("fmt:" + f.name)
    out2 = ctx.batch([(n, t) for (n, f, ch, F, info, t) in tests])
    # THE PREDICATE: Sf.Abs.check (lean/SfModel/Abs.lean) judges every transcript; the Python checker runs beside it as a cross-check
    from . import abslean, absreplay
    judge = abslean.Judge(ctx)
    starts = {}
    for (name, f, ch, F, info, t) in tests:
        starts[name] = abslean.add_read_test(judge, name, t, out2.get(name, []), ch, F, info["ref"], info.get("seekable", True), R.raw_bw(f, ch))
    wnames = {}
    for (name, script), (f, ch, n) in zip(ws, jobs):
        if abslean.add_write_phase(judge, "W:" + name, script, out.get(name, []), ch) is not None:
            wnames[name] = (f, ch, script)
    verdicts = judge.run()
    for name, (f, ch, script) in wnames.items():
        v = verdicts["W:" + name]
        stats["write_phase_lines"] += v.n
        for fail in v.fails[:2]:
            line, text, cat = abslean.describe(fail, 1, script.strip().split("\n"))
            findings.append(Finding("pred", name, script, line, text, cat, f, ch))
            # the replay re-judges with `sfmodel abs` (vlib/absreplay.py)
            findings[-1].replay_text = absreplay.plain_replay(script, line, abslean.geom_line(ch, 0, "w"), 1, clause=fail[1])
    if tests:
        t0 = tests[len(tests) // 2]
        ctx.notes["allformat_example"] = {"name": t0[0], "frames": t0[3], "script": t0[5][-900:], "implementation_transcript_tail": out2.get(t0[0], [])[-4:]}
    for (name, f, ch, F, info, t) in tests:
        stats["histories"] += 1
        stats["ops"] += nops
        ref = {ty: (info["ref"][ty] + ["?"] * (F * ch))[:F * ch] for ty in R.TYS}
        probs = R.check_test_phase(t, out2.get(name, []), ch, F, ref, info.get("seekable", True), bw=R.raw_bw(f, ch), filehex=info.get("filehex"))
        v = verdicts[name]
        sl = t.strip().split("\n")
        lean = [abslean.describe(fail, starts[name], sl) for fail in v.fails]
        for (k, text, cat), fail in list(zip(lean, v.fails))[:3]:
            py = [p[1] for p in probs if p[0] == k]
            findings.append(Finding("pred", name, t, k, text + (" | python predicate: " + py[0] if py else ""), cat, f, ch))
            findings[-1].replay_text = absreplay.read_test_replay(
                t, k, abslean.geom_line(ch, F, "r", seekable=info.get("seekable", True), bw=R.raw_bw(f, ch) or 0), ch, F, clause=fail[1])
        for (k, text, cat) in probs[:3]:
            if cat == "crash":
                findings.append(Finding("crash", name, t, k, text, cat, f, ch))
        if not abslean.agree(v.fails, probs, starts[name]):
            judge.disagreement(name, [(starts[name] + k, tag, tx) for (k, tag, tx) in v.fails[:3]], [(k, cat, tx[:160]) for (k, tx, cat) in probs[:3]])
            # the cross-check may add to the Lean verdict, never take away from it
            for (k, text, cat) in probs[:3]:
                if cat != "crash" and not any(l[0] == k for l in lean):
                    findings.append(Finding("pred", name, t, k, "python predicate only (Sf.Abs.check accepted this line): " + text, cat, f, ch))
    return findings, stats


def script_prefix(script, line):
    sl = script.strip().split("\n")
    return "\n".join(sl[:line + 1]) + "\n"
