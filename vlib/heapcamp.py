"""C19, "independent of what the library did earlier in the same process": HEAP HISTORY.

What earlier use of the library (or of anything else in the process) leaves behind for a later handle is, besides the process-wide
variables campaign A / B of vlib/props/c19.py look at, the CONTENT OF FREED HEAP MEMORY: the next malloc / realloc hands it out again.
A handle whose results depend on it -- a header buffer grown with realloc and not cleared, a struct from malloc with a field never
set, a staging buffer written out beyond what was filled -- gives bytes that depend on (and leak) what other handles held.

The history class is made total instead of sampled: every fresh allocation of the process is pre-filled by the allocator itself
(ASan run-time options `max_malloc_fill_size` / `malloc_fill_byte`; calloc still zeroes, realloc = allocate-filled + copy), once with
0x4b and once with 0xd7 (and once with the run-time's default).  Whatever a script's transcript and closed files (data fork AND side
files: SD2 resource fork) contain must be THE SAME under all fills -- a byte that follows the fill is a byte of uninitialised heap.
This is the executable counterpart of the oracle `junk` in lean/SfModel/HeaderBuf.lean (theorem `emit_independent_of_heap`).

Scenarios, for every container (all SD2 encodings; two encodings of every other container per run, every container x encoding in
the thorough tier):
  plain   a write / read-back workload of the all-format campaign (header updates, invalid calls, error probes)
  meta    strings long enough to grow the 256-byte header buffer (several times: 300 / 2000 / 9000 bytes), a custom chunk, bext /
          cue / instrument where the container takes them, set before the data, SFC_UPDATE_HEADER_NOW, more strings after the data,
          close, full dump, re-open, strings and samples read back
  SD2     on the path route (the resource fork is a second file next to the data fork): both files dumped
"""
import collections, re

from . import scripts as S, worldcamp as WC, formats

BASE = "exitcode=77:detect_leaks=0:allocator_may_return_null=1:abort_on_error=0"
FILLS = [None, 0x4B, 0xD7]


def fill_env(env, fill):
    e = dict(env)
    if fill is not None:
        e["ASAN_OPTIONS"] = BASE + ":max_malloc_fill_size=268435456:malloc_fill_byte=%d" % fill
    return e


def hx(b):
    return bytes(b).hex()


def meta_script(rng, f, ch, sd2=False):
    from . import c03fuzz
    route = " route=path ext=sd2" if sd2 else ""
    L = ["open h0 s0 w fmt=%08x ch=%d sr=22050%s" % (f.word, ch, route)]
    big = rng.choice([300, 2000, 9000])
    for t in c03fuzz.STR_TYPES:
        n = rng.choice([5, 40, 257, big])
        L.append("setstr h0 %d %s" % (t, hx(bytes(0x41 + (k * 7 + t) % 26 for k in range(n)))))
    L.append("setchunk h0 %s %s" % (hx(b"Cust"), hx(bytes((k * 13) & 0xFF for k in range(rng.choice([30, 600]))))))
    if rng.random() < 0.5:
        L.append("cmd h0 10f1 %d %s" % (c03fuzz.SIZEOF_BEXT, hx(c03fuzz.bext_blob())))
    if rng.random() < 0.5:
        L.append("cmd h0 10cf %d %s" % (c03fuzz.SIZEOF_CUES, hx(c03fuzz.cues_blob())))
    if rng.random() < 0.3:
        L.append("cmd h0 10d1 %d %s" % (c03fuzz.SIZEOF_INST, hx(c03fuzz.inst_blob())))
    b = WC.block_hint(f)
    n = min(b + 3, 600)
    if f.codec == 0x21:
        n += (n * ch) % 2
    ty = rng.choice(["s16", "f32"])
    L.append(S.w_line("h0", ty, "f", n, WC.values_for(rng, f, ty, n * ch)))
    L.append("cmd h0 1060 0 null")
    L.append("setstr h0 1 %s" % hx(b"title set after the audio data " * rng.choice([1, 12])))
    L.append(S.w_line("h0", ty, "f", n, WC.values_for(rng, f, ty, n * ch)))
    L += ["close h0", "dump s0"]
    if sd2:
        L += ["ledger rsrc s0 sd2 load:s1", "dump s1"]
    raw = f.major == 0x04
    L.append(("open h0 s0 r fmt=%08x ch=%d sr=22050%s" % (f.word, ch, route)) if raw or sd2 else "open h0 s0 r")
    L += ["info h0"] + ["getstr h0 %d" % t for t in c03fuzz.STR_TYPES[:4]] + ["r h0 s32 f %d" % (2 * n + 8), "close h0"]
    return "\n".join(L) + "\n"


def plain_sd2(rng, f, ch):
    n = rng.choice([1, 3, 100])
    L = ["open h0 s0 w fmt=%08x ch=%d sr=%d route=path ext=sd2" % (f.word, ch, rng.choice([8000, 44100, 96000])),
         S.w_line("h0", "s16", "f", n, WC.values_for(rng, f, "s16", n * ch)), "close h0", "dump s0", "ledger rsrc s0 sd2 load:s1", "dump s1",
         "open h0 s0 r route=path ext=sd2", "info h0", "r h0 s16 f %d" % (n + 2), "close h0"]
    return "\n".join(L) + "\n"


def make_jobs(ctx, fs):
    rng = ctx.rng
    quick = ctx.tier == "quick"
    by_major = collections.defaultdict(list)
    for f in fs:
        by_major[f.major].append(f)
    jobs = []
    for mj, lst in sorted(by_major.items()):
        pick = lst if (mj == 0x16 or not quick) else rng.sample(lst, min(2, len(lst)))
        for f in pick:
            ch = min(f.maxch, rng.choice([1, 2]))
            if mj == 0x16:
                jobs.append(("heap-%s-plain" % f.name, plain_sd2(rng, f, ch), f))
                jobs.append(("heap-%s-meta" % f.name, meta_script(rng, f, ch, sd2=True), f))
            else:
                jobs.append(("heap-%s-plain" % f.name, WC.gen_workload(rng, f, ch, kind="w", nops=4), f))
                jobs.append(("heap-%s-meta" % f.name, meta_script(rng, f, ch), f))
                # read / seek and (sample-granular encodings) read-write histories of the all-format campaign: codec and container structs,
                # staging buffers and the header cache on the READ side come from the heap too
                jobs.append(("heap-%s-rs" % f.name, WC.gen_workload(rng, f, ch, kind="rs", nops=6), f))
                if f.codec in WC.RDWR_CODECS:
                    jobs.append(("heap-%s-rw" % f.name, WC.gen_workload(rng, f, ch, kind="rw", nops=6), f))
    return jobs


def canon(script, out):
    ops = WC.lines_of(script)
    out = WC.trim_reads(ops, out + ["<missing>"] * (len(ops) - len(out)))
    return out


def first_diff(a, b):
    for k in range(max(len(a), len(b))):
        x = a[k] if k < len(a) else "<missing>"
        y = b[k] if k < len(b) else "<missing>"
        if x != y:
            return k, x, y
    return None


def describe(x, y):
    """where two transcript lines differ (byte offset inside a `hex=` dump when both are dumps)"""
    mx, my = re.search(r"hex=([0-9a-f]*)", x), re.search(r"hex=([0-9a-f]*)", y)
    if mx and my:
        a, b = mx.group(1), my.group(1)
        offs = [i // 2 for i in range(0, min(len(a), len(b)), 2) if a[i:i + 2] != b[i:i + 2]]
        if offs:
            o = offs[0]
            return "%d byte(s) of the file differ, first at offset %d: %s vs %s (offsets %s%s)" % (
                len(offs), o, a[2 * o:2 * o + 16], b[2 * o:2 * o + 16], ",".join(str(v) for v in offs[:12]), ",…" if len(offs) > 12 else "")
        return "file lengths %d / %d" % (len(a) // 2, len(b) // 2)
    return "`%s` vs `%s`" % (x[:120], y[:120])


def run_fills(ctx, env, jobs):
    outs = []
    for fill in FILLS:
        outs.append(ctx.batch([(n, t) for (n, t, _) in jobs], clean=True, env=fill_env(env, fill), workers=4))
    return outs


def run(ctx, env, fs):
    """returns True when a failing input was reported"""
    jobs = make_jobs(ctx, fs)
    outs = run_fills(ctx, env, jobs)
    stats = collections.Counter()
    fails = []
    for (name, text, f) in jobs:
        tr = [canon(text, o.get(name, [])) for o in outs]
        stats["scripts"] += 1
        stats["ops"] += len(WC.lines_of(text))
        stats["bytes_dumped"] += sum(len(l) // 2 for l in tr[0] if "hex=" in l)
        ctx.distinct.add("heap:" + f.name.split("-")[0])
        if any(l.startswith(("CRASH", "ABORT", "TIMEOUT")) for l in tr[0]):
            stats["dies_under_default_allocator"] += 1          # some other property's business; says nothing about heap contents
            continue
        for i in (1, 2):
            d = first_diff(tr[0], tr[i]) or (first_diff(tr[1], tr[2]) if i == 2 else None)
            if d is not None:
                fails.append((name, text, f, FILLS[i], d))
                break
    ctx.count(stats["ops"] * len(FILLS), "heap-history")
    ctx.notes["heap_history"] = dict(stats, fills=["default"] + ["0x%02x" % x for x in FILLS[1:]], failures=len(fails),
                                     containers=len(set(f.major for (_, _, f) in jobs)))
    seen = set()
    for (name, text, f, fill, (k, x, y)) in fails:
        key = f.major
        if key in seen or len(seen) >= 3:
            continue
        seen.add(key)
        ops = WC.lines_of(text)
        ctx.violation("c19-heap-" + name,
                      "# C19 violated: a handle's results depend on what the heap held before (earlier use of the library in the same process)\n"
                      "# format %s; fresh heap memory pre-filled with 0x%02x instead of the run-time's default: operation %d `%s` answers differently\n"
                      "# %s\nc19-heapfill %d\n--- script\n%s" % (f.name, fill, k, ops[k][:80] if k < len(ops) else "", describe(x, y), fill, text))
    if jobs:
        ctx.sample({"kind": "heap-history script (run under 3 allocator fills)", "name": jobs[-1][0], "first_lines": [l[:90] for l in WC.lines_of(jobs[-1][1])[:8]]})
    return bool(fails)


def replay(ctx, path, env):
    text = open(path).read()
    fill = int(re.search(r"c19-heapfill (\d+)", text).group(1))
    script = text.split("--- script", 1)[1].lstrip("\n")
    outs = [ctx.batch([("replay", script)], clean=True, env=fill_env(env, fl))["replay"] for fl in (None, fill, 0xD7 if fill != 0xD7 else 0x4B)]
    tr = [canon(script, o) for o in outs]
    d = first_diff(tr[0], tr[1]) or first_diff(tr[1], tr[2])
    if d is not None:
        print("replay: operation %d answers differently when fresh heap memory holds other bytes: %s" % (d[0], describe(d[1], d[2])))
        ctx.report(path)
    else:
        print("replay: identical transcripts and file bytes under every allocator fill (no violation on this tree)")
