"""C09, failed opens: "a failed sf_open returns NULL, sets the global error and leaves no partially created handle or descriptor behind".

Every case is one `ledger tryopen` (harness/ledger.c): a complete open attempt through sf_open / sf_open_fd (close_desc 1 and 0) /
sf_open_virtual that never closes a descriptor the library was told to close, inside a `ledger begin` … `ledger end` bracket
(heap balance from the ASan runtime's malloc/free hooks, descriptor table, private TMPDIR).  Per case the predicate is
    open=NULL  =>  sf_error (NULL) != 0, sf_strerror (NULL) non-empty, the handed-over descriptor is closed (fdleft=0)
    open=ok    =>  (the input was acceptable after all) sf_close = 0, fdleft=0
and per bracket: balance=0 blocks=0 fds=0 tmp=0.  The Lean side is SfProps/C16 (failed_open_leaves_no_handle,
close_releases_all_after_failed_open: an open failing after ANY number of allocation steps leaves nothing held).
"""
import re, struct

from . import formats, c03fuzz
from .props import c16 as L

ROUTES = ["path", "fd1", "fd0", "vio"]
END_OK = "balance=0 blocks=0 total=0 lsan=0 fds=0 tmp=0"
END_RE = re.compile(r"balance=-?\d+ blocks=0 total=-?\d+ lsan=0 fds=0 tmp=0")
GROUP = 10


def hx(b):
    return bytes(b).hex()


class Case:
    def __init__(self, name, kind, pre, op):
        self.name, self.kind, self.pre, self.op = name, kind, pre, op      # pre: harness lines before the tryopen

    def lines(self):
        return self.pre + [self.op]


def tryopen(store, mode, fmt, ch, sr, route, ext="x", rsrc=None):
    return "ledger tryopen %s %s fmt=%08x ch=%d sr=%d route=%s ext=%s%s" % (store, mode, fmt & 0xFFFFFFFF, ch, sr, route, ext, (" rsrc=" + rsrc) if rsrc else "")


def malformed_cases(ctx, seeds, rng, per_seed_mut, trunc_step):
    out = []
    k = 0
    for name, (f, data) in sorted(seeds.items()):
        hl = min(len(data), 1400)
        variants = [("trunc%d" % n, data[:n]) for n in range(0, hl, trunc_step)]
        f32, f16 = c03fuzz.plausible_fields(data, hl)
        for _ in range(per_seed_mut):
            b = bytearray(data)
            r = rng.random()
            if r < 0.5 and f32:
                off, e = rng.choice(f32)
                struct.pack_into(e + "I", b, off, rng.choice(c03fuzz.LEN_SUBST32))
                tag = "len32@%d" % off
            elif r < 0.65 and f16:
                off, e = rng.choice(f16)
                struct.pack_into(e + "H", b, off, rng.choice(c03fuzz.SUBST16))
                tag = "len16@%d" % off
            else:
                off = rng.randrange(min(len(b), hl))
                for j in range(off, min(off + rng.choice([1, 2, 4, 8]), len(b))):
                    b[j] = rng.choice([0, 0xFF, 0x7F, 0x80, rng.randrange(256)])
                tag = "bytes@%d" % off
            variants.append((tag, bytes(b)))
        for (tag, blob) in variants:
            route = ROUTES[k % 4]
            mode = "rw" if (k % 7 == 6 and route != "fd0") else "r"
            k += 1
            fmt = f.word if (f.major == 4 or mode == "rw") else 0
            out.append(Case("mal-%s-%s-%s-%s" % (name, tag, mode, route), "malformed:" + formats.MAJOR_NAME.get(f.major, "?"),
                            ["store s1 %s" % hx(blob)], tryopen("s1", mode, fmt, 2 if f.maxch >= 2 else 1, 8000, route)))
    return out


def sd2_material(ctx):
    """(audio bytes, resource fork bytes) of a small SD2 file written by the library itself"""
    script = ("open h0 s0 w fmt=00160002 ch=2 sr=8000 route=path ext=sd2\nw h0 s16 i 32 %s\nclose h0\nledger rsrc s0 sd2 load:s5\ndump s0\ndump s5\n" % ("0102" * 32))
    lines, rc, err = ctx.script(script)
    d = [l for l in lines if l.startswith("len=") and "hex=" in l]
    if len(d) < 2:
        return None, None
    return bytes.fromhex(d[-2].split("hex=")[1].strip()), bytes.fromhex(d[-1].split("hex=")[1].strip())


def sd2_cases(ctx, rng, n):
    audio, rsrc = sd2_material(ctx)
    out = []
    if not rsrc:
        return out, False
    variants = [("empty", b""), ("one", rsrc[:1]), ("garbage", bytes(rng.randrange(256) for _ in range(300)))]
    for cut in sorted(set([4, 15, 16, 17, 64, 255, 256, 257, len(rsrc) // 2, len(rsrc) - 1] + [rng.randrange(1, len(rsrc)) for _ in range(n)])):
        if 0 < cut < len(rsrc):
            variants.append(("trunc%d" % cut, rsrc[:cut]))
    for _ in range(n * 2):
        b = bytearray(rsrc)
        for _ in range(rng.choice([1, 1, 2, 4])):
            off = rng.randrange(len(b))
            b[off] = rng.choice([0, 0xFF, 0x7F, 0x80, b[off] ^ (1 << rng.randrange(8))])
        variants.append(("flip", bytes(b)))
    f32, _ = c03fuzz.plausible_fields(rsrc, len(rsrc))
    for (off, e) in f32[:60]:
        for v in (0, 0xFFFFFFFF, 0x7FFFFFFF, len(rsrc) + 1):
            b = bytearray(rsrc)
            struct.pack_into(e + "I", b, off, v)
            variants.append(("len32@%d" % off, bytes(b)))
    k = 0
    for (tag, blob) in variants:
        mode = "rw" if k % 5 == 4 else "r"
        k += 1
        out.append(Case("sd2-%s-%d-%s" % (tag, k, mode), "sd2-rsrc", ["store s1 %s" % hx(audio), "store s2 %s" % hx(blob)],
                        tryopen("s1", mode, 0x160002 if mode == "rw" else 0, 2, 8000, "path", ext="sd2", rsrc="s2")))
    # an SD2 format word through a descriptor is refused before anything is allocated: the descriptor must still be closed
    for route in ("fd1", "fd0"):
        for mode in ("r", "w", "rw"):
            out.append(Case("sd2-fd-%s-%s" % (route, mode), "sd2-fd", ["store s1 %s" % hx(audio)], tryopen("s1", mode, 0x160002, 2, 8000, route, ext="sd2")))
    # no resource fork at all
    out.append(Case("sd2-norsrc", "sd2-rsrc", ["store s1 %s" % hx(audio)], tryopen("s1", "r", 0, 2, 8000, "path", ext="sd2")))
    return out, True


def unknown_cases(ctx, rng, n):
    out = []
    blobs = [("empty", b""), ("text", b"this is not an audio file\n" * 4), ("zeros", bytes(64)), ("ff", b"\xff" * 64), ("riff-only", b"RIFF"),
             ("riff-nowave", b"RIFF\x24\x00\x00\x00JUNKfmt "), ("form-only", b"FORM\x00\x00\x00\x10XXXX"), ("caff-short", b"caff\x00\x01"),
             ("snd-short", b".snd\x00\x00\x00"), ("fver", b"FORM\x00\x00\x00\x04AIFC"), ("ogg", b"OggS" + bytes(60)), ("flac", b"fLaC" + bytes(60)), ("id3", b"ID3\x03\x00\x00\x00\x00\x00\x0a" + bytes(30))]
    for _ in range(n):
        blobs.append(("rand%d" % len(blobs), bytes(rng.randrange(256) for _ in range(rng.choice([1, 3, 11, 12, 13, 43, 44, 45, 100, 600])))))
    k = 0
    for (tag, blob) in blobs:
        for route in ROUTES:
            for mode in ("r", "rw"):
                if mode == "rw" and k % 3:
                    k += 1
                    continue
                k += 1
                out.append(Case("unk-%s-%s-%s" % (tag, mode, route), "unknown-format", ["store s1 %s" % hx(blob)], tryopen("s1", mode, 0, 0, 0, route)))
    return out


def bad_info_cases(ctx, fmts, rng):
    out = []
    k = 0
    seen = set()
    for f in fmts:
        if (f.major, f.codec) in seen:
            continue
        seen.add((f.major, f.codec))
        bads = [("ch0", f.word, 0, 8000), ("ch-1", f.word, -1, 8000), ("chbig", f.word, 1025, 8000), ("sr-1", f.word, 1, -1),
                ("nocodec", f.word & 0x0FFF0000, 1, 8000), ("nomajor", f.word & 0xFFFF, 1, 8000), ("badcodec", (f.word & 0x0FFF0000) | 0x00FF, 1, 8000),
                ("badendian", f.word | 0x40000000, 1, 8000), ("chover", f.word, f.maxch + 1 if f.maxch < 1024 else 2000, 8000)]
        for (tag, fmt, ch, sr) in bads:
            route = ROUTES[k % 4]
            mode = "rw" if k % 4 == 3 and route != "fd0" else "w"
            k += 1
            if f.major == 0x16 and route != "path":
                route = "path"
            out.append(Case("info-%s-%s-%s-%s" % (f.name, tag, mode, route), "bad-sf-info", ["store s1 "], tryopen("s1", mode, fmt, ch, sr, route, ext="sd2" if f.major == 0x16 else "x")))
    for route in ROUTES:
        for m in ("0", "7", "-1", "48"):
            out.append(Case("mode-%s-%s" % (m, route), "bad-mode", ["store s1 "], tryopen("s1", m, 0x010002, 1, 8000, route)))
        out.append(Case("fmt0-%s" % route, "bad-sf-info", ["store s1 "], tryopen("s1", "w", 0, 1, 8000, route)))
    return out


def judge_case(line):
    """reasons why the answer of one open attempt breaks the C09 statement"""
    if line is None:
        return ["no answer (the attempt did not return)"]
    kv = dict(re.findall(r"(\w+)=([^ ]*)", line))
    why = []
    if line.startswith("open=NULL"):
        if kv.get("err") in (None, "0"):
            why.append("sf_open returned NULL but sf_error (NULL) is 0")
        if kv.get("msglen") in (None, "0"):
            why.append("sf_open returned NULL but sf_strerror (NULL) is empty")
    elif line.startswith("open=ok"):
        if kv.get("close") != "0":
            why.append("the open succeeded and sf_close returned %s" % kv.get("close"))
    else:
        why.append("unexpected answer: " + line[:80])
    if kv.get("fdleft") not in (None, "0"):
        why.append("the descriptor handed over with close_desc=1 is still open after the call")
    return why


def script_of(cases):
    lines = ["ledger begin"]
    idx = []
    for c in cases:
        lines += c.pre
        lines.append(c.op)
        idx.append(len(lines) - 1)
    lines.append("ledger end")
    return "\n".join(lines) + "\n", idx


def run_groups(ctx, groups):
    scripts = []
    meta = {}
    for gi, g in enumerate(groups):
        text, idx = script_of(g)
        scripts.append(("g%d" % gi, text))
        meta["g%d" % gi] = (g, idx, text)
    res = ctx.batch(scripts, env=L.LEAK_ENV, op_timeout=20)
    return {k: ([l for l in res.get(k, []) if l.startswith(L.KEEP)], meta[k]) for k in meta}


def run_failed_opens(ctx):
    """returns True when a failing input was reported"""
    quick = ctx.tier == "quick"
    rng = ctx.rng
    fmts = formats.writable_formats(ctx)
    seeds = L.make_seeds(ctx, L.seed_formats(fmts))
    cases = []
    cases += malformed_cases(ctx, seeds, rng, 8 if quick else 80, 8 if quick else 1)
    sd2, have_sd2 = sd2_cases(ctx, rng, 8 if quick else 60)
    cases += sd2
    cases += unknown_cases(ctx, rng, 12 if quick else 100)
    cases += bad_info_cases(ctx, fmts, rng)
    groups = [cases[i:i + GROUP] for i in range(0, len(cases), GROUP)]
    out = run_groups(ctx, groups)
    found = False
    reported = 0
    kinds = {}
    nulls = oks = 0
    suspects = []
    for key, (t, (g, idx, text)) in out.items():
        nlines = len(text.strip().split("\n"))
        complete = len(t) == nlines
        for c, i in zip(g, idx):
            kinds[c.kind] = kinds.get(c.kind, 0) + 1
            ctx.count(1, "open:" + c.kind)
        if not complete or not t or not END_RE.match(t[-1]) or any(judge_case(t[i]) for i in idx if i < len(t)):
            suspects.append(g)
        else:
            for i in idx:
                if t[i].startswith("open=NULL"):
                    nulls += 1
                else:
                    oks += 1
    # every case of a suspect bracket on its own: the culprit gets its own replay
    singles = [[c] for g in suspects for c in g]
    if singles:
        out1 = run_groups(ctx, singles)
        for key, (t, (g, idx, text)) in out1.items():
            c = g[0]
            nlines = len(text.strip().split("\n"))
            ans = t[idx[0]] if idx[0] < len(t) else None
            why = judge_case(ans)
            crash = [l for l in t if l.startswith(("CRASH", "ABORT", "TIMEOUT"))]
            end_ok = len(t) == nlines and bool(END_RE.match(t[-1]))
            if ans and not why and end_ok:
                if ans.startswith("open=NULL"):
                    nulls += 1
                else:
                    oks += 1
                continue
            if crash and L.waive_known(ctx, "\n".join(c.lines()) + "\n"):
                continue
            found = True
            reported += 1
            if reported > 6:
                continue
            if crash:
                # crashes and hangs on hostile input are C03's subject; here they still mean the failed open did not return cleanly
                ctx.violation("c09-open-" + c.name, "# C09 (failed open): the attempt did not return: %s\n# case %s (%s)\n--- script\n%s" % (crash[0], c.name, c.kind, "\n".join(c.lines()) + "\n"))
            elif why:
                ctx.violation("c09-open-" + c.name, "# C09 (failed open): %s\n# case %s (%s)\nobserved-last %s\n--- script\n%s"
                              % ("; ".join(why), c.name, c.kind, ans, "\n".join(c.lines()) + "\n"))
            else:
                last = t[-1] if t else "(nothing)"
                ctx.violation("c09-open-" + c.name, "# C09 (failed open): the attempt leaves something behind: %s\n# answer of the open: %s\n# case %s (%s)\nexpect-last blocks=0\nexpect-last lsan=0 fds=0 tmp=0\n--- script\n%s"
                              % (last, ans, c.name, c.kind, text))
    ctx.notes["failed_open_cases"] = len(cases)
    ctx.notes["failed_open_by_kind"] = kinds
    ctx.notes["failed_open_returned_null"] = nulls
    ctx.notes["failed_open_accepted"] = oks
    ctx.notes["failed_open_sd2_material"] = have_sd2
    ctx.sample({"kind": "failed open", "case": cases[0].name if cases else None, "op": cases[0].op if cases else None})
    from . import lateopen
    late_found, _ = lateopen.run_for(ctx, "C09", L, fmts)       # inputs rejected after each allocating chunk of each container (vlib/lateopen.py)
    return found or late_found
