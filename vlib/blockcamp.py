"""Block-codec campaign (C01 / C06 / C07 extension): PAF 24-bit, SDS 8/16/24, XI DPCM 8/16, RAW VOX ADPCM through real
files, against the byte-exact Lean models (lean/SfModel/Block.lean, Paf24, Sds, Dpcm, Oki, BlockFile; `sfmodel block`).

For every job the library writes sample vectors in several calls (mixed caller types, item and frame variants), the
file is dumped, re-opened and read / seeked; the model is run on the same calls (writer: bytes of the data region,
SDS: of the whole file) and on the *library's* file bytes (reader).  Compared: every write return value, the bytes,
the frame count after re-open, every read / seek return value and every delivered item.

Besides the correspondence the property predicates are evaluated on the implementation's own transcript:
  roundtrip  (C01) lossless caller type: items read back == items written
  partition  (C07) same samples, one call vs. many calls: same file bytes
  stream     (C06) every read after a seek returns the slice of the sequential reference read
so that a disagreement is reported with a failing input when one exists, and `no-failing-input-found` otherwise.
"""
import collections, concurrent.futures

from . import scripts as S, kernels as K, formats

LE, BE = 0x10000000, 0x20000000
TYS = ["s16", "s32", "f32", "f64"]
DIG = K.TY_DIGITS
PAF_OFFSET = 2048
XI_OFFSET = 338


class Codec:
    def __init__(self, kind, word, spb, maxch=1, offset=0, raw=False, lossless=None, wav=False, **kw):
        self.kind, self.word, self.spb, self.maxch, self.offset, self.raw = kind, word, spb, maxch, offset, raw
        self.wav = wav
        self.lossless = lossless or {}      # caller type -> number of low bits that must be zero
        self.kw = kw

    def name(self):
        return self.kind + "".join("-%s%s" % (k, v) for k, v in sorted(self.kw.items()))


def codecs(ctx):
    paf_max = 1
    for f in formats.writable_formats(ctx):
        if f.major == 0x05 and f.codec == 0x03:
            paf_max = max(paf_max, f.maxch)
    return [
        Codec("paf24", 0x050003 | BE, 10, maxch=paf_max, offset=PAF_OFFSET, lossless={"s16": 0, "s32": 8}, big=1),
        Codec("paf24", 0x050003 | LE, 10, maxch=paf_max, offset=PAF_OFFSET, lossless={"s16": 0, "s32": 8}, big=0),
        Codec("sds", 0x110001, 60, lossless={"s16": 8, "s32": 24}, bw=8),      # 14 bits are stored; 8 is what the format promises
        Codec("sds", 0x110002, 40, lossless={"s16": 0, "s32": 16}, bw=16),
        Codec("sds", 0x110003, 30, lossless={"s16": 0, "s32": 8}, bw=24),
        Codec("dpcm8", 0x0F0050, 1, offset=XI_OFFSET, lossless={"s16": 8, "s32": 24}),
        Codec("dpcm16", 0x0F0051, 1, offset=XI_OFFSET, lossless={"s16": 0, "s32": 16}),
        Codec("vox", 0x040021, 2, raw=True),
        # reader-only models (the encoders are not modelled): WAV IMA / MS ADPCM, blocks decoded by SfModel/Adpcm.lean
        Codec("imawav", 0x010012, 505, maxch=2, wav=True),
        Codec("mswav", 0x010013, 500, maxch=2, wav=True),
    ]


class Job:
    def __init__(self, name, codec, ch, sr, flags, calls, rops, cat):
        self.name, self.codec, self.ch, self.sr, self.flags, self.calls, self.rops, self.cat = name, codec, ch, sr, flags, calls, rops, cat
        self.twin = None        # name of the single-call twin (partition jobs)
        self.n = sum(len(v) for (_, _, _, v) in calls) // ch

    def kf_classes(self):
        """known-finding classes this job's inputs lie in"""
        return set()        # KF-VOX-ODD (odd item counts on OKI/VOX) is repaired: no class is left

    def harness_script(self):
        c = self.codec
        lines = ["open h1 s0 w fmt=%08x ch=%d sr=%d" % (c.word, self.ch, self.sr)]
        lines += K.flag_cmds("h1", self.flags)
        for (ty, unit, cnt, vals) in self.calls:
            lines.append(S.w_line("h1", ty, unit, cnt, vals))
        lines += ["close h1", "dump s0"]
        lines.append(("open h2 s0 r fmt=%08x ch=%d sr=%d" % (c.word, self.ch, self.sr)) if c.raw else "open h2 s0 r")
        lines += K.flag_cmds("h2", self.flags)
        for op in self.rops:
            if op[0] == "r":
                lines.append("r h2 %s %s %d" % (op[1], op[2], op[3]))
            else:
                lines.append("seek h2 %d %d" % (op[1], op[2]))
        lines.append("close h2")
        return "\n".join(lines) + "\n"

    def model_script(self, filehex):
        c = self.codec
        if c.wav:
            geo = wav_geometry(filehex or "")
            lines = ["codec %s ch=%d ba=%d spb=%d" % (c.kind, self.ch, geo[0], geo[1]) + "".join(" %s=%d" % (k, v) for k, v in sorted(self.flags.items()))]
            lines.append("load " + geo[2])
            for op in self.rops:
                lines.append(("r %s %s %d" % (op[1], op[2], op[3])) if op[0] == "r" else ("seek %d %d" % (op[1], op[2])))
            return "\n".join(lines) + "\n"
        head = "codec %s ch=%d sr=%d" % (c.kind, self.ch, self.sr)
        head += "".join(" %s=%s" % (k, v) for k, v in sorted(c.kw.items()))
        head += "".join(" %s=%d" % (k, v) for k, v in sorted(self.flags.items()))
        lines = [head]
        for (ty, unit, cnt, vals) in self.calls:
            lines.append("w %s %s %d %s" % (ty, unit, cnt, K.hex_items(vals, DIG[ty])))
        lines.append("close")
        lines.append("load " + filehex if filehex is not None else "reopen")
        for op in self.rops:
            if op[0] == "r":
                lines.append("r %s %s %d" % (op[1], op[2], op[3]))
            else:
                lines.append("seek %d %d" % (op[1], op[2]))
        return "\n".join(lines) + "\n"


def wav_geometry(filehex):
    """(blockalign, samplesperblock, data region hex) of a WAV file with an ADPCM 'fmt ' chunk"""
    b = bytes.fromhex(filehex)
    ba = spb = 0
    data = b""
    k = 12
    while k + 8 <= len(b):
        cid, size = b[k:k + 4], int.from_bytes(b[k + 4:k + 8], "little")
        body = b[k + 8:k + 8 + size]
        if cid == b"fmt " and len(body) >= 20:
            ba = int.from_bytes(body[12:14], "little")
            spb = int.from_bytes(body[18:20], "little")
        if cid == b"data":
            data = body
            break
        k += 8 + size + (size & 1)
    return ba, spb, data.hex()


def split_calls(rng, n, ch, tys, big_ok=True):
    """n frames cut into calls; each call (ty, unit, count, nitems)"""
    out = []
    left = n
    while left > 0:
        k = min(left, rng.choice([1, 1, 2, 3, 5, 7, 9, 10, 11, 29, 30, 31, 40, 41, 59, 60, 61, 255, 256, 257, 511, 512, 513, 683, 1024, 2047, 2048, 2049, 4097, left, left]))
        if not big_ok:
            k = min(k, max(1, 2048 // ch))
        ty = rng.choice(tys)
        unit = rng.choice("if")
        out.append((ty, unit, k if unit == "f" else k * ch, k * ch))
        left -= k
    return out


def pick_n(rng, spb, quick):
    b = spb
    cands = [0, 1, 2, b - 1, b, b + 1, 2 * b - 1, 2 * b, 2 * b + 1, 3 * b + 1, 7 * b - 1, 12 * b + 3, 100 * b, 100 * b + 1]
    r = rng.random()
    if r < 0.55:
        return max(0, rng.choice(cands))
    if r < 0.9:
        return rng.randrange(0, 700)
    return rng.randrange(700, 5000 if quick else 20000)


def read_ops(rng, codec, ch, frames, ty, seekable, nops, allow_big=True):
    """reference read of everything, then seek/read history in one caller type"""
    ops = [("r", ty, "i", (frames + 3 * codec.spb + 5) * ch)]
    ops.append(("r", ty, "i", ch))
    if not seekable:
        return ops
    b = codec.spb
    for _ in range(nops):
        if rng.random() < 0.45:
            wh = rng.choice([0, 0, 0, 1, 2])
            if wh == 0:
                off = rng.choice([0, 1, b - 1, b, b + 1, max(frames - 1, 0), frames, frames + 1, -1, rng.randrange(0, frames + 1), (rng.randrange(0, frames + 1) // b) * b])
            elif wh == 1:
                off = rng.choice([0, 0, 1, -1, b, -b, 3, -7, rng.randrange(-frames - 1, frames + 2)])
            else:
                off = rng.choice([0, -1, -b, -b - 1, 1, -rng.randrange(0, frames + 1)])
            ops.append(("seek", off, wh))
        else:
            k = rng.choice([0, 1, 1, 2, 3, b - 1, b, b + 1, 2 * b + 1, 33, 100, frames + 2] + ([2048 // ch + 1, 2050] if allow_big else []))
            unit = rng.choice("if")
            ops.append(("r", ty, unit, k if unit == "f" else k * ch))
    return ops


def make_jobs(ctx, njobs, quick):
    rng = ctx.rng
    cs = codecs(ctx)
    jobs = []
    k = 0
    vox = next((c for c in cs if c.kind == "vox"), None)
    if vox is not None:
        # anchor: a sine whose envelope climbs from 16 to full scale and back, so that the adaptive step index walks slowly through ALL 49 entries of
        # the OKI step table with small and large codes at each (noise saturates the index at 48 within a few samples and never sees the middle entries)
        import math
        for (tag, n, w) in (("walk", 1600, 0.9), ("walk-slow", 2400, 0.23)):
            vals = [int(max(-32768, min(32767, 16 * 2048 ** (min(i, n - 1 - i) / (n / 2.0)) * math.sin(i * w)))) & 0xFFFF for i in range(n)]
            j = Job("%s-c1-n%d-%s-%d" % (vox.name(), n, tag, len(jobs)), vox, 1, 8000, {}, [("s16", "i", n, vals)],
                    [("r", "s16", "i", 512), ("r", "s32", "i", n - 512 + 6)], "stream")
            j.partread = True
            jobs.append(j)
    while len(jobs) < njobs:
        c = cs[k % len(cs)]
        k += 1
        ch = 1 if c.maxch == 1 else rng.choice([1, 2, 2, 3, 4, 5, 6, 8, rng.randrange(1, min(c.maxch, 16) + 1)])
        ch = min(ch, c.maxch)
        sr = 44100 if c.kind.startswith("dpcm") else rng.choice([8000, 44100, 22050, 11025, 96000, 1])
        flags = {}
        if rng.random() < 0.3:
            flags = {"normF": rng.choice([0, 1]), "normD": rng.choice([0, 1])}
        if c.wav:
            from . import geometry as G
            c = Codec(c.kind, c.word, G.block_frames(formats.Fmt(c.word, 2), ch, sr), maxch=2, wav=True)
        n = pick_n(rng, c.spb, quick)
        if c.wav:
            n = min(n, 12 * c.spb + 3)
        if c.kind.startswith("dpcm") and rng.random() < 0.15:
            n = rng.randrange(8000, 20000)          # beyond the 8192-byte staging buffer of xi.c
        kind = rng.choice(["roundtrip", "partition", "stream"]) if not c.wav else "stream"
        if kind == "roundtrip" and c.lossless:
            tys = [rng.choice(sorted(c.lossless))]
        elif rng.random() < 0.5:
            tys = [rng.choice(TYS)]
        else:
            tys = TYS
        calls = []
        for (ty, unit, cnt, nitems) in split_calls(rng, n, ch, tys):
            vals = S.rand_values(rng, ty, nitems, "mixed" if rng.random() < 0.3 else "unit")
            if ty in c.lossless and kind == "roundtrip":
                z = c.lossless[ty]
                vals = [v & ~((1 << z) - 1) & ((1 << (4 * DIG[ty])) - 1) for v in vals]
            calls.append((ty, unit, cnt, vals))
        nfr = sum(len(v) for (_, _, _, v) in calls) // ch
        F = nfr
        if c.kind == "paf24":
            F = (nfr + 9) // 10 * 10
        if c.wav:
            F = (nfr + c.spb - 1) // c.spb * c.spb
        if c.kind == "vox":
            F = 2 * ((nfr + 1) // 2)         # two samples per byte; an odd total gets the encoder's zero sample at close
        rty = tys[0] if kind == "roundtrip" else rng.choice(TYS)
        seekable = c.kind in ("paf24", "sds") or c.wav
        rops = read_ops(rng, c, ch, F, rty, seekable and kind == "stream", 30 if quick else 60)
        partread = False
        if not seekable and kind == "stream":
            # byte-stream codecs with running state cannot seek: the read side is cut into calls instead
            # (the decoder state must survive call and staging-chunk boundaries)
            partread = True
            rops, left = [], F + 6
            while left > 0:
                k = min(left, rng.choice([1, 2, 3, 7, 64, 255, 511, 512, 513, 4095, 4096, 4097, 8192, 8193, left]))
                rops.append(("r", rng.choice(TYS), "i", k))
                left -= k
        if not seekable and rng.random() < 0.5:
            rops.append(("seek", rng.choice([0, 1, F]), rng.choice([0, 1, 2])))
        name = "%s-c%d-n%d-%s-%d" % (c.name(), ch, nfr, kind, len(jobs))
        j = Job(name, c, ch, sr, flags, calls, rops, kind)
        j.partread = partread
        jobs.append(j)
        if kind == "partition" and nfr > 0:
            # twin: the same caller values per type run, written with one call per maximal run of equal type
            merged = []
            for (ty, unit, cnt, vals) in calls:
                if merged and merged[-1][0] == ty:
                    merged[-1] = (ty, "i", merged[-1][2] + len(vals), merged[-1][3] + vals)
                else:
                    merged.append((ty, "i", len(vals), list(vals)))
            t = Job(name + "-twin", c, ch, sr, flags, merged, rops[:2], "twin")
            j.twin = t.name
            jobs.append(t)
    return jobs


def run_model(ctx, scripts, workers=4):
    chunks = [scripts[i::workers] for i in range(workers)]
    chunks = [c for c in chunks if c]

    def one(chunk):
        inp = "".join("== %s\n%s" % (n, t) for (n, t) in chunk)
        out = ctx.run_model(["block"], inp, timeout=3600)
        res, cur = {}, None
        for line in out.split("\n"):
            if line.startswith("== "):
                cur = line[3:]
                res[cur] = []
            elif cur is not None and line:
                res[cur].append(line)
        return res

    out = {}
    with concurrent.futures.ThreadPoolExecutor(max_workers=len(chunks) or 1) as ex:
        for r in ex.map(one, chunks):
            out.update(r)
    return out


def kv(line):
    d = {}
    for t in line.split():
        if "=" in t:
            a, b = t.split("=", 1)
            d[a] = b
    return d


def items_of(hexs, ty):
    w = DIG[ty]
    return [hexs[i:i + w] for i in range(0, len(hexs) - w + 1, w)]


class Problem:
    def __init__(self, job, kind, cat, text, line=None, impl=None, model=None):
        self.job, self.kind, self.cat, self.text, self.line, self.impl, self.model = job, kind, cat, text, line, impl, model


def analyse(job, hs, impl, model, twins):
    """compare one job; returns list of Problem (kind 'corr' = model vs implementation, 'pred' = property predicate)"""
    probs = []
    c = job.codec
    sl = hs.strip().split("\n")
    if any(l.startswith(("CRASH", "ABORT", "TIMEOUT")) for l in impl):
        bad = next(l for l in impl if l.startswith(("CRASH", "ABORT", "TIMEOUT")))
        return [Problem(job, "pred", "crash", "implementation died: " + bad, len(impl) - 1)], {}
    if len(impl) < len(sl):
        return [Problem(job, "pred", "crash", "transcript ends early (%d of %d lines)" % (len(impl), len(sl)), len(impl))], {}
    mi = 0
    info = {"written": collections.defaultdict(list), "reads": []}
    pos_ref = None
    for k, (op, out) in enumerate(zip(sl, impl)):
        t = op.split()
        m = None
        if t[0] in ("w", "dump") and c.wav:
            m = None            # the encoder is not modelled: nothing to compare on the write side
        elif t[0] in ("w", "r", "seek"):
            m = model[mi] if mi < len(model) else "<missing>"
            mi += 1
        elif t[0] == "dump":
            m = model[mi] if mi < len(model) else "<missing>"
            mi += 1
        elif t[0] == "open" and t[3] == "r":
            m = model[mi] if mi < len(model) else "<missing>"
            mi += 1
        if t[0] == "open":
            if "open=NULL" in out:
                probs.append(Problem(job, "pred", "open", "open failed: %s" % out, k))
                return probs, info
            if t[3] == "r":
                F = int(kv(out).get("frames", -1))
                info["frames"] = F
                if kv(m).get("frames") != str(F):
                    probs.append(Problem(job, "corr", "frames", "frames after re-open", k, out, m))
        elif t[0] == "w":
            if m is not None and S.normalise(out) != S.normalise(m):
                probs.append(Problem(job, "corr", "write", "write return value", k, out, m))
            want = int(t[4])
            if kv(out).get("ret") != str(want):
                probs.append(Problem(job, "pred", "count", "write of %d returned %s" % (want, kv(out).get("ret")), k))
        elif t[0] == "dump":
            hexs = out.split("hex=")[1] if "hex=" in out else ""
            info["filehex"] = hexs
            if m is None:
                continue
            data = hexs if c.kind == "sds" else hexs[2 * c.offset:]
            info["datahex"] = data
            md = m.split("data=")[1] if "data=" in m else "?"
            if data != md:
                # first differing byte
                d = next((i for i in range(0, min(len(data), len(md)), 2) if data[i:i + 2] != md[i:i + 2]), min(len(data), len(md)))
                probs.append(Problem(job, "corr", "bytes", "file bytes differ from byte %d of the %s (lengths %d / %d): implementation …%s model …%s"
                                     % (d // 2, "file" if c.kind == "sds" else "data region", len(data) // 2, len(md) // 2, data[max(0, d - 8):d + 24], md[max(0, d - 8):d + 24]), k,
                                     "len=%d" % (len(data) // 2), "len=%d" % (len(md) // 2)))
        elif t[0] == "r":
            ty = t[2]
            a, b = kv(out), kv(m)
            ret = int(a.get("ret", -1))
            items = ret * (job.ch if t[3] == "f" else 1)
            da, db = a.get("data", ""), b.get("data", "")
            if c.kind == "vox":      # cells beyond the return value hold whatever the staging buffer held
                da, db = da[:items * DIG[ty]], db[:int(b.get("ret", 0)) * DIG[ty]]
            if a.get("ret") != b.get("ret") or da != db or (a.get("err") == "0") != (b.get("err") == "0"):
                probs.append(Problem(job, "corr", "read", "read result", k, out[:400], m[:400]))
            info["reads"].append((k, t, ret, items_of(a.get("data", ""), ty)))
        elif t[0] == "seek":
            a, b = kv(out), kv(m)
            if a.get("ret") != b.get("ret") or (a.get("err") == "0") != (b.get("err") == "0"):
                probs.append(Problem(job, "corr", "seek", "seek result", k, out, m))
            info["reads"].append((k, t, int(a.get("ret", -1)), None))
    # ---- property predicates on the implementation's own transcript ----
    F = info.get("frames", 0)
    reads = info["reads"]
    ch = job.ch
    if reads and not getattr(job, "partread", False):
        k0, t0, ret0, ref = reads[0]
        ty = t0[2]
        if ret0 != F * ch:
            probs.append(Problem(job, "pred", "frames", "re-open reports %d frames, the sequential read delivered %d items (%d channels)" % (F, ret0, ch), k0))
        if len(reads) > 1 and reads[1][2] != 0:
            probs.append(Problem(job, "pred", "eof", "a read after the end returned %d" % reads[1][2], reads[1][0]))
        # C01 roundtrip
        if job.cat == "roundtrip" and ty in c.lossless and all(cl[0] == ty for cl in job.calls):
            written = [("%0" + str(DIG[ty]) + "x") % v for cl in job.calls for v in cl[3]]
            got = ref[:len(written)]
            if got != written:
                d = next((i for i in range(min(len(got), len(written))) if got[i] != written[i]), min(len(got), len(written)))
                probs.append(Problem(job, "pred", "roundtrip", "item %d read back as %s, written as %s (%d items written, %d read)"
                                     % (d, got[d] if d < len(got) else "<none>", written[d] if d < len(written) else "<none>", len(written), len(got)), k0))
        # C06 stream: position tracking over the seek/read history
        pos = min(ret0 // ch, F) if ret0 >= 0 else 0
        pos = F if ret0 >= F * ch else pos
        for (k, t, ret, data) in reads[1:]:
            if t[0] == "seek":
                off, wh = int(t[2]), int(t[3])
                target = off if wh == 0 else pos + off if wh == 1 else F + off
                if c.kind not in ("paf24", "sds") and not c.wav:
                    continue
                if 0 <= target <= F:
                    if ret != target:
                        probs.append(Problem(job, "pred", "seek", "seek to frame %d returned %d" % (target, ret), k))
                        break
                    pos = target
                elif ret != -1:
                    probs.append(Problem(job, "pred", "seek", "seek to frame %d (outside 0..%d) returned %d" % (target, F, ret), k))
                    break
            else:
                req = int(t[4]) * (ch if t[3] == "f" else 1)
                exp = min(req, (F - pos) * ch)
                got_items = ret * (ch if t[3] == "f" else 1)
                if got_items != exp:
                    probs.append(Problem(job, "pred", "position", "read of %d items at frame %d of %d delivered %d" % (req, pos, F, got_items), k))
                    break
                if data[:exp] != ref[pos * ch: pos * ch + exp]:
                    d = next(i for i in range(exp) if data[i] != ref[pos * ch + i])
                    probs.append(Problem(job, "pred", "stream", "read at frame %d: item %d is %s, the sequential read delivered %s there" % (pos, d, data[d], ref[pos * ch + d]), k))
                    break
                pos += exp // ch
    return probs, info


def campaign(ctx, njobs, cats):
    """runs the campaign; returns (problems, stats). `cats`: predicate categories the calling property reports."""
    quick = ctx.tier == "quick"
    jobs = make_jobs(ctx, njobs, quick)
    hs = {j.name: j.harness_script() for j in jobs}
    impl = ctx.batch([(j.name, hs[j.name]) for j in jobs], workers=4, clean=True)
    ms = []
    for j in jobs:
        lines = impl.get(j.name, [])
        dump = next((l for l in lines if l.startswith("len=") and "hex=" in l), None)
        filehex = None
        if dump is not None:
            hx = dump.split("hex=")[1]
            filehex = hx if (j.codec.kind == "sds" or j.codec.wav) else hx[2 * j.codec.offset:]
        ms.append((j.name, j.model_script(filehex)))
    model = run_model(ctx, ms)
    stats = collections.Counter()
    probs = []
    infos = {}
    for j in jobs:
        p, info = analyse(j, hs[j.name], impl.get(j.name, []), model.get(j.name, []), None)
        infos[j.name] = info
        probs += p
        stats["jobs"] += 1
        stats["ops"] += len(j.calls) + len(j.rops) + 3
        stats["frames"] += j.n
        ctx.distinct.add("blk:%s:c%d" % (j.codec.name(), j.ch))
        ctx.distinct.add("blk:%s:%s" % (j.codec.kind, j.cat))
        stats[j.codec.kind] += 1
    # C07: twin comparison
    byname = {j.name: j for j in jobs}
    for j in jobs:
        if j.twin and "datahex" in infos.get(j.name, {}) and "datahex" in infos.get(j.twin, {}):
            stats["twins"] += 1
            a, b = infos[j.name]["datahex"], infos[j.twin]["datahex"]
            if a != b:
                d = next((i for i in range(0, min(len(a), len(b)), 2) if a[i:i + 2] != b[i:i + 2]), min(len(a), len(b)))
                pr = Problem(j, "pred", "partition", "the same samples written in %d calls and in %d calls give files that differ from byte %d (lengths %d / %d)"
                             % (len(j.calls), len(byname[j.twin].calls), d // 2, len(a) // 2, len(b) // 2), None)
                pr.twin_script = hs[j.twin]
                probs.append(pr)
    stats["hs"] = hs
    return probs, stats


CATS = {
    "C01": {"roundtrip", "count", "frames", "eof", "crash", "open"},
    "C06": {"stream", "seek", "position", "crash", "open"},
    "C07": {"partition", "crash", "open"},
    "C05": {"count", "position", "eof", "crash", "open"},
}


def run(ctx, prop, njobs):
    """called from the property's run(): reports violations / known findings; returns True if a failing input was reported"""
    probs, stats = campaign(ctx, njobs, CATS[prop])
    hs = stats.pop("hs")
    ctx.count(stats["ops"])
    ctx.coverage["traces_validated_against_impl"] += stats["jobs"]
    ctx.notes["block"] = {k: v for k, v in stats.items()}
    found = False
    reported = set()
    pred = [p for p in probs if p.kind == "pred" and p.cat in CATS[prop]]
    for p in pred:
        j = p.job
        kfs = j.kf_classes()
        ent = next((k for k in ctx.known if k["id"] in kfs and k.get("status") == "known" and prop in k.get("properties", [])), None)
        if ent is not None and p.cat in ("roundtrip", "partition", "count", "stream", "frames", "eof", "position"):
            ctx.known_finding(ent)
            continue
        key = (j.codec.kind, p.cat)
        if key in reported or len(reported) >= 3:
            continue
        reported.add(key)
        found = True
        script = hs[j.name]
        if p.line is not None:
            script = "\n".join(script.strip().split("\n")[:p.line + 1] + ([] if p.line >= len(script.strip().split("\n")) - 1 else [])) + "\n"
        if getattr(p, "twin_script", None):
            script = hs[j.name] + "# --- the same samples, fewer calls:\n" + p.twin_script
        ctx.violation("%s-block-%s-%s" % (prop.lower(), j.codec.name(), p.cat),
                      "# %s violated on the implementation's own transcript (block-codec campaign, %s)\n# %s, %d channel(s), %d frames\n# %s\n--- script\n%s"
                      % (prop, p.cat, j.codec.name(), j.ch, j.n, p.text, script))
    corr = [p for p in probs if p.kind == "corr"]
    if corr and not found:
        p = corr[0]
        j = p.job
        sl = hs[j.name].strip().split("\n")
        ctx.violation("%s-block-correspondence-%s" % (prop.lower(), j.codec.name()),
                      "# correspondence stream 'block codec models (Sf.Block / Paf24 / Sds / Dpcm / Oki) vs implementation' no longer agrees: %d differences in %d jobs\n"
                      "# first: %s (%s), script line %d: %s\n# %s\n# implementation: %s\n# model: %s\n"
                      "# the %s predicates on the implementation's transcripts found no failing input\n--- script\n%s"
                      % (len(corr), stats["jobs"], j.name, p.cat, p.line or 0, sl[p.line or 0][:100], p.text[:400], (p.impl or "")[:300], (p.model or "")[:300], prop,
                         "\n".join(sl[:(p.line or 0) + 1]) + "\n"), no_input=True)
        found = True
    ctx.sample({"kind": "block-codec job (%s)" % prop, "jobs": stats["jobs"], "example": jobs_example(hs)})
    ctx.coverage["rule"] = (ctx.coverage.get("rule", "") + " | block: PAF24 BE/LE x channels 1..16, SDS 8/16/24, XI DPCM 8/16, RAW VOX: lengths {0,1,2,B-1,B,B+1,2B-1,2B,2B+1,3B+1,7B-1,12B+3,100B,100B+1} "
                            "and random up to 5000 (quick) / 20000 frames, cut into calls of mixed caller types and item/frame variants; file bytes, return values, re-open frame "
                            "count and seek/read histories compared with the Lean block models (sampled, not exhaustive)")
    return found


def jobs_example(hs):
    for n, t in hs.items():
        if len(t) < 700:
            return t
    return next(iter(hs.values()))[:700]
