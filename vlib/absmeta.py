"""The Lean predicates of C12 and C13 as the deciding oracle.

`Sf.AbsMeta.judge` / `Sf.AbsMeta.Chunks.judge` (lean/SfModel/AbsMeta.lean) — the clauses of the two statements as Boolean
checkers over one record of the metadata campaign (vlib/props/c12.py) resp. the custom-chunk campaign (vlib/props/c13.py) —
are evaluated by the compiled driver (`sfmodel abs-meta`, `sfmodel abs-meta chunks`, lean/Driver/AbsMeta.lean) on the
implementation's own transcripts.  This module builds the driver input (main run, TWIN run without the refused / late /
unsupported calls, PERMUTED run), runs the driver, lets the Lean verdict DECIDE, keeps the Python predicates (vlib/meta.py
`judge`, vlib/props/c13.py `predicate`) as cross-checks that may only ADD a finding, and keeps the books for the evidence
blocks `abs_meta_predicate` / `abs_chunk_predicate`.
"""
import concurrent.futures, re, subprocess, time
from . import meta as M
from . import chunks as C

DEAD = ("CRASH", "ABORT", "TIMEOUT")

CLAUSE_OF = {
    "crash": "the script died (sanitizer abort / crash / hang) or its transcript ends early",
    "open-write": "C12: the write handle opens",
    "write": "C12: the audio write accepts what it was asked to",
    "close": "C12: sf_close returns 0",
    "reopen-null": "C12: the closed file re-opens",
    "audio": "C12: the audio data is not altered (frame count and samples read back)",
    "refused-valid": "C12: a valid item set before the audio on a container that stores the kind is accepted",
    "str": "C12: a text string is returned unchanged by sf_get_string after close and re-open (software: library suffix)",
    "bext-missing": "C12: broadcast info set before the audio comes back", "bext-differs": "C12: broadcast info = normBext (set)",
    "cart-missing": "C12: cart info set before the audio comes back", "cart-differs": "C12: cart info = normCart (set)",
    "cues-missing": "C12: cue points set before the audio come back", "cues-differ": "C12: cue points = normCues (set), count and fields",
    "cue-names-empty": "C12: cue point names come back", "cue-names-differ": "C12: cue point names come back unchanged",
    "inst-missing": "C12: instrument set before the audio comes back", "inst": "C12: instrument = normInst (set)",
    "chmap": "C12: the channel map comes back unchanged",
    "absent": "C12: a getter of a kind that was never set answers 'absent'",
    "twin": "C12: an item that is refused or must be ignored (late, unsupported kind) never alters the audio data or other metadata: the run without it returns the same",
    "order": "C12: forall orders of setting the items: the same SET calls before the audio in another order give the same answers",
    # C13
    "set": "C13: sf_set_chunk before the audio returns 0 for every id it need not refuse; a refusal is a non-zero return",
    "reopen": "C13: the closed file re-opens", "frames": "C13: the frame count is what was written",
    "iter-end": "C13: an iteration ends (next after last is NULL)", "count": "C13: iteration visits every stored chunk exactly once",
    "ids": "C13: chunks are stored in order, found under their id", "size": "C13: identical size, padded to the container's alignment",
    "data": "C13: identical payload bytes; sf_get_chunk_data copies at most the caller's datalen bytes",
    "ret": "C13: get_chunk_size / get_chunk_data return 0", "own-last": "C13: by-id iteration finds the last entry of the table",
    "strings": "C13: other metadata is not disturbed",
    "all-last": "C13: a full iteration visits every chunk of the file once, the container's audio chunk (the last table entry) included",
    "step-iter": "C13: sf_get_chunk_iterator finds a chunk iff the complete iteration visits one",
    "step-next": "C13: sf_next_chunk_iterator walks the listing and returns NULL after the last",
    "step-data": "C13: the chunk at the iterator is the one the complete iteration visited there; min (datalen, size) bytes copied",
}

NEW_PREFIXES = ("absent-", "twin-", "order-", "step-", "all-")      # clauses the Python predicates do not have


def clause_text(tag):
    for k in (tag, tag.split("-")[0], "-".join(tag.split("-")[:2])):
        if k in CLAUSE_OF:
            return CLAUSE_OF[k]
    return tag


class Verdict:
    def __init__(self, status, fails=(), info="", classes=()):
        self.status, self.fails, self.info, self.classes = status, list(fails), info, set(classes)     # fails: [(tag, run)]

    @property
    def ok(self):
        return self.status == "ok"

    def tags(self, run=None):
        return [t for (t, r) in self.fails if run is None or r == run]

    def __repr__(self):
        return "Verdict(%s %r %s)" % (self.status, self.fails[:4], self.info)


_LINE = re.compile(r"^(\S+) (ok|bad) ?(.*)$")


def parse_verdicts(stdout):
    res = {}
    for line in stdout.split("\n"):
        m = _LINE.match(line)
        if not m:
            continue
        name, st, rest = m.groups()
        mc = re.match(r"classes=(\S+) ?(.*)$", rest)
        classes = ()
        if mc:
            classes = () if mc.group(1) == "-" else tuple(mc.group(1).split(","))
            rest = mc.group(2)
        if st == "ok":
            res[name] = Verdict("ok", info=rest, classes=classes)
        else:
            fails = []
            for part in rest.split("; "):
                mk = re.match(r"tag=(\S+) run=(\d+)", part)
                if mk:
                    fails.append((mk.group(1), int(mk.group(2))))
            res[name] = Verdict("bad", fails, classes=classes)
    return res


def run_driver(exe, args, texts, workers=3):
    """texts: [(name, text)] -> {name: Verdict}"""
    order = sorted(texts, key=lambda it: -len(it[1]))
    chunks = [[] for _ in range(max(1, min(workers, len(order))))]
    sizes = [0] * len(chunks)
    for it in order:
        j = sizes.index(min(sizes))
        chunks[j].append(it)
        sizes[j] += len(it[1])

    def one(chunk):
        if not chunk:
            return {}
        p = subprocess.run([exe] + args, input="".join(t for (_, t) in chunk), capture_output=True, text=True, timeout=1800)
        if p.returncode != 0:
            raise RuntimeError("sfmodel %s failed: %s" % (" ".join(args), p.stderr[-2000:]))
        return parse_verdicts(p.stdout)

    out = {}
    with concurrent.futures.ThreadPoolExecutor(max_workers=len(chunks)) as ex:
        for r in ex.map(one, chunks):
            out.update(r)
    return out


def ops_of(script):
    return [l for l in script.split("\n") if l.strip() and not l.startswith("#")]


def clean_lines(lines):
    lines = list(lines)
    while lines and lines[-1] == "":
        lines.pop()
    return lines


# =====================================================================================================================
# C12
# =====================================================================================================================

KIND_OF_CMD = {M.SFC_SET_BROADCAST_INFO: "bext", M.SFC_SET_CART_INFO: "cart", M.SFC_SET_INSTRUMENT: "inst", M.SFC_SET_CHANNEL_MAP_INFO: "chmap"}
KIND_SUPPORT = {"bext": M.BEXT_SUPPORT, "cart": M.CART_SUPPORT, "cues": M.CUE_SUPPORT, "inst": M.INST_SUPPORT, "chmap": M.CHMAP_SUPPORT}


def geom_of_script(script, package):
    m = re.search(r"open h0 \S+ \S+ fmt=([0-9a-f]+) ch=(\d+) sr=(\d+)", script)
    fmt, ch, sr = (int(m.group(1), 16), int(m.group(2)), int(m.group(3))) if m else (0, 1, 0)
    return "geom fmt=%x ch=%d sr=%d pkg=%s" % (fmt, ch, sr, package.encode("latin1").hex())


def set_key(op):
    """the item a SET line of the write handle sets: ('str', type) | 'bext' | … ; None for other lines"""
    t = op.split()
    if len(t) < 2 or t[1] != "h0":
        return None
    if t[0] == "setstr":
        return ("str", t[2])
    if t[0] == "setcues":
        return "cues"
    if t[0] == "cmd":
        try:
            return KIND_OF_CMD.get(int(t[2], 16))
        except ValueError:
            return None
    return None


def twin_script(script, lines):
    """the script without the calls that were refused, came after the audio, or are of a kind the container has no place for
    (strings of a type without a field stay).  None when nothing is left out."""
    ops = ops_of(script)
    m = re.search(r"fmt=([0-9a-f]+)", script)
    cont = M.cont_of(int(m.group(1), 16)) if m else "other"
    late, keep, dropped = False, [], 0
    for k, op in enumerate(ops):
        key = set_key(op)
        t = op.split()
        if t[0] == "w" and t[1] == "h0":
            late = True
        if key is None:
            keep.append(op)
            continue
        l = lines[k] if k < len(lines) else ""
        ok = l.startswith("ret=0 ") if isinstance(key, tuple) else l.startswith("ret=1 ")
        unsup = (not isinstance(key, tuple)) and cont not in KIND_SUPPORT[key]
        if not ok or late or unsup:
            dropped += 1
        else:
            keep.append(op)
    return ("\n".join(keep) + "\n") if dropped else None


def perm_script(script, rng):
    """the script with the SET lines before the audio in another order (the calls of one item keep their relative order).
    None when there is nothing to permute or the string table could overflow (more than 32 sf_set_string calls)."""
    ops = ops_of(script)
    idx = []
    for k, op in enumerate(ops):
        t = op.split()
        if t[0] == "w" and t[1] == "h0":
            break
        if set_key(op) is not None:
            idx.append(k)
    if len(idx) < 2 or sum(1 for op in ops if op.startswith("setstr h0")) > 32:
        return None
    keys = [set_key(ops[k]) for k in idx]
    if len(set(keys)) < 2:
        return None
    order = list(range(len(idx)))
    for _ in range(8):
        rng.shuffle(order)
        if order != sorted(order):
            break
    else:
        order.reverse()
    # the slots of each key, in the shuffled sequence, are filled with that key's calls in their original order
    shuffled_keys = [keys[j] for j in order]
    queues = {}
    for j, k in enumerate(idx):
        queues.setdefault(keys[j], []).append(ops[k])
    new = [queues[key].pop(0) for key in shuffled_keys]
    if new == [ops[k] for k in idx]:
        return None
    out = list(ops)
    for j, k in enumerate(idx):
        out[k] = new[j]
    return "\n".join(out) + "\n"


def _pairs(script, lines):
    sl = ops_of(script)
    L = []
    for k, op in enumerate(sl):
        L.append(op.strip())
        if k < len(lines):
            L.append(lines[k].strip() or "-")
        else:
            L.append("TIMEOUT transcript-ends-here")
            break
    return L, len(sl)


def record_text(name, geom, runs):
    """driver input of one C12 record; runs: [("main"|"twin"|"perm", script, transcript lines)]"""
    L = ["== " + name, geom]
    n = 0
    for (which, script, lines) in runs:
        if not script:
            continue
        L.append("run " + which)
        p, k = _pairs(script, clean_lines(lines))
        L += p
        n += k
    return "\n".join(L) + "\n", n


def _stats(ctx, key, oracle):
    return ctx.notes.setdefault(key, {
        "oracle": oracle, "records_judged": 0, "script_lines_judged": 0, "twin_runs": 0, "permuted_runs": 0,
        "records_with_a_failing_clause": 0, "clause_tag_histogram": {}, "python_only_findings": 0, "lean_only_new_clauses": 0,
        "lean_python_disagreements": 0, "class_disagreements": 0, "disagreement_examples": [], "wall_s": 0.0, "input_bytes": 0})


def describe(tag, run):
    where = {1: "", 2: " (twin run: the script without the refused / late / unsupported calls)", 3: " (permuted run)"}.get(run, "")
    return "Lean predicate Sf.AbsMeta.judge: clause `%s` fails%s [%s]" % (tag, where, clause_text(tag))


def judge_c12(ctx, items, package):
    """items: [(name, script, lines, twin (script, lines) | None, perm (script, lines) | None)] -> {name: Verdict}"""
    st = _stats(ctx, "abs_meta_predicate", "Sf.AbsMeta.judge (lean/SfModel/AbsMeta.lean) evaluated by `sfmodel abs-meta`")
    t0 = time.time()
    texts = []
    for (name, script, lines, twin, perm) in items:
        runs = [("main", script, lines)]
        if twin:
            runs.append(("twin", twin[0], twin[1]))
            st["twin_runs"] += 1
        if perm:
            runs.append(("perm", perm[0], perm[1]))
            st["permuted_runs"] += 1
        text, n = record_text(name, geom_of_script(script, package), runs)
        texts.append((name, text))
        st["script_lines_judged"] += n
        st["input_bytes"] += len(text)
    out = run_driver(ctx.sfmodel(), ["abs-meta"], texts)
    for (name, *_rest) in items:
        if name not in out:
            raise RuntimeError("sfmodel abs-meta printed no verdict for record %s" % name)
        st["records_judged"] += 1
        if not out[name].ok:
            st["records_with_a_failing_clause"] += 1
            for (t, r) in out[name].fails:
                st["clause_tag_histogram"][t] = st["clause_tag_histogram"].get(t, 0) + 1
    st["wall_s"] = round(st["wall_s"] + time.time() - t0, 3)
    return out


def is_new(tag):
    return tag.startswith(NEW_PREFIXES)


def combine_c12(ctx, name, v, pyF, pyclasses):
    """the LEAN verdict decides; what only the Python predicate found is added (`python predicate only`); every difference in the
    failing signatures (on the clauses both have) or in the classes is counted.  -> (failures [(sig, text)], classes)"""
    st = ctx.notes["abs_meta_predicate"]
    ltags = [t for (t, r) in v.fails]
    lold = {t for t in ltags if not is_new(t)}
    pold = {k for (k, _) in pyF}
    pyclasses = set(pyclasses) - {"late-replace"}
    if lold != pold:
        st["lean_python_disagreements"] += 1
        if len(st["disagreement_examples"]) < 6:
            st["disagreement_examples"].append({"record": name, "lean": sorted(ltags), "python": sorted(pold)})
    if set(v.classes) != pyclasses:
        st["class_disagreements"] += 1
        if len(st["disagreement_examples"]) < 6:
            st["disagreement_examples"].append({"record": name, "lean_classes": sorted(v.classes), "python_classes": sorted(pyclasses)})
    pytext = dict(pyF)
    F = []
    for (t, r) in v.fails:
        if is_new(t):
            st["lean_only_new_clauses"] += 1
        F.append((t, describe(t, r) + (": " + pytext[t] if t in pytext else "")))
    for (k, text) in pyF:
        if k not in lold:
            st["python_only_findings"] += 1
            F.append((k, "python predicate only: " + text))
    return F, set(v.classes)


def judge_one_c12(ctx, script, lines, package, twin=None, perm=None):
    return judge_c12(ctx, [("one", script, lines, twin, perm)], package)["one"]


# =====================================================================================================================
# C13
# =====================================================================================================================

STRINGS_OF_META = {1: b"a title", 4: b"An Artist"}


def chunk_geom(cont, meta):
    s = "geom cont=%s" % cont
    own = meta.get("own") or {}
    if own:
        s += " own=" + ",".join("%s:%d" % (i.hex(), n) for i, n in own.items())
    if meta.get("strings"):
        s += " strings=" + ",".join("%d:%s" % (t, v.hex()) for t, v in STRINGS_OF_META.items())
    return s


def chunk_twin_script(script):
    """the same script without any sf_set_chunk and without the chunk queries: what the audio and the strings read as without chunks"""
    keep = [op for op in ops_of(script) if op.split()[0] not in C.CHUNK_OPS]
    return "\n".join(keep) + "\n"


def canon_write(op, cont):
    """an audio write call of a C13 script (mono, 16-bit file, normalisation off) as the `w hN s16 i n <hex>` line the Lean driver reads:
    whatever entry point the script used (typed x 4, items / frames, raw), the 16-bit items handed to the file are the same"""
    import struct
    try:
        if op[0] == "wraw":
            data = bytes.fromhex(op[3]) if len(op) > 3 else b""
            big = cont in ("aiff", "caf", "rifx")
            vals = [struct.unpack(">H" if big else "<H", data[i:i + 2])[0] for i in range(0, len(data) - 1, 2)]
            return ["w", op[1], "s16", "i", str(len(vals)), "".join("%04x" % v for v in vals)]
        if op[0] == "w" and op[2] != "s16":
            ty, hx = op[2], (op[5] if len(op) > 5 else "")
            d = {"s32": 8, "f32": 8, "f64": 16}[ty]
            items = [hx[i:i + d] for i in range(0, len(hx), d)]
            if ty == "s32":
                vals = [int(x, 16) >> 16 for x in items]
            elif ty == "f32":
                vals = [int(struct.unpack(">f", bytes.fromhex(x))[0]) & 0xffff for x in items]
            else:
                vals = [int(struct.unpack(">d", bytes.fromhex(x))[0]) & 0xffff for x in items]
            return ["w", op[1], "s16", "i", str(len(vals)), "".join("%04x" % v for v in vals)]
    except (ValueError, KeyError, struct.error, OverflowError):
        pass
    return op


def chunk_record_text(name, cont, meta, script, lines, twin=None):
    L = ["== " + name, chunk_geom(cont, meta)]
    n = 0
    for which, sc, ls in (("main", script, lines),) + ((("twin", twin[0], twin[1]),) if twin else ()):
        L.append("run " + which)
        ls = clean_lines(ls)
        for op, got in C.split_ops(sc, ls):
            if op[0] == "<trailing>":
                continue
            if op[0] in ("w", "wraw"):
                op = canon_write(list(op), cont)
                if op[0] == "w" and got and op[2] == "s16":
                    # a raw call answers in bytes, a typed one in its own unit: the Lean record counts 16-bit items of a mono file
                    got = [re.sub(r"^ret=(\d+)", lambda m, o=op: "ret=%s" % (o[4] if int(m.group(1)) in (int(o[4]), 2 * int(o[4])) else m.group(1)), g) for g in got]
            L.append(" ".join(op))
            if not got:
                L.append("TIMEOUT transcript-ends-here")
                break
            L += [g.strip() or "-" for g in got]
            n += 1
            if any(g.startswith(DEAD) for g in got):
                break
    return "\n".join(L) + "\n", n


def describe_c13(tag, run):
    return "Lean predicate Sf.AbsMeta.Chunks.judge: clause `%s` fails%s [%s]" % (tag, " (twin run without chunks)" if run == 2 else "", clause_text(tag))


def judge_c13(ctx, items):
    """items: [(name, cont, meta, script, lines, twin (script, lines) | None)] -> {name: Verdict}"""
    st = _stats(ctx, "abs_chunk_predicate", "Sf.AbsMeta.Chunks.judge (lean/SfModel/AbsMeta.lean) evaluated by `sfmodel abs-meta chunks`")
    t0 = time.time()
    texts = []
    for (name, cont, meta, script, lines, twin) in items:
        text, n = chunk_record_text(name, cont, meta, script, lines, twin)
        texts.append((name, text))
        st["script_lines_judged"] += n
        st["input_bytes"] += len(text)
        if twin:
            st["twin_runs"] += 1
    out = run_driver(ctx.sfmodel(), ["abs-meta", "chunks"], texts)
    for (name, *_r) in items:
        if name not in out:
            raise RuntimeError("sfmodel abs-meta chunks printed no verdict for record %s" % name)
        st["records_judged"] += 1
        if not out[name].ok:
            st["records_with_a_failing_clause"] += 1
            for (t, r) in out[name].fails:
                st["clause_tag_histogram"][t] = st["clause_tag_histogram"].get(t, 0) + 1
    st["wall_s"] = round(st["wall_s"] + time.time() - t0, 3)
    return out


def combine_c13(ctx, name, v, py_why, crashed=False):
    """Lean decides; Python may only add.  Returns the reason (None = the property holds on this transcript)."""
    st = ctx.notes["abs_chunk_predicate"]
    if v is None:
        return py_why
    old = [(t, r) for (t, r) in v.fails if not is_new(t)]
    if (not crashed) and bool(old) != bool(py_why):
        st["lean_python_disagreements"] += 1
        if len(st["disagreement_examples"]) < 6:
            st["disagreement_examples"].append({"record": name, "lean": [t for (t, r) in v.fails], "python": py_why})
    if v.fails:
        st["lean_only_new_clauses"] += sum(1 for (t, r) in v.fails if is_new(t))
        return "; ".join(describe_c13(t, r) for (t, r) in v.fails[:4]) + (" | " + py_why if py_why else "")
    if py_why:
        st["python_only_findings"] += 1
        return "python predicate only: " + py_why
    return None


def is_chunk_replay(path):
    try:
        with open(path) as f:
            return any(l.startswith("abs-chunk geom ") for l in f)
    except OSError:
        return False


def replay_c13(ctx, path):
    """re-runs the script of a C13 replay file (and its twin without chunks) on the tree under test and re-judges the record with
    `sfmodel abs-meta chunks`"""
    text = open(path).read()
    geom = next(l[len("abs-chunk "):].strip() for l in text.split("\n") if l.startswith("abs-chunk geom "))
    kv = dict(t.split("=", 1) for t in geom.split()[1:] if "=" in t)
    meta = {}
    if kv.get("own"):
        meta["own"] = {bytes.fromhex(a): int(b) for a, b in (x.split(":") for x in kv["own"].split(","))}
    if kv.get("strings"):
        meta["strings"] = True
    script = text.split("--- script", 1)[1].lstrip("\n")
    ctx.sfh()
    lines, rc, err = ctx.script(script)
    if rc != 0:
        lines = list(lines) + ["ABORT status=%d" % rc]
    tw = chunk_twin_script(script)
    tl = ctx.script(tw)[0]
    for op, got in C.split_ops(script, clean_lines(lines)):
        print("%-50s -> %s" % (" ".join(op)[:50], " | ".join(g[:110] for g in got[:6]) + (" …" if len(got) > 6 else "")))
    v = judge_c13(ctx, [("replay", kv.get("cont", "wav"), meta, script, lines, (tw, tl))])["replay"]
    if rc != 0:
        print(err[-1500:])
    if v.ok:
        print("sfmodel abs-meta chunks: ok %s" % v.info)
        print("replay: the record is accepted by the C13 clauses (no violation on this tree)")
    else:
        for (t, r) in v.fails:
            print("FAILS " + describe_c13(t, r))
        ctx.report(path)
