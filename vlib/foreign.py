"""C14, stream F: FOREIGN but valid files -- layouts the library's readers accept and its own writers never produce -- through every
route.  The public campaign (stream B of vlib/props/c14.py) reads only what the library wrote itself: header 24 bytes in AU, `fmt `
then `data` in WAV, SSND offset 0 in AIFF ...; every "get to the audio data" step of a parser (skip the rest of a chunk, skip an
annotation, honour an offset field, walk over chunks it does not know) then moves by ZERO bytes or by a seek that every route
implements alike.  The routes differ exactly where a parser has to move: psf_fseek on a pipe does nothing, psf_binheader_readf "j"
reads forward (lean/SfProps/C14Skip.lean), an embedded file adds its offset, SEEK_END sees the bytes behind an embedded file.

One transformation at a time is applied to a library-written base file (an independent chunk walker / rebuilder in this file):
  AU     annotation field of 4 / 40 / 1000 / 20000 bytes (data offset 28 ... 20024), with and without the size field 0xffffffff
  WAV    unknown chunk (even / odd size) between `fmt ` and `data`; LIST chunk behind `data`; `fmt ` chunk of 18 bytes (cbSize 0); both at once
  AIFF   SSND offset k (k bytes of junk in front of the samples); ANNO chunk in front of SSND; COMM BEHIND SSND
  CAF    `free` chunk in front of `data`;   W64  an unknown GUID chunk in front of `data`;   SVX  ANNO chunk in front of BODY
  RF64   JUNK chunk between `fmt ` and `data`;   VOC  an ASCII text block (20 / 300 bytes) or a repeat block in front of the sound block;
  NIST   a header of 2048 bytes
A transformed file counts only if the reference route (virtual I/O) accepts it AND delivers the frame count and the samples of the
base file -- so the transformation itself is validated by the library, not trusted.  Then: path, fd (close_desc 0 / 1), embedded at
37 with junk behind (whitelisted containers), and for WAV / AIFF / AU with sample-granular encodings the non-seekable pipe (whole,
and 4096 bytes at a time) against the sequential virtual-I/O reader.  All routes must give the same SF_INFO, samples, strings, errors.
"""
import collections, re

WAVLIKE = {0x01, 0x13}
UNSTREAMABLE = {"comm-after-ssnd"}


def be32(v):
    return int(v).to_bytes(4, "big")


def le32(v):
    return int(v).to_bytes(4, "little")


# ---- chunk walkers -------------------------------------------------------------------------------------------------------------

def iff_parse(b, little):
    """RIFF / FORM: (form type, [(id, data)]) or None"""
    if len(b) < 12:
        return None
    out, p = [], 12
    while p + 8 <= len(b):
        cid = b[p:p + 4]
        sz = int.from_bytes(b[p + 4:p + 8], "little" if little else "big")
        if p + 8 + sz > len(b):
            sz = len(b) - p - 8
        out.append((cid, b[p + 8:p + 8 + sz]))
        p += 8 + sz + (sz & 1)
    return b[8:12], out


def iff_build(magic, form, chunks, little):
    body = b""
    for cid, d in chunks:
        body += cid + (le32(len(d)) if little else be32(len(d))) + d + (b"\0" if len(d) & 1 else b"")
    total = 4 + len(body)
    return magic + (le32(total) if little else be32(total)) + form + body


def junk(n, salt=0):
    return bytes((0x61 + (k * 7 + salt) % 26) for k in range(n))


# ---- transformations: bytes -> list of (tag, bytes) ---------------------------------------------------------------------------------

def au_variants(b):
    if b[:4] not in (b".snd", b"dns.") or len(b) < 24:
        return []
    bo = "big" if b[:4] == b".snd" else "little"
    w32 = lambda v: int(v).to_bytes(4, bo)
    off = int.from_bytes(b[4:8], bo)
    out = []
    for k in (4, 40, 1000, 20000):
        hdr = b[:4] + w32(off + k) + b[8:off]
        out.append(("annotation%d" % k, hdr + junk(k, k) + b[off:]))
    k = 64
    out.append(("annotation64-unknown-size", b[:4] + w32(off + k) + w32(0xFFFFFFFF) + b[12:off] + junk(k) + b[off:]))
    return out


def wav_variants(b):
    if b[:4] not in (b"RIFF", b"RIFX") or b[8:12] != b"WAVE":
        return []
    little = b[:4] == b"RIFF"
    form, ch = iff_parse(b, little)
    ids = [c[0] for c in ch]
    if b"data" not in ids or b"fmt " not in ids:
        return []
    di = ids.index(b"data")
    out = []
    for n in (10, 33, 5000):
        out.append(("junk%d-before-data" % n, iff_build(b[:4], form, ch[:di] + [(b"xtra", junk(n))] + ch[di:], little)))
    lst = b"INFO" + b"ICMT" + (le32(6) if little else be32(6)) + b"after\0"
    out.append(("list-after-data", iff_build(b[:4], form, ch + [(b"LIST", lst)], little)))
    fi = ids.index(b"fmt ")
    if len(ch[fi][1]) == 16:
        ch2 = list(ch)
        ch2[fi] = (b"fmt ", ch[fi][1] + b"\0\0")
        out.append(("fmt18", iff_build(b[:4], form, ch2, little)))
        out.append(("fmt18+junk33", iff_build(b[:4], form, ch2[:di] + [(b"xtra", junk(33))] + ch2[di:], little)))
    return out


def aiff_variants(b):
    if b[:4] != b"FORM" or b[8:12] not in (b"AIFF", b"AIFC"):
        return []
    form, ch = iff_parse(b, False)
    ids = [c[0] for c in ch]
    if b"SSND" not in ids or b"COMM" not in ids:
        return []
    si, ci = ids.index(b"SSND"), ids.index(b"COMM")
    out = []
    ss = ch[si][1]
    for k in (2, 10, 300):
        ch2 = list(ch)
        ch2[si] = (b"SSND", be32(k) + ss[4:8] + junk(k) + ss[8:])
        out.append(("ssnd-offset%d" % k, iff_build(b"FORM", form, ch2, False)))
    out.append(("anno-before-ssnd", iff_build(b"FORM", form, ch[:si] + [(b"ANNO", junk(41))] + ch[si:], False)))
    if ci < si:
        ch3 = [c for k, c in enumerate(ch) if k != ci]
        si3 = [c[0] for c in ch3].index(b"SSND")
        out.append(("comm-after-ssnd", iff_build(b"FORM", form, ch3[:si3 + 1] + [ch[ci]] + ch3[si3 + 1:], False)))
    return out


def svx_variants(b):
    if b[:4] != b"FORM" or b[8:12] not in (b"8SVX", b"16SV"):
        return []
    form, ch = iff_parse(b, False)
    ids = [c[0] for c in ch]
    if b"BODY" not in ids:
        return []
    bi = ids.index(b"BODY")
    # even sizes: svx_read_header steps over ANNO / AUTH / (c) with the chunk size alone, without the IFF pad byte, so a chunk of odd
    # size in front of BODY is refused on every route alike (seen with 25 bytes: "Unknown chunk marker … Resynching", SFE 105) -- not a
    # matter of routes; the library's own ANNO chunk is 34 bytes
    return [("anno-before-body", iff_build(b"FORM", form, ch[:bi] + [(b"ANNO", junk(26))] + ch[bi:], False)),
            ("auth+anno-before-body", iff_build(b"FORM", form, ch[:bi] + [(b"AUTH", junk(6)), (b"ANNO", junk(1002))] + ch[bi:], False))]


def caf_variants(b):
    if b[:4] != b"caff":
        return []
    p, pos = 8, None
    while p + 12 <= len(b):
        cid = b[p:p + 4]
        sz = int.from_bytes(b[p + 4:p + 12], "big")
        if cid == b"data":
            pos = p
            break
        p += 12 + sz
    if pos is None:
        return []
    out = []
    for n in (8, 333):
        out.append(("free%d-before-data" % n, b[:pos] + b"free" + int(n).to_bytes(8, "big") + bytes(n) + b[pos:]))
    return out


W64_DATA = bytes.fromhex("64617461f3acd3118cd100c04f8edb8a")
W64_JUNK = bytes.fromhex("6a756e6bf3acd3118cd100c04f8edb8a")


def w64_variants(b):
    if len(b) < 40 or b[:4] != b"riff":
        return []
    p, pos = 40, None
    while p + 24 <= len(b):
        sz = int.from_bytes(b[p + 16:p + 24], "little")
        if b[p:p + 16] == W64_DATA:
            pos = p
            break
        if sz < 24:
            return []
        p += (sz + 7) // 8 * 8
    if pos is None:
        return []
    out = []
    for n in (8, 21):
        chunk = W64_JUNK + int(24 + n).to_bytes(8, "little") + junk(n) + bytes((8 - (24 + n) % 8) % 8)
        nb = b[:pos] + chunk + b[pos:]
        nb = nb[:16] + int(len(nb)).to_bytes(8, "little") + nb[24:]
        out.append(("junk%d-before-data" % n, nb))
    return out


def rf64_variants(b):
    if b[:4] != b"RF64" or b[8:12] != b"WAVE" or b[12:16] != b"ds64":
        return []
    form, ch = iff_parse(b, True)
    ids = [c[0] for c in ch]
    if b"data" not in ids:
        return []
    di = ids.index(b"data")
    n = 20
    ch2 = ch[:di] + [(b"JUNK", bytes(n))] + ch[di:]
    nb = iff_build(b"RF64", form, ch2, True)
    nb = nb[:4] + b"\xff\xff\xff\xff" + nb[8:]
    # ds64: riff size (8), data size (8), sample count (8), table length (4)
    ds = ch[0][1]
    riff = int.from_bytes(ds[0:8], "little") + 8 + n
    nb = nb[:20] + int(riff).to_bytes(8, "little") + nb[28:]
    return [("junk-before-data", nb)]


def voc_variants(b):
    if b[:19] != b"Creative Voice File" or len(b) < 27:
        return []
    first = int.from_bytes(b[20:22], "little")
    out = []
    for n in (20, 300):            # a text block the reader copies (< 255 bytes) / steps over with "j" (larger)
        blk = b"\x05" + int(n).to_bytes(3, "little") + junk(n - 1) + b"\0"
        out.append(("text%d-before-sound" % n, b[:first] + blk + b[first:]))
    out.append(("repeat-before-sound", b[:first] + b"\x06" + (2).to_bytes(3, "little") + b"\x01\x00" + b[first:]))
    return out


def nist_variants(b):
    if b[:8] != b"NIST_1A\n" or len(b) < 1024 or b[8:16] != b"   1024\n":
        return []
    return [("header2048", b[:8] + b"   2048\n" + b[16:1024] + b" " * 1024 + b[1024:])]


def id3_prefix(n):
    """an ID3v2.3 tag of 10 + n bytes (size field syncsafe, padding only)"""
    return b"ID3\x03\x00\x00" + bytes([(n >> 21) & 0x7F, (n >> 14) & 0x7F, (n >> 7) & 0x7F, n & 0x7F]) + bytes(n)


def id3_variants(b):
    """the file behind an ID3v2 tag (guess_file_type: id3_skip moves psf->fileoffset behind the tag and looks again) -- any container"""
    return [("id3v2-tag%d" % n, id3_prefix(n) + b) for n in (1, 50, 3000)]


VARIANTS = {0x08: voc_variants, 0x07: nist_variants, 0x03: au_variants, 0x01: wav_variants, 0x13: wav_variants, 0x02: aiff_variants, 0x06: svx_variants, 0x18: caf_variants,
            0x0B: w64_variants, 0x22: rf64_variants}


def run(ctx, consts, jobs):
    """jobs: the dicts of c14.stream_public (f, ch, frames, filehex, name).  Returns True when a failing input was reported."""
    from .props import c14 as C
    rng = ctx.rng
    quick = ctx.tier == "quick"
    stats = collections.Counter()
    cases = []
    by_major = collections.defaultdict(list)
    for j in jobs:
        if j.get("filehex") and j["f"].major in VARIANTS and j["f"].codec not in (0x70, 0x71, 0x72, 0x73):
            by_major[j["f"].major].append(j)
    for mj, lst in sorted(by_major.items()):
        gran = [j for j in lst if j["f"].granular]
        rest = [j for j in lst if not j["f"].granular]
        pick = (rng.sample(gran, min(len(gran), 3 if quick else 12)) + rng.sample(rest, min(len(rest), 1 if quick else 6)))
        for j in pick:
            for tag, nb in VARIANTS[mj](bytes.fromhex(j["filehex"])):
                cases.append(dict(j=j, tag=tag, hex=nb.hex(), name="%s+%s" % (j["name"], tag)))
        # the ID3v2 prefix: deterministic -- the first sample-granular job of the container (by name), every run
        for j in sorted(gran, key=lambda j: j["name"])[:1]:
            for tag, nb in id3_variants(bytes.fromhex(j["filehex"])):
                cases.append(dict(j=j, tag=tag, hex=nb.hex(), name="%s+%s" % (j["name"], tag), anyref=True))
    from . import bigskip                    # deterministic slice: skips that do not fit the header cache (sizes around 100 KiB, 16 KiB multiples +- 1)
    big = bigskip.cases(jobs, quick)
    cases += big
    stats["bigskip_cases"] = len(big)
    scripts = []
    for n, c in enumerate(cases):
        j = c["j"]
        f = j["f"]
        scripts.append(("b|%d" % n, C.read_script(f, j["ch"], j["frames"], j["filehex"], "vio")))
        # a stream that does not say how long it is ("unknown-size": AU data size 0xffffffff) has no defined end inside a larger file and no
        # defined frame count on a pipe (the library refuses the first and reports SF_COUNT_MAX-derived frames for the second, by design)
        open_ended = "unknown-size" in c["tag"]
        routes = ["vio", "path", "fd0", "fd1"] + (["fdemb:37:9", "fdemb:4096:100"] if f.major in C.WHITELIST and not open_ended else [])
        if c.get("bigskip"):
            routes = c["routes"]
        c["routes"] = routes
        for r in routes:
            scripts.append(("f|%d|%s" % (n, r), C.read_script(f, j["ch"], j["frames"], c["hex"], r)))
        want_pipes = c.get("pipes") if c.get("bigskip") else ["pipe", "pipe:4096"]
        c["pipes"] = []
        if f.major in C.PIPE_MAJORS and f.granular and not open_ended:
            c["pipes"] = want_pipes
            scripts.append(("f|%d|vioseq" % n, C.read_script(f, j["ch"], j["frames"], c["hex"], "path" if c.get("anyref") else "vio", seekable=False)))
            for r in c["pipes"]:
                scripts.append(("f|%d|%s" % (n, r), C.read_script(f, j["ch"], j["frames"], c["hex"], r, seekable=False)))
    res = ctx.batch(scripts, op_timeout=20, clean=True)
    sd = dict(scripts)
    found = False
    reported = collections.Counter()

    def report(major, name, text):
        """at most two VIOLATION lines per container (all are counted in the evidence)"""
        stats["failures"] += 1
        reported[major] += 1
        if reported[major] <= 2:
            ctx.violation(name, text)

    def rd(key, ch):
        return C.strip_route_noise(C.cut_reads(sd[key], res.get(key, []), ch)[1:])

    def samples(lines):
        return [l for l in lines if l.startswith("ret=") and "data=" in l]

    control_ok = {}
    for n, c in enumerate(cases):
        j = c["j"]
        f, ch = j["f"], j["ch"]
        base = rd("b|%d" % n, ch)
        ref = rd("f|%d|vio" % n, ch)
        stats["files"] += 1

        def accepts(r):
            return bool(r) and r[0].startswith("open=ok") and bool(base) and re.sub(r" sections=\d+", "", r[0]) == re.sub(r" sections=\d+", "", base[0]) and samples(r) == samples(base)
        ok = accepts(ref)
        if not ok and c.get("anyref") and "path" in c["routes"] and accepts(rd("f|%d|path" % n, ch)):
            # a layout for which NO route is privileged (the ID3v2 prefix): it counts as soon as one route reads the base file out of it;
            # the other routes -- virtual I/O included -- are then compared with that one
            ref = rd("f|%d|path" % n, ch)
            ok = True
            vio = rd("f|%d|vio" % n, ch)
            ctx.count(1, tag="foreign-vio")
            stats["route_comparisons"] += 1
            if vio != ref:
                k = next((i for i in range(min(len(vio), len(ref))) if vio[i] != ref[i]), min(len(vio), len(ref)))
                found = True
                report(f.major, "foreign-%s-vio" % c["name"],
                       "# C14 the same file bytes must give the same SF_INFO, samples, strings and errors on every route: %s (a valid file the library's own writer never produces: %s), route vio\n"
                       "# line %d differs from the path route (sf_open):\n#   path: %s\n#   vio : %s\n--- script\n%s"
                       % (j["name"], c["tag"], k + 2, (ref[k] if k < len(ref) else "(missing)")[:300], (vio[k] if k < len(vio) else "(missing)")[:300], sd["f|%d|vio" % n][:200000]))
        if c.get("bigskip"):
            if c.get("control"):
                control_ok[c["group"]] = ok
            elif not ok and control_ok.get(c["group"]):
                # the same transformation, only longer; the control validated it.  Whatever the reference route makes of this member (the
                # parsers refuse a header that fills the cache to the last byte -- on every route alike, not a matter of routes), the OTHER
                # routes must make the same of it: fall through to the comparisons
                stats["bigskip_members_not_read_by_the_reference_route"] += 1
                c["ref_refuses"] = bool(ref) and re.match(r"open=NULL err=[1-9]", ref[0]) is not None
                ok = True
        if not ok:
            stats["not_accepted_as_equivalent_by_the_reference_route"] += 1
            ctx.notes.setdefault("foreign_not_accepted", []).append("%s: %s" % (c["name"], (ref[0] if ref else "(nothing)")[:90]))
            continue
        stats["accepted"] += 1
        ctx.distinct.add("foreign:%s:%s" % (f.name.split("-")[0], re.sub(r"\d+", "", c["tag"])))
        for r in c["routes"][1:]:
            key = "f|%d|%s" % (n, r)
            gl = rd(key, ch)
            ctx.count(1, tag="foreign-%s" % r.split(":")[0])
            stats["route_comparisons"] += 1
            if gl != ref:
                k = next((i for i in range(min(len(gl), len(ref))) if gl[i] != ref[i]), min(len(gl), len(ref)))
                found = True
                report(f.major, "foreign-%s-%s" % (c["name"], r.replace(":", "_")),
                         "# C14 the same file bytes must give the same SF_INFO, samples, strings and errors on every route: %s (a valid file the library's own writer never produces: %s), route %s\n"
                         "# line %d differs from the virtual-I/O route:\n#   vio : %s\n#   here: %s\n--- script\n%s"
                         % (j["name"], c["tag"], r, k + 2, (ref[k] if k < len(ref) else "(missing)")[:300], (gl[k] if k < len(gl) else "(missing)")[:300], sd[key][:200000]))
        if c["pipes"]:
            a0 = [re.sub(r" seekable=\d", "", x) for x in rd("f|%d|vioseq" % n, ch)]
            for r in c["pipes"]:
                key = "f|%d|%s" % (n, r)
                b0 = [re.sub(r" seekable=\d", "", x) for x in rd(key, ch)]
                ctx.count(1, tag="foreign-pipe")
                stats["pipe_comparisons"] += 1
                if c.get("ref_refuses") and b0 and re.match(r"open=NULL err=[1-9]", b0[0]):
                    # both refuse at open (the pipe clause is about SAMPLES: neither route delivers any; the error number of a refusal on a
                    # one-pass stream is the parser's own and differs by design, as for the UNSTREAMABLE layouts)
                    stats["bigskip_refused_on_both"] += 1
                    continue
                if c["tag"] in UNSTREAMABLE and b0 and re.match(r"open=NULL err=[1-9]", b0[0]):
                    # the chunk that says how to decode the audio lies BEHIND the audio: a one-pass reader cannot deliver any sample;
                    # a clean refusal at open delivers no wrong one ("delivers the same samples" is not contradicted)
                    stats["pipe_refusals_of_unstreamable_layouts"] += 1
                    continue
                if a0 != b0:
                    k = next((i for i in range(min(len(a0), len(b0))) if a0[i] != b0[i]), min(len(a0), len(b0)))
                    found = True
                    report(f.major, "foreign-pipe-%s-%s" % (c["name"], r.replace(":", "_")),
                             "# C14 a non-seekable pipe must deliver the same samples (WAV/AIFF/AU, sample-granular): %s (a valid file the library's own writer never produces: %s), route %s\n"
                             "#   vio : %s\n#   pipe: %s\n--- script\n%s"
                             % (j["name"], c["tag"], r, (a0[k] if k < len(a0) else "(missing)")[:300], (b0[k] if k < len(b0) else "(missing)")[:300], sd[key][:200000]))
    ctx.notes["foreign_files"] = dict(stats)
    if cases:
        ctx.sample({"stream": "foreign files", "example": cases[0]["name"], "scripts": len(scripts)})
    return found
