"""C03 fuzz material: seed files for every writable (container, encoding), structure-aware mutations,
bounded random API scripts, and the predicate evaluated on an implementation transcript."""
import struct

# ---- command ids (include/sndfile.h) ----
SFC_GET_LOG_INFO = 0x1001
SFC_SET_ADD_PEAK_CHUNK = 0x1050
SFC_SET_BROADCAST_INFO, SFC_GET_BROADCAST_INFO = 0x10F1, 0x10F0
SFC_SET_CART_INFO, SFC_GET_CART_INFO = 0x1400, 0x1401
SFC_SET_CUE, SFC_GET_CUE, SFC_GET_CUE_COUNT = 0x10CF, 0x10CE, 0x10CD
SFC_SET_INSTRUMENT, SFC_GET_INSTRUMENT = 0x10D1, 0x10D0
SIZEOF_BEXT, SIZEOF_CART, SIZEOF_CUES, SIZEOF_INST = 864, 2308, 28004, 272

STR_TYPES = [1, 2, 3, 4, 5, 6, 7, 8, 9, 0x10]


def hx(b):
    return bytes(b).hex()


def bext_blob():
    b = bytearray(SIZEOF_BEXT)
    b[0:11] = b"description"
    b[256:266] = b"originator"
    b[288:297] = b"reference"
    b[320:330] = b"2001-09-09"
    b[330:338] = b"01:46:40"
    struct.pack_into("<IIh", b, 338, 12345, 0, 1)
    hist = b"A=PCM,F=8000,W=16\r\n"
    struct.pack_into("<I", b, 604, len(hist))
    b[608:608 + len(hist)] = hist
    return b


def cart_blob():
    b = bytearray(SIZEOF_CART)
    b[0:4] = b"0101"
    b[4:9] = b"title"
    b[68:74] = b"artist"
    tag = b"tag text here!!\n"
    struct.pack_into("<I", b, 2048, len(tag))
    b[2052:2052 + len(tag)] = tag
    return b


def cues_blob():
    b = bytearray(SIZEOF_CUES)
    struct.pack_into("<I", b, 0, 2)
    for k in range(2):
        off = 4 + 280 * k
        struct.pack_into("<iIiIII", b, off, k + 1, 3 + k, 0x61746164, 0, 0, 5 * k)
        b[off + 24:off + 28] = b"cue%d" % k
    return b


def inst_blob():
    b = bytearray(SIZEOF_INST)
    struct.pack_into("<i6b", b, 0, 1, 60, 0, 1, 127, 0, 127)
    struct.pack_into("<i", b, 12, 1)
    struct.pack_into("<iIII", b, 16, 801, 2, 10, 0)
    return b


def seed_script(fmt, ch, sr, nframes=96):
    lines = ["open h0 s0 w fmt=%08x ch=%d sr=%d" % (fmt, ch, sr)]
    for t in STR_TYPES:
        lines.append("setstr h0 %d %s" % (t, hx(b"str-%02x-value" % t)))
    lines.append("cmd h0 %x 1 null" % SFC_SET_ADD_PEAK_CHUNK)
    lines.append("cmd h0 %x %d %s" % (SFC_SET_BROADCAST_INFO, SIZEOF_BEXT, hx(bext_blob())))
    lines.append("cmd h0 %x %d %s" % (SFC_SET_CART_INFO, SIZEOF_CART, hx(cart_blob())))
    lines.append("cmd h0 %x %d %s" % (SFC_SET_CUE, SIZEOF_CUES, hx(cues_blob())))
    lines.append("cmd h0 %x %d %s" % (SFC_SET_INSTRUMENT, SIZEOF_INST, hx(inst_blob())))
    lines.append("setchunk h0 %s %s" % (hx(b"Cust"), hx(b"custom chunk payload 0123456789")))
    items = [((k * 2654435761) >> 7) & 0xFFFF for k in range(nframes * ch)]
    lines.append("w h0 s16 i %d %s" % (len(items), "".join("%04x" % v for v in items)))
    lines.append("close h0")
    lines.append("dump s0")
    return "\n".join(lines) + "\n"


# ---- chunk walkers for the IFF family (duplication / reordering) ----
def walk_chunks(data):
    """returns (header_len, [(start, end)]) for RIFF/RIFX/RF64/FORM/caff files, else None"""
    n = len(data)
    if n >= 12 and data[:4] in (b"RIFF", b"RIFX", b"RF64", b"FORM"):
        be = data[:4] in (b"RIFX", b"FORM")
        pos, out = 12, []
        while pos + 8 <= n and len(out) < 64:
            size = struct.unpack(">I" if be else "<I", data[pos + 4:pos + 8])[0]
            end = pos + 8 + size + (size & 1)
            if end > n:
                end = n
            out.append((pos, end))
            pos = end
        return 12, out
    if n >= 8 and data[:4] == b"caff":
        pos, out = 8, []
        while pos + 12 <= n and len(out) < 64:
            size = struct.unpack(">q", data[pos + 4:pos + 12])[0]
            end = pos + 12 + size if 0 <= size <= n else n
            if end > n:
                end = n
            out.append((pos, end))
            pos = end
        return 8, out
    return None


def _iff(tag, payload, be):
    return tag + struct.pack(">I" if be else "<I", len(payload)) + payload + (b"\0" if len(payload) & 1 else b"")


def foreign_chunks(be):
    """chunks that real-world files carry but the library's own writers never (or rarely) emit, so that mutated seeds reach the
    parser branches for them: AIFF INST/MARK/COMT/APPL/basc/NAME…, WAV cue/smpl/acid/LIST-adtl/DISP/PAD/exif/bext…"""
    e = ">" if be else "<"
    out = []
    if be:      # AIFF family
        out.append(_iff(b"INST", struct.pack(">bbbbbbhhhhhhh", 60, 0, 0, 127, 0, 127, 0, 1, 1, 2, 0, 0, 0), True))
        out.append(_iff(b"MARK", struct.pack(">H", 1) + struct.pack(">HI", 1, 0) + b"\x01a", True))
        out.append(_iff(b"MARK", struct.pack(">H", 3000) + struct.pack(">HI", 1, 0) + b"\x01a", True))
        out.append(_iff(b"MARK", struct.pack(">H", 2) + struct.pack(">HI", 1, 0) + b"\x05abcde" + struct.pack(">HI", 2, 3) + b"\x00\x00", True))
        out.append(_iff(b"COMT", struct.pack(">H", 1) + struct.pack(">IHH", 0, 0, 4) + b"note", True))
        out.append(_iff(b"APPL", b"m3ga" + b"libsndfile-fuzz", True))
        out.append(_iff(b"basc", struct.pack(">IIHHHHHH", 1, 8, 60, 0, 4, 4, 2, 0) + bytes(66), True))
        out.append(_iff(b"NAME", b"title", True))
        out.append(_iff(b"AUTH", b"x" * 300, True))
        out.append(_iff(b"(c) ", b"c" * 31, True))
        out.append(_iff(b"ANNO", b"", True))
        out.append(_iff(b"CHAN", struct.pack(">III", 0x650002, 0, 0), True))
        out.append(_iff(b"PEAK", struct.pack(">II", 1, 0) + struct.pack(">fI", 1.0, 0) * 2, True))
        out.append(_iff(b"FVER", struct.pack(">I", 0xA2805140), True))
    else:       # RIFF family
        out.append(_iff(b"cue ", struct.pack("<I", 2) + struct.pack("<II4sIII", 1, 0, b"data", 0, 0, 0) + struct.pack("<II4sIII", 2, 5, b"data", 0, 0, 5), False))
        out.append(_iff(b"cue ", struct.pack("<I", 3000) + struct.pack("<II4sIII", 1, 0, b"data", 0, 0, 0), False))
        out.append(_iff(b"smpl", struct.pack("<9I", 0, 0, 22675, 60, 0, 0, 0, 1, 0) + struct.pack("<6I", 0, 0, 0, 10, 0, 0), False))
        out.append(_iff(b"smpl", struct.pack("<9I", 0, 0, 22675, 60, 0, 0, 0, 70, 0) + struct.pack("<6I", 0, 0, 0, 10, 0, 0), False))
        out.append(_iff(b"acid", struct.pack("<IHHfHHHf", 1, 60, 0x8000, 0.0, 4, 4, 4, 120.0), False))
        out.append(_iff(b"LIST", b"adtl" + _iff(b"labl", struct.pack("<I", 1) + b"mark one\0", False) + _iff(b"note", struct.pack("<I", 2) + b"n", False)
                        + _iff(b"ltxt", struct.pack("<IIIHHHH", 1, 10, 0x72676E20, 0, 0, 0, 0), False), False))
        out.append(_iff(b"LIST", b"INFO" + _iff(b"INAM", b"t" * 2100, False), False))
        out.append(_iff(b"DISP", struct.pack("<I", 1) + b"display", False))
        out.append(_iff(b"PAD ", bytes(40), False))
        out.append(_iff(b"exif", _iff(b"ever", b"0230", False), False))
        out.append(_iff(b"PEAK", struct.pack("<II", 1, 0) + struct.pack("<fI", 1.0, 0) * 2, False))
        out.append(_iff(b"fact", struct.pack("<I", 7), False))
        out.append(_iff(b"bext", bytes(602) + b"A=PCM\r\n", False))
        out.append(_iff(b"cart", b"0101" + bytes(2044) + b"tag", False))
        out.append(_iff(b"ds64", struct.pack("<QQQI", 100, 50, 25, 0), False))
        # (round 9 covgap) exif is parsed as a LIST type with sub-chunks (exif_subchunk_parse): well-formed and damaged ones, appended so that
        # the indices above stay what interaction_files' `keep` names
        from . import c03detect
        out.extend(c for (_label, c) in c03detect.exif_chunks())
    return out


def interaction_files(seed_bytes, limit=800):
    """systematic cross-chunk interactions: every ordered pair and triple of 'stateful' foreign chunks (chunks with counts, chunks the
    reader combines after the chunk loop, chunks whose second occurrence replaces the first) inserted before the audio chunk of one seed
    file. Returns a list of (label, bytes)."""
    ch = walk_chunks(seed_bytes)
    if not ch or not ch[1] or seed_bytes[:4] not in (b"RIFF", b"RIFX", b"FORM"):
        return []
    h, cl = ch
    be = seed_bytes[:4] in (b"RIFX", b"FORM")
    dic = foreign_chunks(be)
    keep = ([0, 1, 2, 3, 4, 6, 12] if be else [0, 1, 2, 3, 4, 5, 10, 11, 12, 13, 15, 18, 25])      # stateful ones (15, 18, 25: LIST/exif well-formed / sub-chunk size larger than the LIST / unterminated emdl)
    dic = [dic[i] for i in keep if i < len(dic)]
    audio = b"SSND" if seed_bytes[:4] == b"FORM" else b"data"
    k = next((i for i, (a, b) in enumerate(cl) if seed_bytes[a:a + 4] == audio), len(cl))
    head = seed_bytes[:cl[k][0]] if k < len(cl) else seed_bytes
    rest = seed_bytes[cl[k][0]:] if k < len(cl) else b""
    out = []
    n = len(dic)
    for i in range(n):
        for j in range(n):
            out.append(("pair-%d-%d" % (i, j), head + dic[i] + dic[j] + rest))
            out.append(("pairT-%d-%d" % (i, j), head + dic[i] + rest + dic[j]))
    for i in range(n):
        for j in range(n):
            for l in range(n):
                out.append(("triple-%d-%d-%d" % (i, j, l), head + dic[i] + dic[j] + dic[l] + rest))
    if len(out) > limit:
        step = len(out) / float(limit)
        out = [out[int(x * step)] for x in range(limit)]
    return out


LEN_SUBST32 = [0, 1, 0x7FFFFFFF, 0xFFFFFFFF, 0x80000000, 0xFFFFFFFE, 0x7FFFFFFE]
SUBST16 = [0, 1, 2, 0xFFFF, 0x7FFF, 0x8000, 0x401, 0x400, 3]


def plausible_fields(data, limit):
    """offsets of 32-bit fields (either endianness) that look like lengths/offsets/rates, and of small 16-bit fields"""
    n = len(data)
    f32, f16 = [], []
    lim = min(limit, n - 4)
    for off in range(0, max(lim, 0)):
        le = struct.unpack_from("<I", data, off)[0]
        be = struct.unpack_from(">I", data, off)[0]
        if 0 < le <= max(n, 65536) * 4:
            f32.append((off, "<"))
        if 0 < be <= max(n, 65536) * 4 and be != le:
            f32.append((off, ">"))
    for off in range(0, max(min(limit, n - 2), 0)):
        le = struct.unpack_from("<H", data, off)[0]
        be = struct.unpack_from(">H", data, off)[0]
        if 0 < le <= 4096:
            f16.append((off, "<"))
        if 0 < be <= 4096 and be != le:
            f16.append((off, ">"))
    return f32, f16


class Mutator:
    def __init__(self, seed_bytes, rng):
        self.seed = bytes(seed_bytes)
        self.rng = rng
        self.hdr = min(len(self.seed), 1400)
        self.f32, self.f16 = plausible_fields(self.seed, self.hdr)
        self.chunks = walk_chunks(self.seed)
        # size fields that follow a four-character tag (chunk and sub-chunk lengths of the IFF family, AU/CAF/W64-style too)
        self.tagged = []
        d = self.seed
        for off in range(0, max(0, min(len(d) - 8, 3000))):
            tag = d[off:off + 4]
            if all(0x20 <= c < 0x7F for c in tag) and any(chr(c).isalpha() for c in tag):
                le = struct.unpack_from("<I", d, off + 4)[0]
                be = struct.unpack_from(">I", d, off + 4)[0]
                if le <= len(d) * 2 + 64:
                    self.tagged.append((off + 4, "<"))
                elif be <= len(d) * 2 + 64:
                    self.tagged.append((off + 4, ">"))

    def mutate(self):
        """returns (kind, bytes)"""
        r = self.rng
        d = bytearray(self.seed)
        n = len(d)
        kind = r.choice(["len32", "len32", "taglen", "taglen", "taglen", "f16", "f16", "trunc", "trunc", "flip", "flip", "chunk", "magic", "multi", "splice", "foreign"])
        if kind == "foreign" and not (self.chunks and self.chunks[1] and self.seed[:4] in (b"RIFF", b"RIFX", b"RF64", b"FORM")):
            kind = "chunk"
        if kind == "taglen" and not self.tagged:
            kind = "len32"
        if kind == "len32" and self.f32:
            off, e = r.choice(self.f32)
            v = struct.unpack_from(e + "I", d, off)[0]
            nv = r.choice(LEN_SUBST32 + [(v + 1) & 0xFFFFFFFF, (v - 1) & 0xFFFFFFFF, (v + 2) & 0xFFFFFFFF, (v * 2) & 0xFFFFFFFF, v // 2,
                                        (n - off) & 0xFFFFFFFF, (n - off - 4) & 0xFFFFFFFF, (n - off - 3) & 0xFFFFFFFF])
            struct.pack_into(e + "I", d, off, nv)
        elif kind == "taglen":
            off, e = r.choice(self.tagged)
            v = struct.unpack_from(e + "I", d, off)[0]
            nv = r.choice(LEN_SUBST32 + [(v + 1) & 0xFFFFFFFF, (v - 1) & 0xFFFFFFFF, (v + 2) & 0xFFFFFFFF, (v - 2) & 0xFFFFFFFF, (v * 2) & 0xFFFFFFFF,
                                        2047, 2048, 2049, 0xFFFFFFFD, 0xFFFFFFFC, 0xFFFFFFF8, (n - off - 4) & 0xFFFFFFFF, (n - off - 3) & 0xFFFFFFFF, (n - off - 5) & 0xFFFFFFFF])
            struct.pack_into(e + "I", d, off, nv)
        elif kind == "f16" and self.f16:
            off, e = r.choice(self.f16)
            v = struct.unpack_from(e + "H", d, off)[0]
            nv = r.choice(SUBST16 + [(v + 1) & 0xFFFF, (v - 1) & 0xFFFF, (v * 2) & 0xFFFF])
            struct.pack_into(e + "H", d, off, nv)
        elif kind == "trunc":
            k = r.randrange(0, self.hdr + 1) if r.random() < 0.8 else r.randrange(0, n + 1)
            d = d[:k]
        elif kind == "flip":
            for _ in range(r.choice([1, 1, 2, 3, 8])):
                if n:
                    off = r.randrange(0, self.hdr) if (self.hdr and r.random() < 0.85) else r.randrange(0, n)
                    d[off] = r.randrange(256) if r.random() < 0.5 else d[off] ^ (1 << r.randrange(8))
        elif kind == "chunk" and self.chunks and self.chunks[1]:
            h, cl = self.chunks
            parts = [bytes(d[a:b]) for (a, b) in cl]
            tail = bytes(d[cl[-1][1]:])
            op = r.choice(["dup", "swap", "drop", "rev"])
            if op == "dup":
                k = r.randrange(len(parts))
                parts.insert(r.randrange(len(parts) + 1), parts[k])
            elif op == "swap" and len(parts) > 1:
                i, j = r.sample(range(len(parts)), 2)
                parts[i], parts[j] = parts[j], parts[i]
            elif op == "drop":
                parts.pop(r.randrange(len(parts)))
            else:
                parts.reverse()
            d = bytearray(bytes(d[:h]) + b"".join(parts) + tail)
        elif kind == "foreign":
            # insert 1-3 chunks the library's writers never emit (possibly twice, possibly with a damaged count), at chunk boundaries
            h, cl = self.chunks
            be = self.seed[:4] in (b"RIFX", b"FORM")
            parts = [bytes(d[a:b]) for (a, b) in cl]
            tail = bytes(d[cl[-1][1]:])
            dic = foreign_chunks(be)
            for _ in range(r.choice([1, 2, 2, 3])):
                c = bytearray(r.choice(dic))
                if r.random() < 0.25 and len(c) > 10:
                    struct.pack_into(">H" if be else "<H", c, 8, r.choice([0, 1, 2500, 2501, 3000, 0xFFFF]))
                parts.insert(r.randrange(len(parts) + 1), bytes(c))
            d = bytearray(bytes(d[:h]) + b"".join(parts) + tail)
        elif kind == "magic":
            keep = r.choice([4, 8, 12, 16, 24, 32])
            d = bytearray(bytes(d[:keep]) + bytes(r.randrange(256) for _ in range(r.choice([0, 1, 7, 20, 60, 200, 300]))))
        elif kind == "multi":
            for _ in range(r.choice([2, 3, 4])):
                if self.f32 and r.random() < 0.6:
                    off, e = r.choice(self.f32)
                    struct.pack_into(e + "I", d, off, r.choice(LEN_SUBST32 + [r.randrange(1 << 32), r.randrange(1 << 16)]))
                elif self.f16:
                    off, e = r.choice(self.f16)
                    struct.pack_into(e + "H", d, off, r.choice(SUBST16 + [r.randrange(1 << 16)]))
        elif kind == "splice" and n > 16:
            a = r.randrange(0, self.hdr)
            b = min(n, a + r.choice([1, 2, 4, 8, 16, 64]))
            if r.random() < 0.5:
                del d[a:b]
            else:
                d[a:a] = bytes(d[a:b])
        else:
            kind = "flip1"
            if n:
                off = r.randrange(0, n)
                d[off] ^= 0xFF
        return kind, bytes(d)


# ---- API scripts ----
TYPES = ["s16", "s32", "f32", "f64"]
WHENCES = [0, 1, 2, 0x10, 0x11, 0x12, 0x20, 0x21, 0x22, 0x30, 0x31, 0x32, 3, 77, -1, 0x40, 0x1000]
COUNTS = [0, 1, 2, 3, 5, 7, 16, 64, 255, 1000, 4096, 65536, -1, -7]


def api_script(rng, route, nops=None):
    """operations after `store`; returns list of lines (first is the open)"""
    lines = ["open h0 s0 r" + ("" if route == "vio" else " route=" + route)]
    k = nops if nops is not None else rng.choice([2, 3, 4, 5, 6, 8, 10])
    for _ in range(k):
        x = rng.random()
        if x < 0.42:
            lines.append("r h0 %s %s %d q" % (rng.choice(TYPES), rng.choice("if"), rng.choice(COUNTS + [rng.randrange(0, 3000)])))
        elif x < 0.62:
            off = rng.choice([0, 1, -1, 2, 10, 95, 96, 97, 1000, -1000, 1 << 31, -(1 << 31), (1 << 62), -(1 << 62), (1 << 63) - 1, -(1 << 63), rng.randrange(-200, 200)])
            lines.append("seek h0 %d %d" % (off, rng.choice(WHENCES)))
        elif x < 0.66:
            lines.append("info h0")
        elif x < 0.72:
            lines.append("getstr h0 %d" % rng.choice(STR_TYPES + [0, 11, 99, -1]))
        elif x < 0.80:
            lines.append("chunkiter h0 %s" % rng.choice(["null", "null", hx(b"Cust"), hx(b"LIST"), hx(b"bext"), hx(b"data"), hx(b"fmt "), hx(b"COMM"), hx(b"x")]))
            lines.append("chunkget h0" + rng.choice(["", "", "", "", "", " 1", " 3", " 4096", " 4096", " 0"]))
            for _ in range(rng.choice([0, 1, 3])):
                lines.append("chunknext h0")
                lines.append("chunkget h0")
        elif x < 0.93:
            cid, size = rng.choice([(0x1040, 8), (0x1041, 8), (0x1042, 8 * 8), (0x1043, 8 * 8), (0x1044, 8), (0x1045, 64), (0x1001, 2048), (0x1001, 1),
                                    (SFC_GET_BROADCAST_INFO, SIZEOF_BEXT), (SFC_GET_CART_INFO, SIZEOF_CART), (SFC_GET_CUE, 4 + 280 * 3), (SFC_GET_CUE_COUNT, 4),
                                    (SFC_GET_INSTRUMENT, SIZEOF_INST), (0x10E0, 44), (0x10B0, 16), (0x1100, 4 * 8), (0x1110, 0), (0x10A3, 40), (0x1201, 0),
                                    (0x1014, 1), (0x1013, 0), (0x1012, 0), (0x10C0, 1), (0x1501, 4), (0x1304, 0), (0x1028, 24), (0x1002, 16), (0x9999, 8)])
            lines.append("cmd h0 %x %d %s" % (cid, size, "zero" if (size >= 1 and cid not in (0x1014, 0x10C0)) else "null"))
        else:
            lines.append("rraw h0 %d" % rng.choice([0, 1, 2, 3, 4, 6, 8, 12, 100, 4096, -1]))
    lines.append("close h0")
    return lines


def kvs(line):
    d = {}
    for t in line.split():
        if "=" in t:
            k, v = t.split("=", 1)
            d[k] = v
    return d


LINE_PREFIXES = ("len=", "open=", "ret=", "it=", "size_ret=", "err=", "calls=", "msg=", "ok", "bad-op", "bad-route")


def split_transcript(out):
    """(transcript lines, status line or None, stray lines).  The library itself prints on stdout in a few
    places (sds.c "Error A : …", sf_error_number "Not a valid error number"); such lines are not transcript."""
    tr, stray, status = [], [], None
    for line in out:
        if line == "":
            continue
        if line.startswith("CRASH") or line.startswith("ABORT") or line.startswith("TIMEOUT"):
            status = line
            break
        if line.startswith(LINE_PREFIXES):
            tr.append(line)
        else:
            stray.append(line)
    return tr, status, stray


def judge(ops, out, known_formats):
    """Evaluate the C03 predicate on one implementation transcript.
    ops: the script lines (store first); out: transcript lines.  Returns (None | (index, what), open_info | None)"""
    info = None
    tr, status, stray = split_transcript(out)
    failing = None
    if status is not None:
        partial = bool(tr) and tr[-1].startswith("size_ret=") and "data_ret=" not in tr[-1]
        k = len(tr) - 1 if partial else len(tr)
        k = max(0, min(len(ops) - 1, k))
        p = status.split()
        failing = (k, "status:" + p[0] + (":" + p[1] if len(p) > 1 else ""))
    elif len(tr) < len(ops):
        failing = (len(tr), "status:script ended early (%d of %d transcript lines)" % (len(tr), len(ops)))
    ch = 1
    frames = 0
    opened = False
    for i, (op, line) in enumerate(zip(ops, tr)):
        t = op.split()
        d = kvs(line)
        if t[0] == "open":
            if line.startswith("open=NULL"):
                if int(d.get("err", "0")) == 0:
                    return (i, "open=NULL with sf_error == 0"), info
                if int(d.get("msglen", "0")) <= 0:
                    return (i, "open=NULL with an empty error message"), info
            elif line.startswith("open=ok"):
                opened = True
                ch, sr, frames, fmt, sec = int(d["ch"]), int(d["sr"]), int(d["frames"]), int(d["fmt"], 16), int(d["sections"])
                info = (ch, sr, frames, fmt, sec)
                if not (1 <= ch <= 1024 and sr >= 1 and frames >= 0 and sec >= 1 and (fmt & 0x0FFF0000) and (fmt & 0xFFFF)):
                    return (i, "open=ok with insane SF_INFO (ch=%d sr=%d frames=%d fmt=%08x sections=%d)" % (ch, sr, frames, fmt, sec)), info
                if known_formats is not None and ((fmt & 0x0FFF0000) not in known_formats[0] or (fmt & 0xFFFF) not in known_formats[1]):
                    return (i, "open=ok with a format word that names no known container/encoding (fmt=%08x)" % fmt), info
            else:
                return (i, "unexpected open transcript: " + line[:80]), info
        elif t[0] == "r" and opened and "ret" in d:
            n = int(t[4])
            ret = int(d.get("ret", "-999"))
            if ret < 0 or ret > max(n, 0):
                return (i, "read returned %d for a request of %d" % (ret, n)), info
        elif t[0] == "rraw" and opened and "ret" in d:
            n = int(t[2])
            ret = int(d.get("ret", "-999"))
            if ret < 0 or ret > max(n, 0):
                return (i, "sf_read_raw returned %d for a request of %d bytes" % (ret, n)), info
        elif t[0] == "seek" and opened and "ret" in d:
            ret = int(d.get("ret", "-999"))
            if ret < -1 or ret > frames:
                return (i, "sf_seek returned %d on a file of %d frames" % (ret, frames)), info
    return failing, info


def in_chunk_zero_class(ops, out, verdict):
    """Sf.C03.KF.chunkZero: the failing operation is a chunkget through virtual I/O whose transfer
    min (caller datalen, stored length) is 0, and the process was stopped by the sanitizer."""
    if verdict is None or not verdict[1].startswith("status:ABORT:status=77"):
        return False
    k = verdict[0]
    if k >= len(ops) or not ops[k].startswith("chunkget"):
        return False
    if any(o.startswith("open ") and "route=" in o and "route=vio" not in o for o in ops):
        return False
    tr, status, stray = split_transcript(out)
    if not tr or not tr[-1].startswith("size_ret=") or "data_ret=" in tr[-1]:
        return False
    stored = int(kvs(tr[-1]).get("datalen", "-1"))
    t = ops[k].split()
    caller = int(t[2]) if len(t) > 2 and int(t[2]) >= 0 else stored
    return min(caller, stored) == 0


def in_sds_pipe_class(ops, data, verdict):
    """Sf.C03.KF.sdsPipe: SDS magic (what guess_file_type looks at: F0 7E .. 01), route=pipe, and the
    open itself does not return"""
    if verdict is None or not verdict[1].startswith("status:TIMEOUT"):
        return False
    k = verdict[0]
    if k >= len(ops) or not ops[k].startswith("open ") or "route=pipe" not in ops[k]:
        return False
    return len(data) >= 4 and data[0] == 0xF0 and data[1] == 0x7E and data[3] == 0x01


def in_svx_pipe_class(ops, data, verdict):
    """Sf.C03.KF.chunkLoopPipe: RIFF|RIFX|RF64....WAVE, FORM....AIFF|AIFC|8SVX|16SV (what guess_file_type looks at),
    route=pipe, the open does not return"""
    if verdict is None or not verdict[1].startswith("status:TIMEOUT"):
        return False
    k = verdict[0]
    if k >= len(ops) or not ops[k].startswith("open ") or "route=pipe" not in ops[k]:
        return False
    if len(data) < 12:
        return False
    if data[0:4] == b"FORM" and data[8:12] in (b"8SVX", b"16SV", b"AIFF", b"AIFC"):
        return True
    if data[0:4] == b"caff":
        return True
    return data[0:4] in (b"RIFF", b"RIFX", b"RF64") and data[8:12] == b"WAVE"


def in_nist_coding_class(ops, data, verdict):
    """Sf.C03.KF.nistCoding: NIST_1A header, key "sample_coding -s" present (strstr stops at the first NUL), and
    sscanf ("sample_coding -s%d %63s") would match fewer than two items; the sanitizer stopped the open."""
    import re
    if verdict is None or not verdict[1].startswith("status:ABORT:status=77"):
        return False
    k = verdict[0]
    if k >= len(ops) or not ops[k].startswith("open "):
        return False
    if not data.startswith(b"NIST_1A"):
        return False
    hdr = data[:1024].split(b"\0")[0]
    i = hdr.find(b"sample_coding -s")
    if i < 0:
        return False
    rest = hdr[i + len(b"sample_coding -s"):]
    return re.match(rb"[ \t\n\r\v\f]*[+-]?[0-9]+[ \t\n\r\v\f]+[^ \t\n\r\v\f]", rest) is None


def in_svx_backjump_class(ops, data, verdict):
    """Sf.C03.KF.svxBackJump: FORM....8SVX|16SV with a chunk size field whose top bit is set; the open does not return"""
    if verdict is None or not verdict[1].startswith("status:TIMEOUT"):
        return False
    k = verdict[0]
    if k >= len(ops) or not ops[k].startswith("open "):
        return False
    if not (len(data) >= 20 and data[0:4] == b"FORM" and data[8:12] in (b"8SVX", b"16SV")):
        return False
    for off in range(12, len(data) - 7):
        tag = data[off:off + 4]
        if all(0x20 <= c < 0x7F for c in tag) and data[off + 4] & 0x80:
            return True
    return False


def in_caf_info_pipe_class(ops, data, verdict):
    """Sf.C03.KF.cafInfoNegative: caff, route=pipe, an 'info' chunk whose 64-bit size s has (int)(s - 4) < 0; sanitizer abort at open"""
    if verdict is None or not verdict[1].startswith("status:ABORT:status=77"):
        return False
    k = verdict[0]
    if k >= len(ops) or not ops[k].startswith("open ") or "route=pipe" not in ops[k]:
        return False
    if data[0:4] != b"caff":
        return False
    i = data.find(b"info", 8)
    while i >= 0:
        if i + 12 <= len(data):
            size = struct.unpack(">q", data[i + 4:i + 12])[0]
            if size >= 4 and ((size - 4) & 0xFFFFFFFF) >= 0x80000000:
                return True
        i = data.find(b"info", i + 1)
    return False
