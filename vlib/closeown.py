"""C14: descriptor ownership after sf_close WHEN A CLOSE HANDLER REPORTS A PROBLEM (round 8, gap worker gape).

"sf_close closes a descriptor passed to sf_open_fd exactly when close_desc was true and never touches descriptors it did not open" -- the
route campaigns only close handles on which nothing went wrong, so every codec_close / container_close returns 0 and whatever psf_close
does with a non-zero result is never seen.  Close handlers that can return something else (found by reading every *_close in src/):
  * vox_adpcm.c codec_close returns the decoder's / encoder's count of out-of-range ("clipping") steps -- driven here by data regions
    whose codes run the OKI predictor into the rails (0x77…, 0xff…, 0x7f…, alternating, seeded random with large magnitudes);
  * every container's close rewrites the header / tailer: with the file-size limit pulled under the file (`fsize`, harness/fsize.c) those
    writes fail and psf_close sees errors from the handlers and from the flush.
The model is lean/SfModel/CloseOwn.lean (`Sf.CloseOwn.psfClose`: the handlers' results are threaded through, psf_fclose runs in every case,
the descriptor is closed iff the handle owns it), theorems lean/SfProps/C14CloseOwn.lean (`close_releases_iff_owned`, `close_result_is_fclose`).
Every case runs through fd1 (close_desc = 1), fd0 (close_desc = 0), path and vio:
  fd1: the descriptor is closed after sf_close; fd0: it is still open; path / vio: the process holds exactly the descriptors it held before
  the open (`shortio fds`); sf_close returns the same value on every route; the samples delivered before are the same on every route.
"""
import collections, re
from . import formats, scripts as S, writecamp as W

VOX = 0x00040021


def vox_streams(rng):
    out = [("77x44", "77" * 44), ("ffx61", "ff" * 61), ("7fx40", "7f" * 40), ("f7x33", "f7" * 33), ("77ffx50", "77ff" * 50), ("7x300", "77" * 300)]
    for k in range(3):
        n = rng.choice([17, 64, 129, 400])
        out.append(("rnd%d" % k, "".join("%x%x" % (rng.choice([7, 15, 6, 14]), rng.choice([7, 15, 7, 15, 3])) for _ in range(n))))
    out.append(("quiet", "08" * 40))       # a stream that does NOT clip: the handler returns 0
    return out


def cases(ctx, quick):
    rng = ctx.rng
    L = []
    for tag, hx in vox_streams(rng):
        n = len(hx)          # two samples per byte
        for route in ("fd1", "fd0", "path", "vio"):
            r = "" if route == "vio" else " route=" + route
            sc = ["store s0 " + hx, "shortio fds", "open h1 s0 r fmt=%08x ch=1 sr=8000%s" % (VOX, r), "r h1 s16 i %d" % (n + 8), "r h1 s16 i 4", "close h1", "shortio fds"]
            L.append(dict(group="vox-read-" + tag, route=route, script="\n".join(sc) + "\n", close_at=5, kind="vox-read"))
    # VOX write side: large alternating steps
    for tag, vals in (("alt", [0x7FFF, 0x8000] * 40), ("ramp", [(k * 3001) & 0xFFFF for k in range(90)]), ("odd", [0x7FFF, 0x8000] * 20 + [0x7FFF])):
        for route in ("fd1", "fd0", "path", "vio"):
            r = "" if route == "vio" else " route=" + route
            sc = ["shortio fds", "open h0 s0 w fmt=%08x ch=1 sr=8000%s" % (VOX, r), S.w_line("h0", "s16", "i", len(vals), vals), "close h0", "shortio fds", "dump s0"]
            L.append(dict(group="vox-write-" + tag, route=route, script="\n".join(sc) + "\n", close_at=3, kind="vox-write"))
    # every container: the close handlers' own writes fail (file-size limit below the file)
    fs = [f for f in formats.writable_formats(ctx) if f.major != 0x16 and f.codec not in (0x70, 0x71, 0x72, 0x73)]
    first = {}
    for f in fs:
        first.setdefault(f.major, f)
    pick = list(first.values()) + rng.sample(fs, min(len(fs), 6 if quick else 60))
    for i, f in enumerate(pick):
        ch = min(f.maxch, 2)
        ty = "s16" if f.codec not in (0x06, 0x07) else "f32"
        n = 600
        vals = W.gen_values(rng, ty, n * ch, unit=True)
        lim = rng.choice([1, 20, 100])
        for route in ("fd1", "fd0", "path"):
            sc = ["shortio fds", "open h0 s0 w fmt=%08x ch=%d sr=8000 route=%s" % (f.word, ch, route), S.w_line("h0", ty, "f", n, vals), "fsize %d" % lim, "close h0", "fsize off", "shortio fds"]
            L.append(dict(group="efbig-%s-%d" % (f.name, i), route=route, script="\n".join(sc) + "\n", close_at=4, kind="close-efbig"))
    return L


def campaign(ctx, quick=None):
    quick = (ctx.tier == "quick") if quick is None else quick
    cs = cases(ctx, quick)
    out = ctx.batch([("co|%d" % i, c["script"]) for i, c in enumerate(cs)], clean=True, op_timeout=20)
    stats = collections.Counter()
    findings = []
    # what lean/SfModel/CloseOwn.lean (`sfmodel shortio`, request `close`) says per route -- for ANY handler result (the handlers' results are not observable
    # from outside; `close_blind_to_handlers` is why one request per route is enough): close (2) itself succeeds in every case here
    ROUTE_REQ = {"fd1": "close vio=0 keep=0 codec=- container=- os=0", "fd0": "close vio=0 keep=1 codec=1 container=- os=0",
                 "path": "close vio=0 keep=0 codec=7 container=3 os=0", "vio": "close vio=1 keep=0 codec=- container=- os=0"}
    order = sorted(ROUTE_REQ)
    ans = ctx.run_model(["shortio"], "".join(ROUTE_REQ[r] + "\n" for r in order)).strip().split("\n")
    MODEL = {r: dict(x.split("=") for x in a.split()) for r, a in zip(order, ans)}
    groups = collections.defaultdict(list)
    for i, c in enumerate(cs):
        c["lines"] = out.get("co|%d" % i, [])
        groups[c["group"]].append(c)
    for g, lst in sorted(groups.items()):
        ref = None
        for c in lst:
            ln = c["lines"]
            stats["cases"] += 1
            stats["ops"] += len(c["script"].split("\n"))
            dead = [l for l in ln if l.startswith(("CRASH", "ABORT", "TIMEOUT"))]
            if dead or len(ln) <= c["close_at"]:
                findings.append((c, "crash", "the script died: %s" % (dead or ln[-1:] or ["(nothing)"])[0][:200]))
                continue
            fds = [l for l in ln if l.startswith("ok fds=")]
            cl = ln[c["close_at"]]
            m = re.match(r"ret=(-?\d+)(?: fd_open=(\d))?", cl)
            if not m:
                findings.append((c, "crash", "no answer from sf_close: %s" % cl[:100]))
                continue
            ret, fo = int(m.group(1)), m.group(2)
            if ret != 0:
                stats["closes_that_reported_a_problem"] += 1
                ctx.distinct.add("closeown:%s:ret!=0" % c["kind"])
            ctx.distinct.add("closeown:%s:%s" % (c["kind"], c["route"]))
            stats["closes_compared_with_the_model"] += 1
            if ret != int(MODEL[c["route"]]["ret"]):
                findings.append((c, "routes", "sf_close returned %d; Sf.CloseOwn.psfClose (what psf_fclose answered, whatever the close handlers reported) says %s: %s" % (ret, MODEL[c["route"]]["ret"], cl)))
            if fo is not None and (fo == "0") != (MODEL[c["route"]]["closed"] == "1"):
                findings.append((c, "descriptor", "descriptor %s after sf_close; Sf.CloseOwn.psfClose says closed=%s (route %s, sf_close returned %d)" % ("open" if fo == "1" else "closed", MODEL[c["route"]]["closed"], c["route"], ret)))
            if c["route"] == "fd1" and fo != "0":
                findings.append((c, "descriptor", "sf_open_fd (close_desc = 1): the descriptor is still open after sf_close (sf_close returned %d): %s" % (ret, cl)))
            if c["route"] == "fd0" and fo != "1":
                findings.append((c, "descriptor", "sf_open_fd (close_desc = 0): sf_close closed a descriptor it does not own (sf_close returned %d): %s" % (ret, cl)))
            if len(fds) >= 2 and fds[0] != fds[-1]:
                findings.append((c, "descriptor", "the process holds other descriptors after sf_close than before the open (route %s, sf_close returned %d): before `%s`, after `%s`"
                                 % (c["route"], ret, fds[0], fds[-1])))
            # the routes agree: samples, return value of sf_close, closed bytes (VOX cases: all four routes; efbig: how far the writes get depends on the route's file, only ownership is asked)
            if c["kind"].startswith("vox"):
                key = [re.sub(r" fd_open=\d", "", l) for l in ln if not l.startswith(("ok fds=", "open="))]
                if ref is None:
                    ref = (c, key)
                elif key != ref[1]:
                    k = next((x for x in range(min(len(key), len(ref[1]))) if key[x] != ref[1][x]), min(len(key), len(ref[1])))
                    findings.append((c, "routes", "route %s and route %s disagree: `%s` vs `%s`" % (ref[0]["route"], c["route"], (ref[1][k] if k < len(ref[1]) else "(missing)")[:120],
                                                                                                  (key[k] if k < len(key) else "(missing)")[:120])))
    return findings, stats, cs


def run(ctx):
    findings, stats, cs = campaign(ctx)
    ctx.count(stats["ops"], tag="closeown")
    rep = collections.Counter()
    for (c, cat, text) in findings:
        stats["failures"] += 1
        rep[(c["kind"], cat)] += 1
        if rep[(c["kind"], cat)] > 1:
            continue
        ctx.violation("c14-closeown-%s-%s-%s" % (c["group"], c["route"], cat),
                      "# C14 descriptor ownership / route agreement at sf_close when a close handler has something to report (%s, route %s)\n# %s\n# transcript: %s\n--- script\n%s"
                      % (c["group"], c["route"], text, " | ".join(l[:80] for l in c["lines"][-4:]), c["script"]))
    ctx.coverage.setdefault("close_ownership", {}).update(dict(stats))
    if cs:
        ctx.sample({"kind": "sf_close with a reporting close handler", "case": cs[0]["group"], "route": cs[0]["route"], "transcript": [l[:100] for l in cs[0]["lines"]]})
    return bool(findings)
