"""WAVEX and RF64: the write-side byte-exact models (lean/SfModel/Wavex.lean, Rf64.lean) against the library.

One stream of write sessions on every sample-granular (codec, endian) the library accepts for the two containers x channels
(incl. the default channel-mask cases 1, 2, 4, 6, 8) x rates x lengths, each as ONE write call and as split writes with
SFC_UPDATE_HEADER_NOW / auto mode, with a stale SF_INFO.frames, RF64 with and without SFC_RF64_AUTO_DOWNGRADE:
the store after open, after every operation and after close must equal the model's store byte for byte (all header bytes,
pad byte); the closed file must equal hdr ++ audio ++ tail; the re-open must report what was written; and an independent
walker checks every size field (RIFF size, ds64 fields, fact, data) against the real lengths.
"""
import re
import struct
from . import formats as F
from . import cafw64 as K

WAVEX, RF64 = 0x13, 0x22


class Case(K.Case):
    def __init__(self, fmt, ch, sr, stale, dg):
        K.Case.__init__(self, fmt, ch, sr, 0, stale)
        self.cont = "wavex" if fmt.major == WAVEX else "rf64"
        self.dg = dg
        self.big = self.endian == 2

    def expect_word(self):
        if self.cont == "wavex":
            return (WAVEX << 16) | self.codec | (0x20000000 if self.big else 0)
        return ((WAVEX if self.dg else RF64) << 16) | self.codec

    def cfg(self):
        if self.cont == "wavex":
            return "%x %d %d %d" % (self.codec, self.endian, self.ch, self.sr)
        return "%x %d %d %d" % (self.codec, self.ch, self.sr, 1 if self.dg else 0)


def size_fields(c, b, n):
    """None when every size field matches the real lengths"""
    bo = "big" if c.big else "little"
    u32 = lambda off: int.from_bytes(b[off:off + 4], bo)
    u64 = lambda off: int.from_bytes(b[off:off + 8], bo)
    tag = b[:4]
    pos = 12
    want_data = n * c.bw
    if tag in (b"RIFF", b"RIFX"):
        if u32(4) != len(b) - 8:
            return "RIFF size %d, file length - 8 = %d" % (u32(4), len(b) - 8)
    elif tag == b"RF64":
        if u32(4) != 0xFFFFFFFF:
            return "RF64 size field %x" % u32(4)
    else:
        return "marker %r" % tag
    while pos + 8 <= len(b):
        t, sz = b[pos:pos + 4], u32(pos + 4)
        if t == b"ds64":
            if (u64(pos + 8), u64(pos + 16), u64(pos + 24)) != (len(b) - 8, want_data, n):
                return "ds64 holds riff=%d data=%d frames=%d, real %d / %d / %d" % (u64(pos + 8), u64(pos + 16), u64(pos + 24), len(b) - 8, want_data, n)
        if t == b"fact" and u32(pos + 8) != n:
            return "fact holds %d frames, written %d" % (u32(pos + 8), n)
        if t == b"data":
            if tag == b"RF64":
                if sz != 0xFFFFFFFF:
                    return "RF64 data size field %x" % sz
            elif sz != want_data:
                return "data size %d, audio bytes %d" % (sz, want_data)
            rest = len(b) - (pos + 8) - want_data
            if rest != (pos + 8 + want_data) % 2:
                return "%d byte(s) after the audio, expected %d" % (rest, (pos + 8 + want_data) % 2)
            return None
        pos += 8 + sz + (sz % 2)
    return "no data chunk"


def campaign(ctx):
    import time
    t0 = time.time()
    rng = ctx.rng
    st = {"sessions": 0, "snapshots": 0, "files": 0, "formats": 0}
    fmts = [f for f in F.writable_formats(ctx) if f.major in (WAVEX, RF64) and f.codec in K.BW and f.codec != 0x01]
    st["formats"] = len(fmts)
    rates = [1, 8000, 44100, 65536, 2 ** 31 - 1, rng.randrange(2, 2 ** 31 - 1)]
    chans = [1, 2, 3, 4, 6, 8] if ctx.tier == "quick" else [1, 2, 3, 4, 5, 6, 7, 8, 9, 1024]
    lengths = [0, 1, 2, 3, 5, 4097]
    cases = []
    k = 0
    for f in fmts:
        for ch in chans:
            if ch > f.maxch:
                continue
            for dg in ((False, True) if f.major == RF64 else (False,)):
                for mode in ("single", "split"):
                    srs = [rates[k % len(rates)]] if ctx.tier == "quick" else rates[::2] + [rates[k % len(rates)]]
                    for sr in srs:
                        c = Case(f, ch, sr, rng.choice([0, 5, 99999, -3]), dg)
                        n = lengths[k % len(lengths)] if mode == "single" else None
                        if n == 4097 and ch > 2:
                            n = 7
                        cases.append((c, mode, n))
                    k += 1
    scripts, plan = [], {}
    for i, (c, mode, n) in enumerate(cases):
        ops, L = [], [K.open_w(c)]
        if c.dg:
            L.append("cmd h0 1210 1 null")
        L.append("dump s0")
        if mode == "single":
            if n:
                vals = K.gen_values(rng, c.ty, n * c.ch)
                ops.append(("w", n, vals))
                L += ["w h0 %s f %d %s" % (c.ty, n, K.hex_items(vals, c.ty)), "dump s0"]
        else:
            auto = False
            for _ in range(rng.randrange(1, 6)):
                r = rng.random()
                if r < 0.6:
                    kk = rng.choice([0, 1, 1, 2, 3, 5])
                    vals = K.gen_values(rng, c.ty, kk * c.ch)
                    ops.append(("w", kk, vals))
                    L.append("w h0 %s f %d %s" % (c.ty, kk, K.hex_items(vals, c.ty)))
                elif r < 0.85:
                    ops.append(("u",))
                    L.append("cmd h0 1060 0 null")
                else:
                    auto = not auto
                    ops.append(("a", auto))
                    L.append("cmd h0 1061 %d null" % (1 if auto else 0))
                L.append("dump s0")
        L += ["close h0", "dump s0", K.OPEN_R % 0]
        name = "X%d" % i
        scripts.append((name, "\n".join(L) + "\n"))
        plan[name] = (c, ops)
    res = ctx.batch(scripts, workers=K.WORKERS, clean=True)
    sd = dict(scripts)
    problems = []
    for cont in ("wavex", "rf64"):
        rows, good = [], []
        for (n_, _) in scripts:
            c, ops = plan[n_]
            if c.cont != cont:
                continue
            lines = res.get(n_, [])
            dumps = [K.dump_bytes(l) for l in lines if l.startswith("len=")]
            opens = [l for l in lines if l.startswith("open=")]
            if len(dumps) != len(ops) + 2 or len(opens) < 2 or any(l.startswith(("CRASH", "ABORT", "TIMEOUT")) for l in lines):
                problems.append(("crash", n_, "the library died in a write session: %s" % lines[-2:], sd[n_]))
                continue
            final = dumps[-1]
            total = sum(o[1] for o in ops if o[0] == "w")
            # --- the property on the implementation's own output
            want = ("ok", c.expect_word(), c.ch, c.sr, total)
            re_ = K.parse_open(opens[1])
            if re_ != want:
                problems.append(("reopen", n_, "re-open reports %s, written: fmt=%08x ch=%d sr=%d frames=%d" % (opens[1].strip(), want[1], c.ch, c.sr, total),
                                 sd[n_], "open=ok err=0 ch=%d sr=%d frames=%d fmt=%08x" % (c.ch, c.sr, total, want[1])))
                continue
            bad = size_fields(c, final, total)
            if bad and not (c.cont == "rf64" and c.dg and total == 0):
                problems.append(("corr-sizes", n_, "a size field does not match the file: " + bad, sd[n_]))
                continue
            if bad:
                st["rf64_empty_downgrade_size"] = st.get("rf64_empty_downgrade_size", 0) + 1
            pad = 1 if (len(final) - total * c.bw) % 2 == 1 and (total * c.bw) % 2 == 1 else 0
            off = len(final) - pad - total * c.bw
            toks, wpos, table = [], 0, [(0.0, 0)] * c.ch if (c.isfloat and cont == "wavex") else []
            for o in ops:
                if o[0] == "w":
                    kk = o[1]
                    data = final[off + wpos * c.bw: off + (wpos + kk) * c.bw]
                    if table and kk:
                        table = K.peaks_after(table, c.ty, o[2], c.ch, wpos)
                    toks.append("w:%d:%s:%s" % (kk, data.hex(), K.peaks_arg(table) if cont == "wavex" else "-"))
                    wpos += kk
                elif o[0] == "u":
                    toks.append("u")
                else:
                    toks.append("a1" if o[1] else "a0")
            rows.append("%s %d %s\n" % (c.cfg(), c.stale, " ".join(toks)))
            good.append((n_, dumps, total, final, off, table))
        if not rows:
            continue
        out = ctx.run_model([cont, "session"], "".join(rows)).split("\n")
        hdr_rows = []
        for (n_, dumps, total, final, off, table), l in zip(good, out):
            c, ops = plan[n_]
            snaps = [bytes.fromhex(t) if t not in ("bad-op", "bad-line") else None for t in l.split(" ")]
            st["sessions"] += 1
            st["snapshots"] += len(dumps)
            ctx.distinct.add("wavexrf64:%s:ch%d:%s" % (c.fmt.name, c.ch, "dg" if c.dg else "-"))
            for k2, (d, m) in enumerate(zip(dumps, snaps)):
                if d != m:
                    what = "after open" if k2 == 0 else ("after close" if k2 == len(dumps) - 1 else "after operation %d (%s)" % (k2, ops[k2 - 1][0]))
                    m = m or b""
                    j = next((i for i in range(min(len(d), len(m))) if d[i] != m[i]), min(len(d), len(m)))
                    problems.append(("corr-session", n_, "%s (stale frames %d, downgrade %s): store %s differs at offset %d (library %d bytes %s.., model %d bytes %s..)"
                                     % (c.name, c.stale, c.dg, what, j, len(d), d[j:j + 8].hex(), len(m), m[j:j + 8].hex()), sd[n_]))
                    break
            if not (cont == "rf64" and c.dg and total == 0):
                hdr_rows.append((n_, total, final, off, table))
        # closed file = hdr ++ audio ++ tail
        if hdr_rows:
            inp = "".join(("%s %d %s\n" % (plan[n_][0].cfg(), total, K.peaks_arg(table))) if cont == "wavex" else ("%s %d\n" % (plan[n_][0].cfg(), total))
                          for (n_, total, final, off, table) in hdr_rows)
            out = ctx.run_model([cont, "hdr"], inp).split("\n")
            for (n_, total, final, off, table), l in zip(hdr_rows, out):
                c = plan[n_][0]
                t = l.split(" ")
                h, tl = bytes.fromhex(t[0]), (b"" if len(t) < 2 or t[1] == "-" else bytes.fromhex(t[1]))
                st["files"] += 1
                if len(final) != len(h) + total * c.bw + len(tl) or not final.startswith(h) or (tl and not final.endswith(tl)):
                    j = next((i for i in range(min(len(h), len(final))) if final[i] != h[i]), min(len(h), len(final)))
                    problems.append(("corr-hdr", n_, "%s: closed file %d bytes, model %d + %d + %d; first differing header byte at offset %d"
                                     % (c.name, len(final), len(h), total * c.bw, len(tl), j), sd[n_]))
    st["wall_s"] = round(time.time() - t0, 1)
    ctx.notes["wavexrf64"] = st
    ctx.count(st["snapshots"] + st["files"])
    ctx.coverage["traces_validated_against_impl"] += st["sessions"]
    ctx.sample({"kind": "WAVEX/RF64 write sessions", "counts": dict(st)})
    if not problems:
        return False
    real = [p for p in problems if p[0] in ("reopen", "crash")]
    corr = [p for p in problems if p[0].startswith("corr")]
    prop = ctx.prop.lower()
    for pr in real[:3]:
        kind, name, text, script = pr[:4]
        expect = "expect-last %s\n" % pr[4] if len(pr) > 4 else ""
        ctx.violation("%s-wavexrf64-%s-%s" % (prop, kind, name),
                      "# %s violated on the implementation's own output (WAVEX/RF64 campaign)\n# %s\n%s--- script\n%s" % (ctx.prop, text, expect, script))
    if not real:
        kind, name, text, script = corr[0][:4]
        ctx.violation("%s-wavexrf64-correspondence-%s" % (prop, kind),
                      "# correspondence stream 'WAVEX/RF64 write model vs implementation' no longer agrees: %d disagreement(s), kinds %s\n"
                      "# first: %s\n# the %s predicate on the implementation's own output (re-open info) found no failing input\n--- script\n%s"
                      % (len(corr), sorted(set(p[0] for p in corr)), text, ctx.prop, script), no_input=True)
    return True
