"""C13 ("… without disturbing audio") and C06's query clause: A CHUNK QUERY BETWEEN TWO READS, AT A POSITION != 0, FOR EVERY CODEC OF
EVERY CHUNK-CARRYING CONTAINER — deterministic.

Why this exists (round 9, seed C13-aiff-chunkdata-lastop-dwvw): `*_get_chunk_data` moves the descriptor into the header and has to put
it back.  There are two ways of "putting it back": restoring the byte offset (what the four functions do), or forgetting the last
operation (`psf->last_op = 0`) so that the next read calls the CODEC's seek function with the current frame.  The second is
indistinguishable for every codec that can seek anywhere and loses the audio for the codecs that cannot: DWVW (dwvw_seek accepts frame 0
only), and in the same family the codecs whose seek function refuses every call (G.72x, NMS ADPCM: `sf.seekable = 0`).  The query
campaign (vlib/querycamp.py) draws its queries and read positions from the seed: for a given (container, codec) a chunk-data query at
a non-zero position is drawn at some seeds only.

What is enumerated: every writable (container, codec) of WAV / WAVEX / RF64 / AIFF / CAF (one byte order each in the quick tier, one
channel; thorough: every byte order, 1 and 2 channels): a file with a string and custom chunks of length 0 / 3 / 8 in front of the audio;
one read handle, NO seek anywhere (the position is only reached by reading):
        read 7 frames | iterator by id + get_chunk_data | read 5 | probe | full iteration with data | read 3 | probe |
        iterator + get_chunk_data into a short buffer | read block+1 | full iteration with a zero-length buffer | read 2 | the
        container's own last chunk | read 70 | probe | iteration by an unknown id | read to the end | read past the end
THE PREDICATE is Lean: `Sf.Abs.check` (a query line is `Op.other`: the abstract state is untouched, so every read is judged against the
frames rpos, rpos + 1, … of the sequential reference read).  Model side of the class: lean/SfModel/AbsQuerySeek.lean +
lean/SfProps/C13QuerySeek.lean (`restore_needs_no_codec_seek`, `forget_rule_loses_audio_when_seek_refused`)."""
import re
from . import readcamp as R, formats, abslean, absreplay, querycamp as Q


def det_script(f, ch, F, filehex):
    L = ["store s0 " + filehex]
    bw = R.raw_bw(f, ch)
    if bw and F > 0:
        L += ["open h1 s0 r", "rraw h1 %d" % (F * bw), "close h1"]
    L.append("open h0 s0 r")
    own = Q.CHUNKY[f.major].hex()
    b = R.block_hint(f)
    rd = lambda ty, u, k: "r h0 %s %s %d" % (ty, u, k if u == "f" else k * ch)
    L += [rd("s16", "f", 7),
          "chunkiter h0 %s" % b"full".hex(), "chunkdata h0",
          rd("s16", "f", 5), "seek h0 0 1",
          "chunkall h0 null",
          rd("s32", "i", 3), "seek h0 0 1",
          "chunkiter h0 %s" % b"odd1".hex(), "chunkdata h0 2", "chunknext h0", "chunkdata h0",
          rd("f32", "f", (b + 1) if b > 1 else 4),
          "chunkall h0 null 0",
          rd("f64", "i", 2),
          "chunkall h0 %s" % own,
          rd("s16", "i", 70), "seek h0 0 1",
          "chunkall h0 7a7a7a51",
          rd("s32", "f", F + 9),
          "chunkiter h0 %s" % b"empt".hex(), "chunkdata h0",
          rd("s16", "f", 3),
          "close h0"]
    return "\n".join(L) + "\n"


def pick_formats(ctx, every):
    fs = [f for f in formats.writable_formats(ctx) if f.major in Q.CHUNKY]
    if every:
        return fs
    seen, out = set(), []
    for f in sorted(fs, key=lambda f: (f.major, f.codec, f.endian)):
        if (f.major, f.codec) not in seen:
            seen.add((f.major, f.codec))
            out.append(f)
    return out


def run(ctx, prop):
    """returns True when a violation with a concrete failing input was reported"""
    rng = ctx.rng
    quick = ctx.tier == "quick"
    jobs = []
    for f in pick_formats(ctx, not quick):
        for ch in sorted(set(min(c, f.maxch) for c in ((1,) if quick else (1, 2)))):
            b = R.block_hint(f)
            jobs.append((f, ch, max(2 * b + 40, 120)))
    ws = [("qf-%s-c%d" % (f.name, ch), Q.decorate(R.write_phase(rng, f, ch, n), f.major, i % 2 == 1)) for i, (f, ch, n) in enumerate(jobs)]
    out = ctx.batch(ws, clean=True)
    st = ctx.notes.setdefault("query_between_reads_every_codec", {"files": 0, "histories": 0, "chunk_queries": 0, "unusable_files": 0, "failing": 0})
    tests = []
    for (name, script), (f, ch, n) in zip(ws, jobs):
        st["files"] += 1
        info = R.parse_write_phase(out.get(name, []), script, ch)
        if info["problems"] or any(info.get("ref_ret", {}).get(ty) != info.get("frames", -1) * ch for ty in R.TYS) or info.get("frames", 0) < 30:
            st["unusable_files"] += 1      # the all-format read campaign reports files that cannot be written / read back
            continue
        tests.append((name, f, ch, info["frames"], info, det_script(f, ch, info["frames"], info["filehex"])))
    out2 = ctx.batch([(t[0], t[5]) for t in tests])
    judge = abslean.Judge(ctx)
    meta = {}
    for (name, f, ch, F, info, t) in tests:
        sl = t.strip().split("\n")
        start = R.test_start(sl)
        lines = [l for l in out2.get(name, []) if l.startswith(ctx.TRANSCRIPT_PREFIXES + ("c ", "end ", "meta ", "pos="))]
        prs, sp = Q.pairs_of(t, lines, start)
        rawref, bw = None, R.raw_bw(f, ch)
        for (opt, ls) in sp[:start]:
            if opt[0] == "rraw" and opt[1] == "h1" and ls:
                m = re.search(r"ret=(-?\d+) .*data=([0-9a-f]*)", ls[0])
                if m and int(m.group(1)) == F * (bw or 0) and F > 0:
                    rawref = m.group(2)[:2 * int(m.group(1))]
        refs = {ty: "".join(items) for ty, items in info["ref"].items() if len(items) == F * ch}
        geom = abslean.geom_line(ch, F, "r", seekable=info.get("seekable", True), bw=bw or 0)
        judge.add(name, geom, refs, rawref, prs)
        meta[name] = (geom, start, len(prs), len(sl) - start)
        st["histories"] += 1
        st["chunk_queries"] += sum(1 for l in sl[start:] if l.startswith("chunk"))
    verdicts = judge.run()
    found, reported = False, set()
    for (name, f, ch, F, info, text) in tests:
        v = verdicts[name]
        geom, start, njudged, nlines = meta[name]
        ctx.count(nlines, tag="queryfix:" + f.name)
        ctx.distinct.add("queryfix:" + f.name)
        prob = None
        if v.status == "skip":
            continue
        if v.first() is not None:
            k, tag, tx = v.fails[0]
            prob = (start + k, tag, "Lean predicate Sf.Abs.check: clause `%s` fails: %s" % (tag, tx.strip()))
        elif njudged < nlines:
            prob = (start + njudged, None, "transcript ends early (the call did not return / the process died)")
        if not prob:
            continue
        from . import handlecheck as HC
        kf = HC.known_class(f, ch, prob[2], abslean.TAG_CAT.get(prob[1], "crash"), text, prob[0])
        if kf:
            ent = next((e for e in ctx.known if e["id"] == kf and e.get("status") == "known"), None)
            if ent is not None and ctx.witness_still_fails(ent) is not False:
                ctx.known_finding(ent)
                continue
        st["failing"] += 1
        key = (f.major, f.codec)
        if key in reported or len(reported) >= 4:
            continue
        reported.add(key)
        found = True
        line, tag, why = prob
        sl = text.strip().split("\n")
        if tag:
            body = absreplay.read_test_replay(text, line, geom, ch, F, clause=tag)
        else:
            body = "--- script\n" + "\n".join(sl[:line + 1]) + "\n"
        ctx.violation("%s-queryfix-%s" % (prop.lower(), name),
                      "# %s violated on the implementation's own transcript: a chunk query between two reads disturbed the audio that follows\n"
                      "# (no seek anywhere in the history: the position was reached by reading)\n"
                      "# format %s, %d channel(s)\n# at script line %d: %s\n# the calls in front of it: %s\n# %s\n%s"
                      % (prop, f.name, ch, line, sl[line][:100] if line < len(sl) else "", " ; ".join(x[:40] for x in sl[max(0, line - 4):line]), why, body))
    return found
