"""AIFF / AIFF-C container, L1: the Lean model Sf.Aiff (lean/SfModel/Aiff.lean, driver `sfmodel aiff`) against the library.

Writer: for every sample-granular AIFF encoding the library accepts (vlib/formats.py) x endianness option x channels
x sample rate x frame count, a session  open / dump / write / header update / dump / write / close / dump / re-open
runs on the library (memory SF_VIRTUAL_IO) and on the model; every file byte before the audio data and after it is
compared (nothing is masked: the PEAK time stamp is the harness clock); the audio region is compared with the model's own
encoding of the samples (Enc.encodeAll, up to 8 KiB per session; by length beyond).
Independently of the model the C04 predicate is evaluated on the library's own transcript (re-open info, FORM and SSND
size fields against the real length); that decides between `VIOLATION … replay` and `… no-failing-input-found`.

Reader: the library's files and mutated variants (truncation at every header byte, chunk sizes +-1, unknown chunks
inserted, edited COMM / SSND fields, alternative compression types) go to `sf_open` and to `Sf.Aiff.parse`; verdict
(ok / NULL) and the SF_INFO fields must agree.  Cases the model calls `unmodelled` are skipped and counted.
"""
import collections, struct

from . import formats as FM, kernels as K

GRAN = (0x01, 0x05, 0x02, 0x03, 0x04, 0x06, 0x07, 0x10, 0x11)
BYTEWIDTH = {0x01: 1, 0x05: 1, 0x10: 1, 0x11: 1, 0x02: 2, 0x03: 3, 0x04: 4, 0x06: 4, 0x07: 8}
RATES = [1, 2, 3, 8000, 11025, 44100, 65535, 65536, 2 ** 30 - 1, 2 ** 30, 2 ** 31 - 1]
CHANNELS = [1, 2, 3, 6]
TINY = 0x0DA24260          # binary32 pattern of the smallest float >= 1e-30


def aiff_formats(ctx):
    return [f for f in FM.writable_formats(ctx) if f.major == 0x02 and f.codec in GRAN]


def expected_word(f):
    """format word a reader must report: the container records the byte order only when one was requested"""
    e = {0: 0, FM.LE: 0x10000000, FM.CPU: 0x10000000, FM.BE: 0x20000000}[f.endian]
    return e | 0x020000 | f.codec


def f32(x):
    return struct.unpack(">I", struct.pack(">f", x))[0]


class Job:
    def __init__(self, f, ch, sr, parts, stale, auto, rng, tiny=False):
        self.f, self.ch, self.sr, self.parts, self.stale, self.auto = f, ch, sr, [p for p in parts], stale, auto
        self.n = sum(parts)
        self.flt = f.codec in (0x06, 0x07)
        self.ty = ("f32" if f.codec == 0x06 else "f64") if self.flt else "s16"
        self.bw = BYTEWIDTH[f.codec] * ch
        self.vals = []
        for p in parts:
            if self.flt:
                # values exactly representable in binary32, so the PEAK arithmetic (a C float) is exact
                v = []
                for _ in range(p * ch):
                    r = rng.random()
                    if tiny and r < 0.6:
                        b = rng.choice([TINY - 1, TINY, TINY + 1, 1, 0x00800000, 0x007FFFFF, 0])
                    elif r < 0.1:
                        b = rng.choice([0, 0x3F800000, 0x3F000000, 0x3F7FFFFF, TINY, TINY - 1])
                    else:
                        b = f32(rng.uniform(-1.0, 1.0)) & 0x7FFFFFFF
                    if rng.random() < 0.5:
                        b |= 0x80000000
                    v.append(b)
                self.vals.append(v)
            else:
                self.vals.append([rng.randrange(0, 65536) for _ in range(p * ch)])

    def name(self, i):
        return "%s-c%d-r%d-n%s-%d" % (self.f.name, self.ch, self.sr, "+".join(map(str, self.parts)), i)

    def hexvals(self, v):
        if self.ty == "s16":
            return "".join("%04x" % x for x in v)
        if self.ty == "f32":
            return "".join("%08x" % x for x in v)
        return "".join("%016x" % struct.unpack(">Q", struct.pack(">d", struct.unpack(">f", struct.pack(">I", x))[0]))[0] for x in v)

    def peaks_after(self, k):
        """PEAK table after the first k+1 write calls (float32_peak_update / double64_peak_update on a whole call)"""
        pk = [(0, 0)] * self.ch
        cur = 0
        for i in range(k + 1):
            v = self.vals[i]
            for c in range(self.ch):
                col = [x & 0x7FFFFFFF for x in v[c::self.ch]]
                if not col:
                    continue
                m = max(col)          # for finite non-negative floats the bit order is the value order
                pos = col.index(m)
                if K.bits_f32(m) > K.bits_f32(pk[c][0]):
                    pk[c] = (m, cur + pos)
            cur += self.parts[i]
        return pk

    def script(self, reopen=True):
        L = ["open h0 s0 w fmt=%08x ch=%d sr=%d frames=%d" % (self.f.word, self.ch, self.sr, self.stale), "dump s0"]
        if self.auto:
            L.append("cmd h0 1061 1 null")
        for i, p in enumerate(self.parts):
            if p > 0:
                L.append("w h0 %s f %d %s" % (self.ty, p, self.hexvals(self.vals[i])))
            if i == 0:
                if not self.auto:
                    L.append("cmd h0 1060 0 null")
                L.append("dump s0")
        L += ["close h0", "dump s0"]
        if reopen:
            L.append("open h1 s0 r")
            # a read/write handle opened on the closed file and closed again without a call must leave it as it is
            L += ["close h1", "open h2 s0 rw fmt=%08x ch=%d sr=%d" % (self.f.word, self.ch, self.sr), "close h2", "dump s0", "open h3 s0 r"]
        return "\n".join(L) + "\n"

    def model_line(self):
        ops = ["d"]
        for i, p in enumerate(self.parts):
            if p > 0:
                if self.n * self.bw <= 8192:      # typed write: the model encodes the samples itself (SfModel/AiffAudio.lean)
                    op = ("X" if self.auto else "x") + self.ty + "@" + self.hexvals(self.vals[i])
                else:
                    op = ("W" if self.auto else "w") + str(p * self.bw)
                if self.flt:
                    op += ":" + "/".join("%08x,%d" % pk for pk in self.peaks_after(i))
                ops.append(op)
            if i == 0:
                if not self.auto:
                    ops.append("u")
                ops.append("d")
        ops += ["c", "d"]
        return "session codec=%02x endian=%d ch=%d sr=%d stale=%d ops=%s" % (self.f.codec, self.f.endian >> 28, self.ch, self.sr, self.stale, ";".join(ops))


def make_jobs(ctx, fmts, quick):
    rng = ctx.rng
    jobs = []
    seeded = [rng.randrange(2, 2 ** 31) for _ in range(2)] + [rng.randrange(2 ** 30, 2 ** 31), rng.randrange(2, 70000)]
    rates = RATES + seeded
    lengths = [0, 1, 2, 3, 5, 8, 4097]

    def split(n):
        a = rng.randrange(0, n + 1) if n else 0
        return [a, n - a]
    if quick:
        k = rng.randrange(len(rates))
        for f in fmts:
            for ch in CHANNELS:
                for n in lengths[:-1]:
                    k += 1
                    jobs.append(Job(f, ch, rates[k % len(rates)], split(n), rng.choice([0, 3, 99999]), rng.random() < 0.3, rng))
            for sr in rates:
                jobs.append(Job(f, rng.choice(CHANNELS), sr, split(rng.choice([1, 2, 3, 4, 7])), rng.choice([0, 12345]), rng.random() < 0.3, rng))
            jobs.append(Job(f, rng.choice(CHANNELS), rng.choice(rates), split(4097), 0, False, rng))
            if f.codec in (0x06, 0x07):
                jobs.append(Job(f, rng.choice([1, 2, 3]), 44100, split(rng.choice([4, 9])), 0, False, rng, tiny=True))
    else:
        for f in fmts:
            for ch in CHANNELS:
                for sr in rates:
                    for n in lengths:
                        if n == 4097 and (ch == 6 and sr % 3):
                            continue
                        jobs.append(Job(f, ch, sr, split(n), rng.choice([0, 3, 99999]), rng.random() < 0.3, rng))
            if f.codec in (0x06, 0x07):
                for ch in (1, 2, 3):
                    for _ in range(4):
                        jobs.append(Job(f, ch, 44100, split(rng.choice([4, 9, 33])), 0, False, rng, tiny=True))
    return jobs


def kv(line):
    return dict(t.split("=", 1) for t in line.split() if "=" in t)


def chunk_walk(b):
    """(FORM size, list of (id, offset of size field, size)) of a plain IFF walk; independent of the model"""
    out = []
    if len(b) < 12:
        return None, out
    pos = 12
    while pos + 8 <= len(b):
        size = struct.unpack(">I", b[pos + 4:pos + 8])[0]
        out.append((b[pos:pos + 4], pos + 4, size))
        pos += 8 + size + (size & 1)
    return struct.unpack(">I", b[4:8])[0], out


def c04_predicate(job, final, reopen_line):
    """problems of the library's own result against the C04 statement (empty list = holds)"""
    probs = []
    if not reopen_line.startswith("open=ok"):
        return ["re-open of the closed file fails: " + reopen_line]
    d = kv(reopen_line)
    if int(d["ch"]) != job.ch:
        probs.append("channels %s, written with %d" % (d["ch"], job.ch))
    if int(d["fmt"], 16) != expected_word(job.f):
        probs.append("format word %s, expected %08x" % (d["fmt"], expected_word(job.f)))
    if int(d["sr"]) != job.sr:
        probs.append("sample rate %s, requested %d" % (d["sr"], job.sr))
    fr = int(d["frames"])
    if fr != job.n:                                   # the pad byte after an odd byte count is not a frame
        probs.append("frames %d, %d written" % (fr, job.n))
    form, chunks = chunk_walk(final)
    if form is None or form != (len(final) - 8) % 2 ** 32:
        probs.append("FORM size field %s, file length - 8 = %d" % (form, len(final) - 8))
    cm = [c for c in chunks if c[0] == b"COMM"]
    if len(cm) != 1:
        probs.append("no single COMM chunk")
    else:
        nsf = struct.unpack(">I", final[cm[0][1] + 6:cm[0][1] + 10])[0]
        if nsf != fr:
            probs.append("COMM numSampleFrames field %d, the file holds %d frames" % (nsf, fr))
    ss = [c for c in chunks if c[0] == b"SSND"]
    if len(ss) != 1:
        probs.append("no single SSND chunk")
    else:
        _, off, size = ss[0]
        if off + 4 + size + (size & 1) != len(final) or len(final) % 2:
            probs.append("SSND chunk (size field %d) plus its pad byte does not reach the (even) end of file: ends at %d, file has %d bytes" % (size, off + 4 + size + (size & 1), len(final)))
        if size - 8 != job.n * job.bw:
            probs.append("SSND size field %d for %d audio bytes" % (size, job.n * job.bw))
    return probs


def parse_dump(line):
    d = kv(line)
    return bytes.fromhex(d.get("hex", "")) if line.startswith("len=") else None


def writer_campaign(ctx, fmts, quick):
    jobs = make_jobs(ctx, fmts, quick)
    scripts = [(j.name(i), j.script()) for i, j in enumerate(jobs)]
    impl = ctx.batch(scripts, workers=4)
    model = ctx.run_model(["aiff"], "".join(j.model_line() + "\n" for j in jobs)).split("\n")
    stats = collections.Counter()
    corr, pred, files = [], [], []
    for i, j in enumerate(jobs):
        name, script = scripts[i]
        lines = impl.get(name, [])
        stats["sessions"] += 1
        ctx.distinct.add("aiff:%s:c%d" % (j.f.name, j.ch))
        ctx.distinct.add("aiff:rate:%d" % j.sr if j.sr in RATES else "aiff:rate:seeded")
        ops = script.strip().split("\n")
        alld = [parse_dump(l) for l in lines if l.startswith("len=")]
        dumps = alld[:3]
        ro = [k for k, o in enumerate(ops) if o.startswith("open h1 ")]
        reopen = lines[ro[0]] if ro and ro[0] < len(lines) else ""
        if any(l.startswith(("CRASH", "ABORT", "TIMEOUT")) for l in lines) or len(alld) != 4 or len(lines) != len(ops):
            pred.append((j, name, script, ["the implementation died or the transcript is incomplete: %s" % (lines[-1:] or "")], reopen))
            continue
        mrep = [dict(t.split("=", 1) for t in r.split()) for r in (model[i] if i < len(model) else "").split(" | ")] if i < len(model) and model[i].startswith("hdr=") else []
        diffs = []
        if len(mrep) != 3:
            diffs.append("model gave no answer: %s" % (model[i][:80] if i < len(model) else "<missing>"))
        else:
            for k, (b, m) in enumerate(zip(dumps, mrep)):
                h, t, dl = bytes.fromhex(m["hdr"]), bytes.fromhex(m.get("tail", "")), int(m["dlen"])
                stats["bytes_compared"] += len(h) + len(t)
                where = ["after open", "after the header update", "after close"][k]
                if len(b) != len(h) + dl + len(t):
                    diffs.append("%s: %d bytes, model %d + %d + %d" % (where, len(b), len(h), dl, len(t)))
                elif b[:len(h)] != h:
                    x = next(q for q in range(len(h)) if b[q] != h[q])
                    diffs.append("%s: header byte %d is %02x, model %02x (impl %s model %s)" % (where, x, b[x], h[x], b[:len(h)].hex(), h.hex()))
                elif t and b[len(b) - len(t):] != t:
                    diffs.append("%s: tail %s, model %s" % (where, b[len(b) - len(t):].hex(), t.hex()))
                elif "data" in m:
                    stats["audio_bytes_compared"] += dl
                    if b[len(h):len(h) + dl] != bytes.fromhex(m["data"]):
                        diffs.append("%s: audio bytes %s, model (Enc.encodeAll) %s" % (where, b[len(h):len(h) + dl].hex()[:200], m["data"][:200]))
        probs = c04_predicate(j, dumps[2], reopen)
        rw = lines[[k for k, o in enumerate(ops) if o.startswith("open h2 ")][0]]
        if rw.startswith("open=ok"):
            stats["rdwr_noop_probes"] += 1
            if alld[3] != dumps[2]:
                probs.append("opening the closed file read/write and closing it again changed its bytes: %s -> %s" % (dumps[2][:96].hex(), alld[3][:96].hex()))
            elif lines[-1].split("frames=")[-1] != reopen.split("frames=")[-1]:
                probs.append("after a read/write open + close a reader sees %s, before: %s" % (lines[-1], reopen))
        if probs:
            pred.append((j, name, script, probs, reopen))
        elif diffs:
            corr.append((j, name, script, diffs, reopen))
        files.append((j, dumps[1], dumps[2], reopen))
        stats["images"] += 3
    return jobs, files, corr, pred, stats


# ---------------------------------------------------------------- reader

def mutants(b, rng, full):
    """(tag, bytes) variants of a library-written file"""
    out = []
    _, chunks = chunk_walk(b)
    ss = [c for c in chunks if c[0] == b"SSND"]
    hdr_end = ss[0][1] + 12 if ss else len(b)
    cuts = list(range(0, min(len(b), hdr_end + 3) + 1))
    if not full:
        cuts = [c for c in cuts if c % 3 == rng.randrange(3) or c in (11, 12, 20, 21, hdr_end - 1, hdr_end)]
    for c in cuts:
        out.append(("trunc@%d" % c, b[:c]))
    sizes = [(b"FORM", 4, struct.unpack(">I", b[4:8])[0])] + chunks
    for (cid, off, size) in sizes:
        for d in (-1, 1, 2, -8):
            ns = size + d
            if 0 <= ns < 2 ** 32:
                out.append(("%s.size%+d" % (cid.decode("latin1"), d), b[:off] + struct.pack(">I", ns) + b[off + 4:]))
        out.append(("%s.size=huge" % cid.decode("latin1"), b[:off] + struct.pack(">I", rng.choice([0x7FFFFFFF, 0x80000000, 0xFFFF0000, 0xFFFEFFFF, 0xFFFFFFFF])) + b[off + 4:]))
    bounds = [12] + [off + 4 + size + (size & 1) for (cid, off, size) in chunks if cid != b"SSND"]
    ins = [b"abcd\x00\x00\x00\x05hello\x00", b"JUNK\x00\x00\x00\x00", b"zz~ \x00\x00\x00\x02\x01\x02", b"SFX!\x00\x00\x00\x04\x00\x00\x00\x00",
           b"FVER\x00\x00\x00\x04\xa2\x80\x51\x40", b"ab\x01d\x00\x00\x00\x02xy", b"\x00\x00\x00\x00\x00\x00\x00\x00", b"odd1\x00\x00\x00\x03abc\x00",
           b"NAME\x00\x00\x00\x02hi", b"FORM\x00\x00\x00\x04AIFF", b"big!\x00\x00\x9c\x40" + bytes(40000),
           b"NAME\x00\x00\x00\x03abc\x00", b"AUTH\x00\x00\x00\x05hello\x00", b"ANNO\x00\x00\x00\x00", b"(c) \x00\x00\x00\x04copy",
           b"NAME\x00\x00\x23\x28" + bytes(9000), b"AUTH\x00\x00\x1f\xfe" + bytes(8190), b"ANNO\x00\x00\x1f\xfd" + b"x" * 8189 + b"\x00",
           b"APPL\x00\x00\x00\x03abc\x00", b"APPL\x00\x00\x00\x08m3gatext", b"APPL\x00\x00\x00\x07m3gaabc\x00", b"APPL\x00\x00\x00\x00", b"APPL\x00\x00\x00\x05m3gax\x00", b"APPL\x00\x00\x00\x04m3ga",
           b"COMT\x00\x00\x00\x0e\x00\x01\x00\x00\x00\x01\x00\x00\x00\x04text", b"COMT\x00\x00\x00\x0d\x00\x01\x00\x00\x00\x01\x00\x00\x00\x03abc\x00",
           b"COMT\x00\x00\x00\x14\x00\x02\x00\x00\x00\x01\x00\x00\x00\x00\x00\x00\x00\x02\x00\x07\x00\x02hi", b"COMT\x00\x00\x00\x04\x00\x05\x00\x00",
           b"INST\x00\x00\x00\x14" + bytes(range(20)), b"INST\x00\x00\x00\x06abcdef",
           b"MARK\x00\x00\x00\x16\x00\x02\x00\x01\x00\x00\x00\x05\x03abc\x00\x02\x00\x00\x00\x09\x02hi\x00",
           b"MARK\x00\x00\x00\x02\x00\x00", b"MARK\x00\x00\x00\x06\x0b\xb8abcd", b"MARK\x00\x00\x00\x0c\x00\x03\x00\x01\x00\x00\x00\x05\x03abc"]
    # the four text chunks at both sides of their (different) size limits
    lim = [b"%s%s%s" % (m, struct.pack(">I", n), b"t" * n + (b"\x00" if n & 1 else b"")) for (m, l) in ((b"(c) ", 8192), (b"AUTH", 8191), (b"NAME", 8190), (b"ANNO", 8190)) for n in (l - 1, l)]
    for x in (lim if full else rng.sample(lim, 3)):
        out.append(("limit:%s%d" % (x[:4].decode("latin1").strip(), struct.unpack(">I", x[4:8])[0]), b[:bounds[-1]] + x + b[bounds[-1]:]))
    for p in bounds:
        for x in (ins if full else rng.sample(ins, 12)):
            out.append(("ins@%d:%s" % (p, x[:4].hex()), b[:p] + x + b[p:]))
    out.append(("append-junk", b + b"tail\x00\x00\x00\x02ab"))
    out.append(("append-short", b + b"xy"))
    cm = [c for c in chunks if c[0] == b"COMM"]
    if cm:
        o = cm[0][1] + 4           # body of COMM
        def put(off, data, tag):
            out.append((tag, b[:o + off] + data + b[o + off + len(data):]))
        for v in (0, 1025, 0x8000, 0xFFFF, 1024, 5):
            put(0, struct.pack(">H", v), "ch=%d" % v)
        for v in (0, 1, 7, 8, 9, 12, 16, 17, 24, 25, 32, 33, 64, 0x8000, 0xFFF9, 0xFFFF):
            put(6, struct.pack(">H", v), "bits=%d" % v)
        put(2, struct.pack(">I", rng.randrange(2 ** 32)), "frames=rnd")
        for e0 in (0x00, 0x3F, 0x40, 0x41, 0x7F, 0x80, 0xC0):
            for e1 in (0x00, 0x01, 0x0E, 0x1C, 0x1D, 0x1E, 0xFF):
                if full or rng.random() < 0.3:
                    put(8, bytes([e0, e1]) + bytes(rng.randrange(256) for _ in range(8)), "rate=%02x%02x.." % (e0, e1))
        if cm[0][2] >= 22:
            for enc in (b"NONE", b"twos", b"sowt", b"in24", b"42n1", b"ni24", b"in32", b"23ni", b"fl32", b"FL32", b"fl64", b"FL64", b"ulaw", b"ULAW",
                        b"alaw", b"ALAW", b"raw ", b"RAW ", b"\x00\x00\x00\x00", b"MAC3", b"GSM ", b"DWVW", b"ima4"):
                put(18, enc, "enc=%s" % enc.decode("latin1"))
            # a Pascal-string name as other writers emit it, and the 22-byte and 18-byte COMM forms
            body = b[o:o + 22]
            name = b"\x0enot compressed\x00"
            out.append(("comm+pstring", b[:cm[0][1]] + struct.pack(">I", 22 + len(name)) + body + name + b[o + cm[0][2]:]))
            out.append(("comm22", b[:cm[0][1]] + struct.pack(">I", 22) + body + b[o + cm[0][2]:]))
            out.append(("comm18-in-aifc", b[:cm[0][1]] + struct.pack(">I", 18) + body[:18] + b[o + cm[0][2]:]))
            out.append(("comm20", b[:cm[0][1]] + struct.pack(">I", 20) + body[:20] + b[o + cm[0][2]:]))
    if ss:
        o = ss[0][1] + 4
        for v in (1, 2, 3, 7, len(b), 2 ** 31, 2 ** 32 - 1):
            out.append(("ssnd.offset=%d" % v, b[:o] + struct.pack(">I", v) + b[o + 4:]))
        out.append(("ssnd.blocksize", b[:o + 4] + struct.pack(">I", 512) + b[o + 8:]))
        # a second, shorter SSND chunk after the first; SSND before COMM
        out.append(("ssnd-twice", b + b"SSND\x00\x00\x00\x0a\x00\x00\x00\x00\x00\x00\x00\x00\x01\x02"))
        if cm:
            c0, s0 = cm[0][1] - 4, ss[0][1] - 4
            out.append(("ssnd-first", b[:c0] + b[s0:] + (b"\x00" if len(b[s0:]) % 2 else b"") + b[c0:s0]))
    out.append(("form=8SVX", b[:8] + b"8SVX" + b[12:]))
    out.append(("form=AIFX", b[:8] + b"AIFX" + b[12:]))
    out.append(("form<->", b[:8] + (b"AIFF" if b[8:12] == b"AIFC" else b"AIFC") + b[12:]))
    out.append(("not-form", b"FORN" + b[4:]))
    return out


def reader_campaign(ctx, files, quick):
    rng = ctx.rng
    cases = []        # (tag, bytes, expected reopen line or None)
    seen = set()
    per_fmt = collections.Counter()
    for (j, snap, final, reopen) in files:
        cases.append(("%s:final" % j.f.name, final))
        cases.append(("%s:snap" % j.f.name, snap))
        key = (j.f.word, j.ch if j.ch < 3 else 3)
        if j.n > 16 or per_fmt[key] >= (1 if quick else 3):
            continue
        per_fmt[key] += 1
        for img in ((final,) if quick else (final, snap)):
            for tag, m in mutants(img, rng, full=not quick):
                if m not in seen:
                    seen.add(m)
                    cases.append(("%s:%s" % (j.f.name, tag), m))
    group = 40
    scripts = []
    for g in range(0, len(cases), group):
        L = []
        for (tag, m) in cases[g:g + group]:
            L += ["store s0 %s" % m.hex(), "open h0 s0 r", "close h0"]
        scripts.append(("parse-%d" % (g // group), "\n".join(L) + "\n"))
    impl = ctx.batch(scripts, workers=4)
    model = ctx.run_model(["aiff"], "".join("parse %s\n" % (m.hex() or "-") for (_, m) in cases)).split("\n")
    stats = collections.Counter()
    bad = []
    for gi, (name, text) in enumerate(scripts):
        lines = impl.get(name, [])
        for k, (tag, m) in enumerate(cases[gi * group:(gi + 1) * group]):
            ci = gi * group + k
            il = lines[3 * k + 1] if 3 * k + 1 < len(lines) else "<missing>"
            ml = model[ci] if ci < len(model) else "<missing>"
            stats["parse_cases"] += 1
            ctx.distinct.add("aiff:parse:" + tag.split(":", 1)[1].split("@")[0].split("=")[0][:12])
            if ml == "unmodelled":
                stats["parse_unmodelled"] += 1
                continue
            if il.startswith("open=ok"):
                d = kv(il)
                want = "ok ch=%s sr=%s frames=%s fmt=%s" % (d["ch"], d["sr"], d["frames"], d["fmt"])
                stats["parse_ok"] += 1
            elif il.startswith("open=NULL"):
                want = "err"
                stats["parse_err"] += 1
            else:
                want = il
            if want != ml:
                bad.append((tag, m, il, ml))
    return bad, stats


def run(ctx, found=False):
    """called from vlib/props/c04.py after the common C04 machinery; returns True when it reported a violation"""
    quick = ctx.tier == "quick"
    fmts = aiff_formats(ctx)
    jobs, files, corr, pred, wstats = writer_campaign(ctx, fmts, quick)
    bad, rstats = reader_campaign(ctx, files, quick)
    # the 80-bit rate on its own: boundaries and seeded values, model against the library's COMM bytes is covered above;
    # here the model's round trip is tabulated for the evidence
    rates = sorted(set(RATES + [2, 3, 2 ** 29, 2 ** 30 - 2, 2 ** 30 + 1] + [ctx.rng.randrange(1, 2 ** 31) for _ in range(200)]))
    back = ctx.run_model(["aiff"], "".join("ten %d\n" % r for r in rates)).split("\n")
    exact = sum(1 for r, l in zip(rates, back) if l.endswith("back=%d" % r))
    ctx.count(wstats["sessions"] * 9 + rstats["parse_cases"] + len(rates))
    ctx.coverage["traces_validated_against_impl"] += wstats["sessions"] + rstats["parse_cases"]
    ctx.notes["aiff"] = {"formats": [f.name for f in fmts], "writer": dict(wstats), "reader": dict(rstats),
                         "writer_disagreements": len(corr), "predicate_failures": len(pred), "reader_disagreements": len(bad),
                         "rates_tabulated": len(rates), "rates_exact_in_model": exact,
                         "rule": "every accepted sample-granular AIFF (major, subtype, endian) x channels {1,2,3,6} x rates {1, 2, 3, 8000, 11025, 44100, 65535, 65536, "
                                 "2^30-1, 2^30, 2^31-1, seeded} x N {0,1,2,3,5,8,4097} (quick: rotating rates per (format, channels, N) plus every rate once per format; "
                                 "thorough: the full product); three store images per session compared byte for byte outside the audio region; "
                                 "library files and their mutants parsed by both sides"}
    reported = False
    for (j, name, script, probs, reopen) in pred[:3]:
        reported = True
        rdwr = any("read/write" in p for p in probs)
        last = reopen if not rdwr and not any("size field" in p or "SSND" in p or "FORM" in p or "COMM" in p for p in probs) else None
        text = "# C04 violated on the implementation's own transcript (AIFF container campaign)\n# format %s, %d channel(s), %d Hz, %d frames\n# %s\n" % (
            j.f.name, j.ch, j.sr, j.n, "; ".join(probs))
        sc = script if (last or rdwr) else j.script(reopen=False)
        if rdwr:
            sc = "\n".join(script.strip().split("\n")[:-1]) + "\n"      # ends with the dump after the read/write open + close
            lines, rc, err = ctx.script(sc)
            if lines:
                text += "observed-last %s\n" % lines[-1].strip()
        elif last:
            sl = script.strip().split("\n")
            sc = "\n".join(sl[:[k for k, o in enumerate(sl) if o.startswith("open h1 ")][0] + 1]) + "\n"
            text += "observed-last %s\n" % last.strip()
        else:
            lines, rc, err = ctx.script(sc)
            if lines:
                text += "observed-last %s\n" % lines[-1].strip()
        ctx.violation("c04-aiff-%s" % name, text + "--- script\n" + sc)
    if not reported and not found:
        if corr:
            j, name, script, diffs, reopen = corr[0]
            reported = True
            ctx.violation("c04-aiff-correspondence-%s" % name,
                          "# correspondence stream 'AIFF header writer (Sf.Aiff.hdrRaw / close / update) vs aiff_write_header' no longer agrees: %d of %d sessions differ\n"
                          "# first: %s\n# %s\n# the C04 predicate (re-open info, FORM/SSND size fields) holds on the implementation's own transcripts: no failing input found\n"
                          "observed-last %s\n--- script\n%s" % (len(corr), wstats["sessions"], name, "; ".join(diffs)[:1500], reopen.strip(), script), no_input=True)
        elif bad:
            tag, m, il, ml = bad[0]
            reported = True
            ctx.violation("c04-aiff-parse-%s" % tag,
                          "# correspondence stream 'AIFF reader (Sf.Aiff.parse) vs sf_open' no longer agrees: %d of %d files differ\n# first: %s\n# implementation: %s\n# model: %s\n"
                          "# these are hand-mutated files; the C04 predicate speaks about files the library wrote and holds on them: no failing input found\n"
                          "observed-last %s\n--- script\nstore s0 %s\nopen h0 s0 r\n" % (len(bad), rstats["parse_cases"], tag, il, ml, il.strip(), m.hex()), no_input=True)
    ctx.sample({"kind": "AIFF session", "script": jobs[0].script()[:400], "model_request": jobs[0].model_line()[:300]})
    return reported
