"""Small containers, group 1 (AVR, IRCAM, PAF, SVX; VOC and NIST are not modelled yet), L1: the stand-alone Lean models Sf.Avr / Sf.Ircam /
Sf.Paf / Sf.Svx (lean/SfModel/<X>.lean over SfModel/SmallSession.lean, driver `sfmodel small1 <x>`) against the library.

Writer: for every encoding x endianness option the library accepts for the container (vlib/formats.py) x channels x sample
rate x frame count, a session  open / dump / write / header update / dump / write / close / dump / re-open  runs on the
library (memory SF_VIRTUAL_IO; for SVX also through a path so that the NAME chunk holds a file name) and on the model; every
file byte before the audio data and after it is compared (nothing is masked), the audio region is compared by length.
Independently of the model the C04 predicate is evaluated on the library's own transcript (re-open info against what was
requested, the container's size fields against the real length); that decides between `VIOLATION … replay` and
`… no-failing-input-found`.  Failures inside a recorded known-finding class with its signature are reported as KNOWN-FINDING.

Reader: the library's files and mutated variants (truncations, edited header fields, inserted / resized chunks or blocks) go to
`sf_open` and to the model's `parse`; verdict (ok / NULL) and the SF_INFO fields must agree.  Cases the model calls
`unmodelled` are skipped and counted.
"""
import collections, struct

from . import formats as FM

BYTEWIDTH = {0x01: 1, 0x05: 1, 0x10: 1, 0x11: 1, 0x02: 2, 0x03: 3, 0x04: 4, 0x06: 4, 0x07: 8}
BASE_RATES = [1, 2, 3, 9, 10, 255, 256, 3906, 3907, 8000, 11025, 44100, 65535, 65536, 65537, 131072, 2 ** 24 - 1, 2 ** 24, 2 ** 24 + 1,
              2 ** 30, 2 ** 31 - 129, 2 ** 31 - 65, 2 ** 31 - 64, 2 ** 31 - 1]


def kv(line):
    return dict(t.split("=", 1) for t in line.split() if "=" in t)


def parse_dump(line):
    d = kv(line)
    return bytes.fromhex(d.get("hex", "")) if line.startswith("len=") else None


class Container:
    """what the campaign needs to know about one container, independent of the Lean model"""
    name = ""
    major = 0
    codecs = ()
    channels = (1, 2)
    rates = BASE_RATES
    lengths = (0, 1, 2, 3, 5, 8, 4097)
    path_route = False             # also run sessions through a path (file name in the header)

    def formats(self, ctx):
        return [f for f in FM.writable_formats(ctx) if f.major == self.major and f.codec in self.codecs]

    def bw(self, f, ch):
        return BYTEWIDTH[f.codec] * ch

    def expected_word(self, f):
        """format word a reader must report for a file written with `f`"""
        return (self.major << 16) | f.codec

    def expected_rate(self, job):
        """(rate the statement allows, known-finding id or None when the library's answer `got` is a recorded defect)"""
        return job.sr

    def rate_known(self, job, reopen_line):
        """id of the known finding that explains a rate / re-open failure of this job, or None"""
        return None

    def frames_ok(self, job, fr):
        return fr == job.n

    def frames_known(self, job, fr):
        return None

    def size_fields(self, job, final, fr):
        """problems of the container's own size fields in the closed file `final` (list of strings)"""
        return []

    def mutants(self, job, b, rng, full):
        return []

    def max_frames(self, f, ch):
        """largest frame count the campaign uses for this format / channel count"""
        return 10 ** 9

    def stored(self, job):
        """(audio bytes each write call stores, audio bytes the codec stores at close)"""
        return [p * job.bw for p in job.parts], 0

    def model_cfg(self, job):
        return "codec=%02x endian=%d ch=%d sr=%d" % (job.f.codec, job.f.endian >> 28, job.ch, job.sr)

    def hdr_end(self, b):
        return len(b)


class Job:
    def __init__(self, ct, f, ch, sr, parts, stale, auto, rng, ext=None):
        self.ct, self.f, self.ch, self.sr, self.parts, self.stale, self.auto, self.ext = ct, f, ch, sr, list(parts), stale, auto, ext
        self.n = sum(parts)
        self.upd = auto or rng.random() < 0.6      # without: no header update at all before close (the caller's frames value survives until then)
        self.bw = ct.bw(f, ch)
        self.vals = [[rng.randrange(0, 65536) for _ in range(p * ch)] for p in parts]

    @property
    def fname(self):
        return ("s0.%s" % self.ext).encode() if self.ext is not None else b""

    def name(self, i):
        return "%s-c%d-r%d-n%s%s-%d" % (self.f.name, self.ch, self.sr, "+".join(map(str, self.parts)), "-p" + (self.ext if len(self.ext) <= 40 else "%sx%d" % (self.ext[0], len(self.ext))) if self.ext is not None else "", i)

    def script(self, reopen=True):
        if self.ext is not None:
            L = ["open h0 s0 w fmt=%08x ch=%d sr=%d frames=%d route=path ext=%s" % (self.f.word, self.ch, self.sr, self.stale, self.ext)]
            if self.auto:
                L.append("cmd h0 1061 1 null")
            for i, p in enumerate(self.parts):
                if p > 0:
                    L.append("w h0 s16 f %d %s" % (p, "".join("%04x" % x for x in self.vals[i])))
                if i == 0 and not self.auto and self.upd:
                    L.append("cmd h0 1060 0 null")
            L += ["close h0", "dump s0"]
        else:
            L = ["open h0 s0 w fmt=%08x ch=%d sr=%d frames=%d" % (self.f.word, self.ch, self.sr, self.stale), "dump s0"]
            if self.auto:
                L.append("cmd h0 1061 1 null")
            for i, p in enumerate(self.parts):
                if p > 0:
                    L.append("w h0 s16 f %d %s" % (p, "".join("%04x" % x for x in self.vals[i])))
                if i == 0:
                    if not self.auto and self.upd:
                        L.append("cmd h0 1060 0 null")
                    L.append("dump s0")
            L += ["close h0", "dump s0"]
        if reopen:
            L.append("open h1 s0 r")
        return "\n".join(L) + "\n"

    def model_line(self):
        ops = [] if self.ext is not None else ["d"]
        per_call, at_close = self.ct.stored(self)
        for i, p in enumerate(self.parts):
            if p > 0:
                ops.append(("W" if self.auto else "w") + str(per_call[i]))
            if i == 0:
                if not self.auto and self.upd:
                    ops.append("u")
                if self.ext is None:
                    ops.append("d")
        if at_close:
            ops.append("w%d" % at_close)          # the codec flushes its last block before the container closes
        ops += ["c", "d"]
        nm = " name=%s" % self.fname.hex() if self.ext is not None else ""
        return "session %s%s stale=%d ops=%s" % (self.ct.model_cfg(self), nm, self.stale, ";".join(ops))

    @property
    def ndumps(self):
        return 1 if self.ext is not None else 3


def make_jobs(ctx, ct, fmts, quick):
    rng = ctx.rng
    jobs = []
    seeded = [rng.randrange(2, 2 ** 31) for _ in range(2)] + [rng.randrange(2 ** 24, 2 ** 31), rng.randrange(2, 70000), 65536 * rng.randrange(1, 2 ** 15)]
    rates = list(ct.rates) + seeded

    def split(n):
        n = min(n, ct.max_frames(cur[0], cur[1]))
        a = rng.randrange(0, n + 1) if n else 0
        return [a, n - a]
    cur = [None, 1]

    def mk(ct, f, ch, sr, parts_fn, *a, **k):      # split() needs the format and channel count of the job being made
        cur[0], cur[1] = f, ch
        return Job(ct, f, ch, sr, parts_fn(), *a, **k)
    for f in fmts:
        chans = [c for c in ct.channels if c <= f.maxch]
        if quick:
            k = rng.randrange(len(rates))
            for ch in chans:
                for n in (ct.lengths[:-1] if ch <= 8 else (0, 1, 3)):
                    k += 1
                    jobs.append(mk(ct, f, ch, rates[k % len(rates)], (lambda: split(n)), rng.choice([0, 3, 99999]), rng.random() < 0.3, rng))
            for sr in rates:
                jobs.append(mk(ct, f, rng.choice(chans), sr, (lambda: split(rng.choice([1, 2, 3, 4, 7]))), rng.choice([0, 12345]), rng.random() < 0.3, rng))
            jobs.append(mk(ct, f, rng.choice([c for c in chans if c <= 8]), rng.choice(rates), (lambda: split(ct.lengths[-1])), 0, False, rng))
        else:
            for ch in chans:
                for sr in rates:
                    for n in (ct.lengths if ch <= 8 else (0, 1, 3)):
                        if ch > 8 and sr not in (44100, 2 ** 24 + 1, 2 ** 31 - 1):
                            continue
                        jobs.append(mk(ct, f, ch, sr, (lambda: split(n)), rng.choice([0, 3, 99999]), rng.random() < 0.3, rng))
        if ct.path_route:
            # file names of 253 / 254 / 255 characters ("s0." + ext): the NAME chunk is 254 / 256 / 256 bytes (KF-SVX-NAME-LENGTH, repaired)
            exts = ["", "a", "iff", "8svx", "x" * 11, "y" * 40, "n" * 250, "n" * 251, "n" * 252] if not quick else \
                ["", "a", "iff", rng.choice(["8svx", "x" * 11, "y" * 40]), rng.choice(["n" * 250, "n" * 251, "n" * 252])]
            for ext in exts:
                jobs.append(mk(ct, f, rng.choice(chans), rng.choice([8000, 44100, 65535]), (lambda: split(rng.choice([0, 1, 2, 5]))), rng.choice([0, 77]), rng.random() < 0.3, rng, ext=ext))
    return jobs


def c04_predicate(ct, job, final, reopen_line):
    """problems of the library's own result against the C04 statement (empty list = holds); second value: ids of the known
    findings that account for what deviates"""
    probs, known = [], []
    if not reopen_line.startswith("open=ok"):
        k = ct.rate_known(job, reopen_line)
        if k:
            return [], [k]
        return ["re-open of the closed file fails: " + reopen_line], []
    d = kv(reopen_line)
    if int(d["ch"]) != job.ch:
        probs.append("channels %s, written with %d" % (d["ch"], job.ch))
    if int(d["fmt"], 16) != ct.expected_word(job.f):
        probs.append("format word %s, expected %08x" % (d["fmt"], ct.expected_word(job.f)))
    if int(d["sr"]) != ct.expected_rate(job):
        k = ct.rate_known(job, reopen_line)
        if k:
            known.append(k)
        else:
            probs.append("sample rate %s, requested %d (the container's quantiser allows %d)" % (d["sr"], job.sr, ct.expected_rate(job)))
    fr = int(d["frames"])
    if not ct.frames_ok(job, fr):
        k = ct.frames_known(job, fr)
        if k:
            known.append(k)
        else:
            probs.append("frames %d, %d written" % (fr, job.n))
    probs += ct.size_fields(job, final, fr)
    return probs, known


def writer_campaign(ctx, ct, fmts, quick):
    jobs = make_jobs(ctx, ct, fmts, quick)
    scripts = [(j.name(i), j.script()) for i, j in enumerate(jobs)]
    impl = ctx.batch(scripts, workers=4)
    model = ctx.run_model(["small1", ct.name], "".join(j.model_line() + "\n" for j in jobs)).split("\n")
    stats = collections.Counter()
    corr, pred, known, files = [], [], collections.defaultdict(list), []
    for i, j in enumerate(jobs):
        name, script = scripts[i]
        lines = impl.get(name, [])
        stats["sessions"] += 1
        ctx.distinct.add("%s:%s:c%d" % (ct.name, j.f.name, j.ch))
        ctx.distinct.add("%s:rate:%d" % (ct.name, j.sr) if j.sr in ct.rates else "%s:rate:seeded" % ct.name)
        dumps = [parse_dump(l) for l in lines if l.startswith("len=")]
        reopen = lines[-1] if lines else ""
        if any(l.startswith(("CRASH", "ABORT", "TIMEOUT")) for l in lines) or len(dumps) != j.ndumps:
            pred.append((j, name, script, ["the implementation died or the transcript is incomplete: %s" % (lines[-1:] or "")], reopen))
            continue
        ml = model[i] if i < len(model) else "<missing>"
        mrep = [kv(r) for r in ml.split(" | ")] if ml.startswith("hdr=") else []
        diffs = []
        if len(mrep) != j.ndumps:
            diffs.append("model gave no answer: %s" % ml[:80])
        else:
            wh = ["after open", "after the first write call (and header update)", "after close"] if j.ndumps == 3 else ["after close"]
            for k, (b, m) in enumerate(zip(dumps, mrep)):
                h, t, dl = bytes.fromhex(m["hdr"]), bytes.fromhex(m.get("tail", "")), int(m["dlen"])
                stats["bytes_compared"] += len(h) + len(t)
                where = wh[k]
                if len(b) != len(h) + dl + len(t):
                    diffs.append("%s: %d bytes, model %d + %d + %d" % (where, len(b), len(h), dl, len(t)))
                elif b[:len(h)] != h:
                    x = next(q for q in range(len(h)) if b[q] != h[q])
                    diffs.append("%s: header byte %d is %02x, model %02x (impl %s model %s)" % (where, x, b[x], h[x], b[max(0, x - 8):x + 8].hex(), h[max(0, x - 8):x + 8].hex()))
                elif t and b[len(b) - len(t):] != t:
                    diffs.append("%s: tail %s, model %s" % (where, b[len(b) - len(t):].hex(), t.hex()))
        probs, kn = c04_predicate(ct, j, dumps[-1], reopen)
        for k in kn:
            known[k].append((j, name))
        if probs:
            pred.append((j, name, script, probs, reopen))
        elif diffs:
            corr.append((j, name, script, diffs, reopen))
        files.append((j, dumps[-2] if j.ndumps == 3 else None, dumps[-1], reopen))
        stats["images"] += j.ndumps
    return jobs, files, corr, pred, known, stats


def reader_campaign(ctx, ct, files, quick):
    rng = ctx.rng
    cases = []
    seen = set()
    per_fmt = collections.Counter()
    for (j, snap, final, reopen) in files:
        cases.append(("%s:final" % j.f.name, final))
        if snap is not None:
            cases.append(("%s:snap" % j.f.name, snap))
        key = (j.f.word, j.ch if j.ch < 3 else 3)
        if j.n > 16 or per_fmt[key] >= (1 if quick else 3):
            continue
        per_fmt[key] += 1
        for img in ((final,) if quick or snap is None else (final, snap)):
            for tag, m in ct.mutants(j, img, rng, not quick):
                if m not in seen:
                    seen.add(m)
                    cases.append(("%s:%s" % (j.f.name, tag), m))
    group = 40
    scripts = []
    for g in range(0, len(cases), group):
        L = []
        for (tag, m) in cases[g:g + group]:
            L += ["store s0 %s" % m.hex(), "open h0 s0 r", "close h0"]
        scripts.append(("parse-%s-%d" % (ct.name, g // group), "\n".join(L) + "\n"))
    impl = ctx.batch(scripts, workers=4)
    model = ctx.run_model(["small1", ct.name], "".join("parse %s\n" % (m.hex() or "-") for (_, m) in cases)).split("\n")
    stats = collections.Counter()
    bad = []
    for gi, (name, text) in enumerate(scripts):
        lines = impl.get(name, [])
        for k, (tag, m) in enumerate(cases[gi * group:(gi + 1) * group]):
            ci = gi * group + k
            il = lines[3 * k + 1] if 3 * k + 1 < len(lines) else "<missing>"
            ml = model[ci] if ci < len(model) else "<missing>"
            stats["parse_cases"] += 1
            ctx.distinct.add("%s:parse:%s" % (ct.name, tag.split(":", 1)[1].split("@")[0].split("=")[0][:12]))
            if ml == "unmodelled":
                stats["parse_unmodelled"] += 1
                continue
            if il.startswith("open=ok"):
                d = kv(il)
                want = "ok ch=%s sr=%s frames=%s fmt=%s" % (d["ch"], d["sr"], d["frames"], d["fmt"])
                stats["parse_ok"] += 1
            elif il.startswith("open=NULL"):
                want = "err"
                stats["parse_err"] += 1
            else:
                want = il
            if want != ml:
                bad.append((tag, m, il, ml))
    return bad, stats


def truncations(b, hdr_end, rng, full, always=()):
    cuts = list(range(0, min(len(b), hdr_end + 3) + 1))
    if len(cuts) > 200:
        keep = set(range(0, 64)) | set(always) | {hdr_end - 1, hdr_end, hdr_end + 1, hdr_end + 2}
        cuts = [c for c in cuts if c in keep or rng.random() < (0.05 if full else 0.01)]
    elif not full:
        r = rng.randrange(3)
        cuts = [c for c in cuts if c % 3 == r or c in always or c in (11, 12, hdr_end - 1, hdr_end)]
    return [("trunc@%d" % c, b[:c]) for c in cuts]


def put(b, off, data):
    return b[:off] + data + b[off + len(data):]


# ---------------------------------------------------------------- AVR

class Avr(Container):
    name, major = "avr", 0x12
    codecs = (0x01, 0x02, 0x05)

    def size_fields(self, job, final, fr):
        probs = []
        if len(final) != 128 + job.n * job.bw:
            probs.append("file length %d, header 128 + %d audio bytes expected" % (len(final), job.n * job.bw))
        if len(final) >= 30:
            fld = struct.unpack(">I", final[26:30])[0]
            if fld != fr % 2 ** 32:
                probs.append("frames field %d, the file holds %d frames" % (fld, fr))
        return probs

    def hdr_end(self, b):
        return 128

    def mutants(self, job, b, rng, full):
        out = truncations(b, 128, rng, full, always=(13, 14, 16, 18, 22, 25, 26, 30, 127))
        for v in (0, 1, 2, 0xFFFE, 0xFFFF, 0x8000, 0x0100):
            out.append(("mono=%d" % v, put(b, 12, struct.pack(">H", v))))
            out.append(("sign=%d" % v, put(b, 16, struct.pack(">H", v))))
        for v in (0, 1, 7, 8, 9, 12, 15, 16, 17, 24, 32, 0x0800, 0x1000, 0x8008, 0xFFFF):
            out.append(("rez=%d" % v, put(b, 14, struct.pack(">H", v))))
            out.append(("rez=%d,sign0" % v, put(put(b, 14, struct.pack(">H", v)), 16, b"\x00\x00")))
        for v in (0, 1, 0x7FFFFFFF, 0x80000000, 0xFFFFFFFF, rng.randrange(2 ** 32)):
            out.append(("srate=%d" % v, put(b, 22, struct.pack(">I", v))))
            out.append(("frames=%d" % v, put(b, 26, struct.pack(">I", v))))
        out.append(("name", put(b, 4, b"abcdefgh")))
        out.append(("ext+user", put(b, 44, bytes(rng.randrange(256) for _ in range(84)))))
        out.append(("append-1", b + b"\x01"))
        out.append(("append-3", b + b"\x01\x02\x03"))
        out.append(("not-2bit", b"2BIS" + b[4:]))
        return out


# ---------------------------------------------------------------- IRCAM

def f32_round(sr):
    """(int) (float) sr as the x86-64 conversions compute it; None when the result is not a positive int"""
    v = struct.unpack(">f", struct.pack(">f", float(sr)))[0]
    return int(v) if 1 <= v < 2 ** 31 else None


class Ircam(Container):
    name, major = "ircam", 0x0A
    codecs = (0x02, 0x04, 0x06, 0x10, 0x11)
    channels = (1, 2, 3, 127, 128, 200, 255, 256)

    def big(self, f):
        return f.endian == FM.BE

    def expected_word(self, f):
        return (0x20000000 if self.big(f) else 0x10000000) | (self.major << 16) | f.codec

    def expected_rate(self, job):
        """C04 allows the documented quantisation: the rate field is a binary32 number; rates that would round to 2^31 are stored as
        the largest binary32 below it (KF-C10-ircam-rate repaired).  KF-IRCAM-BE-CHANNELS is repaired too: nothing is waived here."""
        q = f32_round(job.sr)
        return q if q is not None else 2 ** 31 - 128

    def size_fields(self, job, final, fr):
        if len(final) != 1024 + job.n * job.bw:
            return ["file length %d, header 1024 + %d audio bytes expected" % (len(final), job.n * job.bw)]
        return []

    def hdr_end(self, b):
        return 1024

    def mutants(self, job, b, rng, full):
        out = truncations(b, 1024, rng, full, always=(12, 13, 15, 16, 17, 1023, 1024))
        big = self.big(job.f)
        pk = ">I" if big else "<I"
        for v in (0, 1, 2, 127, 128, 255, 256, 1024, 1025, 0x10000, 0x01000000, 0x80000000, 0xFFFFFFFF, 0x00040000, 0x00000400, 0x00000401, 0x01040000):
            out.append(("ch=%d" % v, put(b, 8, struct.pack(pk, v))))
            out.append(("ch-swapped=%d" % v, put(b, 8, struct.pack("<I" if big else ">I", v))))
        for v in (0, 2, 4, 0x10001, 0x20001, 0x40004, 0x40002, 1, 3, 0x02000000, 0x04000400, rng.randrange(2 ** 32)):
            out.append(("enc=%x" % v, put(b, 12, struct.pack(pk, v))))
            out.append(("enc-swapped=%x" % v, put(b, 12, struct.pack("<I" if big else ">I", v))))
        pats = [0, 0x80000000, 1, 0x007FFFFF, 0x00800000, 0x3F7FFFFF, 0x3F800000, 0x3FFFFFFF, 0x40000000, 0xBF800000, 0x4EFFFFFF, 0x4F000000, 0xCF000000, 0xCF000001,
                0x7F7FFFFF, 0x7F800000, 0x7FC00000, 0xFF800000, 0x7F800001, 0x4B7FFFFF, 0x4B800000, 0x46FFFE00, 0x3FC00000, 0x402FFFFF]
        pats += [rng.randrange(2 ** 32) for _ in range(8 if full else 3)]
        for v in pats:
            if (v >> 23) & 0xFF == 0 and v & 0x7FFFFF:
                continue          # subnormal patterns: how float32_*_read treats them is C20's subject (lean/SfModel/Ieee.lean), no rate >= 1 is one
            out.append(("rate=%08x" % v, put(b, 4, struct.pack(">I" if big else "<I", v))))
        for m in (b"\x64\xa3\x00\x00", b"\x64\xa3\x01\x00", b"\x64\xa3\x04\x00", b"\x64\xa3\x07\x00", b"\x64\xa3\x08\x00", b"\x00\x00\xa3\x64", b"\x00\x03\xa3\x64",
                  b"\x00\x07\xa3\x64", b"\x00\x08\xa3\x64", b"\x64\xa3\x02\x01", b"\x64\xa3\x03\x00", b"\x64\xa3\x02\x00"):
            out.append(("magic=%s" % m.hex(), m + b[4:]))
        out.append(("append-1", b + b"\x01"))
        out.append(("append-5", b + b"\x01\x02\x03\x04\x05"))
        return out


# ---------------------------------------------------------------- PAF

class Paf(Container):
    name, major = "paf", 0x05
    codecs = (0x01, 0x02, 0x03)
    channels = (1, 2, 3, 6)
    lengths = (0, 1, 2, 3, 5, 9, 10, 11, 20, 4097)

    def little(self, f):
        return f.endian in (FM.LE, FM.CPU)

    def expected_word(self, f):
        return (0x10000000 if self.little(f) else 0x20000000) | (self.major << 16) | f.codec

    def stored(self, job):
        if job.f.codec != 0x03:
            return [p * job.bw for p in job.parts], 0
        out, done, tot = [], 0, 0
        for p in job.parts:
            tot += p
            out.append((tot // 10 - done) * 32 * job.ch)
            done = tot // 10
        return out, (32 * job.ch if tot % 10 else 0)

    def max_frames(self, f, ch):
        # KF-PAF24-CHUNK (fixed in later trees): a write call of more than 2048 items splits a frame when the channel count
        # does not divide 2048, and the number of stored blocks is then off; the header side does not need long files
        return 2048 // ch if f.codec == 0x03 and 2048 % ch else 10 ** 9

    def frames_ok(self, job, fr):
        if job.f.codec == 0x03:
            return fr == 10 * ((job.n + 9) // 10)          # B = 10: N <= F < N + 10, whole blocks
        return fr == job.n

    def size_fields(self, job, final, fr):
        per_call, at_close = self.stored(job)
        want = 2048 + sum(per_call) + at_close
        if len(final) != want:
            return ["file length %d, header 2048 + %d audio bytes expected" % (len(final), want - 2048)]
        return []

    def hdr_end(self, b):
        return 2048

    def mutants(self, job, b, rng, full):
        out = truncations(b, 2048, rng, full, always=(12, 24, 27, 28, 2047, 2048))
        pk = "<I" if b[:4] == b"fap " else ">I"
        other = ">I" if pk == "<I" else "<I"
        for v in (0, 1, 2, 0x01000000, 0xFFFFFFFF):
            out.append(("version=%d" % v, put(b, 4, struct.pack(pk, v))))
            out.append(("endianness=%d" % v, put(b, 8, struct.pack(pk, v))))
        for v in (0, 1, 2, 3, 4, 0x02000000, 0xFFFFFFFF):
            out.append(("format=%d" % v, put(b, 16, struct.pack(pk, v))))
        for v in (0, 1, 2, 3, 1024, 1025, 0x7FFFFFFF, 0x80000000, 0xFFFFFFFF, 0x01000000):
            out.append(("ch=%d" % v, put(b, 20, struct.pack(pk, v))))
        for v in (0, 1, 0x7FFFFFFF, 0x80000000, 0xFFFFFFFF, rng.randrange(2 ** 32)):
            out.append(("sr=%d" % v, put(b, 12, struct.pack(pk, v))))
            out.append(("source=%d" % v, put(b, 24, struct.pack(pk, v))))
        out.append(("marker-swapped", (b" paf" if b[:4] == b"fap " else b"fap ") + b[4:]))
        out.append(("fields-swapped", b[:4] + b"".join(struct.pack(other, struct.unpack(pk, b[o:o + 4])[0]) for o in range(4, 28, 4)) + b[28:]))
        out.append(("marker-PAF", b" PAF" + b[4:]))
        for k in (1, 2, 31, 32, 33, 63, 64, 65, 96, 97):
            out.append(("append-%d" % k, b + bytes(range(k))))
        if len(b) > 2048 + 3:
            out.append(("cut-3", b[:-3]))
        return out


# ---------------------------------------------------------------- SVX

def iff_walk(b):
    """chunks (id, offset of the size field, size) of an IFF walk the way svx_read_header does it (no pad bytes)"""
    out, pos = [], 12
    while pos + 8 <= len(b):
        cid, size = b[pos:pos + 4], struct.unpack(">I", b[pos + 4:pos + 8])[0]
        out.append((cid, pos + 4, size))
        if cid == b"VHDR":
            pos += 8 + 20
        else:
            pos += 8 + size
    return out


class Svx(Container):
    name, major = "svx", 0x06
    codecs = (0x01, 0x02)
    channels = (1,)
    path_route = True

    def expected_rate(self, job):
        """the 16-bit field saturates (KF-RATE16-WRAP repaired: it used to hold the rate modulo 65536, 0 for multiples of 65536)"""
        return min(job.sr, 65535)

    def model_cfg(self, job):
        return "codec=%02x endian=%d ch=%d sr=%d" % (job.f.codec, job.f.endian >> 28, job.ch, job.sr)

    def size_fields(self, job, final, fr):
        probs = []
        if len(final) < 12 or struct.unpack(">I", final[4:8])[0] != (len(final) - 8) % 2 ** 32:
            probs.append("FORM size field %s, file length - 8 = %d" % (final[4:8].hex(), len(final) - 8))
        ch = iff_walk(final)
        body = [c for c in ch if c[0] == b"BODY"]
        if len(body) != 1 or body[0][2] != job.n * job.bw or body[0][1] + 4 + body[0][2] != len(final):
            probs.append("BODY chunk %s for %d audio bytes in a file of %d bytes" % (body, job.n * job.bw, len(final)))
        vh = [c for c in ch if c[0] == b"VHDR"]
        if len(vh) != 1 or struct.unpack(">I", final[vh[0][1] + 4:vh[0][1] + 8])[0] != fr % 2 ** 32:
            probs.append("VHDR oneShotHiSamples does not hold the %d frames of the file" % fr)
        nm = [c for c in ch if c[0] == b"NAME"]
        if len(nm) != 1 or final[nm[0][1] + 4:nm[0][1] + 4 + nm[0][2]].rstrip(b"\0") != job.fname:
            probs.append("NAME chunk does not hold the file name %r" % job.fname)
        return probs

    def mutants(self, job, b, rng, full):
        chunks = iff_walk(b)
        body = [c for c in chunks if c[0] == b"BODY"]
        hdr_end = body[0][1] + 4 if body else len(b)
        out = truncations(b, hdr_end, rng, True)
        for (cid, off, size) in [(b"FORM", 4, struct.unpack(">I", b[4:8])[0])] + chunks:
            for d in (-1, 1, 2, -8, 3):
                if 0 <= size + d < 2 ** 32:
                    out.append(("%s.size%+d" % (cid.decode("latin1"), d), put(b, off, struct.pack(">I", size + d))))
            out.append(("%s.size=huge" % cid.decode("latin1"), put(b, off, struct.pack(">I", rng.choice([0x7FFFFFFF, 0x80000000, 0xFFFF0000, 0xFFFEFFFF, 0xFFFFFFFF, 256, 255, 40000])))))
        bounds = [12] + [off + 4 + (20 if cid == b"VHDR" else size) for (cid, off, size) in chunks if cid != b"BODY"]
        ins = [b"AUTH\x00\x00\x00\x04abcd", b"(c) \x00\x00\x00\x02ab", b"CHAN\x00\x00\x00\x04\x00\x00\x00\x06", b"CHAN\x00\x00\x00\x04\x00\x00\x00\x02",
               b"CHAN\x00\x00\x00\x08\x00\x00\x00\x06abcd", b"CHAN\x00\x00\x00\x02\x00\x06", b"abcd\x00\x00\x00\x05hello", b"JUNK\x00\x00\x00\x00",
               b"ab\x01d\x00\x00\x00\x02xy", b"\x00\x00\x00\x00\x00\x00\x00\x00", b"\x01", b"\x01\x02\x03\x04\x05", b"NAME\x00\x00\x01\x00" + bytes(256), b"NAME\x00\x00\x00\xff" + b"n" * 255,
               b"FORM\x00\x00\x00\x048SVX", b"ANNO\x00\x00\x00\x03abc", b"VHDR\x00\x00\x00\x14" + bytes(12) + b"\x1f\x40\x01\x00\x00\x00\x00\xff", b"big!\x00\x00\x9c\x40" + bytes(40000),
               b"ATAK\x00\x00\x00\x06abcdef", b"odd1\x00\x00\x00\x03abc"]
        for p in bounds:
            for x in (ins if full else rng.sample(ins, 6)):
                out.append(("ins@%d:%s" % (p, x[:4].hex()), b[:p] + x + b[p:]))
        out.append(("append-chunk", b + b"tail\x00\x00\x00\x02ab"))
        out.append(("append-short", b + b"xy"))
        out.append(("append-4", b + b"wxyz"))
        vh = [c for c in chunks if c[0] == b"VHDR"]
        if vh:
            o = vh[0][1] + 4
            for v in (0, 1, 0xFFFF, 0x8000):
                out.append(("sps=%d" % v, put(b, o + 12, struct.pack(">H", v))))
            for v in (1, 2, 255):
                out.append(("compression=%d" % v, put(b, o + 15, bytes([v]))))
            out.append(("octave=3", put(b, o + 14, b"\x03")))
            out.append(("frames=rnd", put(b, o, struct.pack(">I", rng.randrange(2 ** 32)))))
            if body:
                v0, b0 = vh[0][1] - 4, body[0][1] - 4
                out.append(("body-before-vhdr", b[:v0] + b[b0:] + b[v0:b0]))
                out.append(("no-vhdr", b[:v0] + b[v0 + 28:]))
        out.append(("type-swapped", b[:8] + (b"16SV" if b[8:12] == b"8SVX" else b"8SVX") + b[12:]))
        out.append(("type=8SVY", b[:8] + b"8SVY" + b[12:]))
        out.append(("not-form", b"FORN" + b[4:]))
        return out


CONTAINERS = [Avr(), Ircam(), Paf(), Svx()]


def run(ctx, found=False):
    """called from vlib/props/c04.py after the other C04 campaigns; returns True when it reported a violation"""
    quick = ctx.tier == "quick"
    reported = False
    notes = {}
    for ct in CONTAINERS:
        fmts = ct.formats(ctx)
        if not fmts:
            continue
        jobs, files, corr, pred, known, wstats = writer_campaign(ctx, ct, fmts, quick)
        bad, rstats = reader_campaign(ctx, ct, files, quick)
        ctx.count(wstats["sessions"] * 9 + rstats["parse_cases"])
        ctx.coverage["traces_validated_against_impl"] += wstats["sessions"] + rstats["parse_cases"]
        notes[ct.name] = {"formats": [f.name for f in fmts], "writer": dict(wstats), "reader": dict(rstats),
                          "writer_disagreements": len(corr), "predicate_failures": len(pred), "reader_disagreements": len(bad),
                          "known_class_sessions": {k: len(v) for k, v in known.items()}}
        for kid, lst in known.items():
            kf = next((k for k in ctx.known if k["id"] == kid and k.get("status") == "known"), None)
            if kf:
                ctx.known_finding(kf)
            elif not reported:
                j, name = lst[0]
                reported = True
                ctx.violation("c04-%s-%s-%s" % (ct.name, kid, name), "# %s: the failure signature of %s appears but no known-finding entry with that id is recorded\n--- script\n%s" % (ct.name.upper(), kid, j.script()))
        for (j, name, script, probs, reopen) in pred[:3]:
            reported = True
            text = "# C04 violated on the implementation's own transcript (%s container campaign)\n# format %s, %d channel(s), %d Hz, %d frames\n# %s\n" % (
                ct.name.upper(), j.f.name, j.ch, j.sr, j.n, "; ".join(probs))
            if reopen:
                text += "observed-last %s\n" % reopen.strip()
            ctx.violation("c04-%s-%s" % (ct.name, name), text + "--- script\n" + script)
        if not reported and not found:
            if corr:
                j, name, script, diffs, reopen = corr[0]
                reported = True
                ctx.violation("c04-%s-correspondence-%s" % (ct.name, name),
                              "# correspondence stream '%s header writer (Sf.%s.hdr / session) vs %s_write_header' no longer agrees: %d of %d sessions differ\n"
                              "# first: %s\n# %s\n# the C04 predicate (re-open info, size fields) holds on the implementation's own transcripts: no failing input found\n"
                              "observed-last %s\n--- script\n%s" % (ct.name.upper(), ct.name.capitalize(), ct.name, len(corr), wstats["sessions"], name, "; ".join(diffs)[:1500], reopen.strip(), script), no_input=True)
            elif bad:
                tag, m, il, ml = bad[0]
                reported = True
                ctx.violation("c04-%s-parse-%s" % (ct.name, tag),
                              "# correspondence stream '%s reader (Sf.%s.parse) vs sf_open' no longer agrees: %d of %d files differ\n# first: %s\n# implementation: %s\n# model: %s\n"
                              "# these are hand-mutated files; the C04 predicate speaks about files the library wrote and holds on them: no failing input found\n"
                              "observed-last %s\n--- script\nstore s0 %s\nopen h0 s0 r\n" % (ct.name.upper(), ct.name.capitalize(), len(bad), rstats["parse_cases"], tag, il, ml, il.strip(), m.hex()), no_input=True)
        if jobs:
            ctx.sample({"kind": "%s session" % ct.name.upper(), "script": jobs[0].script()[:400], "model_request": jobs[0].model_line()[:300]})
    notes["rule"] = ("per container: every accepted (subtype, endian) x channels x rates {boundaries of the container's rate field, 16-bit / 24-bit / float32 "
                     "edges, seeded} x N {0,1,2,3,5,8,4097} (quick: rotating rates per (format, channels, N) plus every rate once per format; thorough: the full "
                     "product); three store images per session compared byte for byte outside the audio region; library files and their mutants parsed by both sides")
    ctx.notes["small1"] = notes
    return reported
