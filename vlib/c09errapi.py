"""C09: the public calls no campaign ever made (round 9 covgap) — sf_perror, sf_error_str, sf_write_sync (-> psf_fsync).

A. ERROR REPORTING (harness/errapi.c `perror`, `errstr`; Lean model Sf.ErrApi, `sfmodel errapi`)
   handle states: the NULL handle with sf_errno = 0 and after a failed open, read / write / rdwr handles without an error and with a
   pending error of every class C09 inserts (bad seek, bad whence, wrong mode, misaligned count, ...).  A closed (stale) handle is never
   used.  In each state: sf_error_str with buffer lengths 0, 1, 2, strlen - 1, strlen, strlen + 1 (exact), strlen + 2, strlen + 40 — on a
   heap block of EXACTLY that length (ASan) and on a block with a 32-byte guard band, compared byte for byte with the model's bounded
   copy of the error table's string (never more than len bytes written, terminated when len > 0); sf_error_str (NULL buffer) =
   SFE_INTERNAL; sf_perror: what reaches stderr = the table's string + newline, returns 0; after EVERY call sf_error / sf_strerror answer
   what they answered before (purity), and the audio call behind them behaves as in the run without them.
B. sf_write_sync TWIN RUNS: for the writable formats x {vio, fd, path} x {write, rdwr on a new file, read}: a valid history, and the
   same history with sf_write_sync after every call (also with a pending error, also on the NULL handle): every common line, the bytes of
   the closed file and info / audio of the re-opened file agree — the verdict is the Lean predicate `Sf.AbsTwin.twinOk` (sfmodel abs-twin).
"""
import re
from . import scripts as S, formats, abscheck, c09twin

FAILING = {   # (mode, label) -> a refused call that leaves a pending error on the handle
    "r": [("bad-seek", "seek h0 -3 0"), ("bad-whence", "seek h0 0 7"), ("write-on-read", "w h0 s16 i 1 0001"), ("wmode-seek", "seek h0 0 32"),
          ("neg-count", "r h0 s16 i -1"), ("past-end", "seek h0 99999 0")],
    "w": [("read-on-write", "r h0 s16 i 1"), ("bad-whence", "seek h0 0 67"), ("rmode-seek", "seek h0 0 16")],
    "rw": [("bad-whence", "seek h0 0 3"), ("before-start", "seek h0 -1 0")],
}
AUDIO_AFTER = {"r": "r h0 s16 i 2", "w": "w h0 s16 i 2 00010002", "rw": "w h0 s16 i 2 00010002"}


def _prefix(mode, ch2=False):
    """script lines that bring handle h0 into `mode` on a 2-channel 16-bit WAV"""
    mk = ["open h9 s0 w fmt=00010002 ch=2 sr=8000", "w h9 s16 i 8 00010002000300040005000600070008", "close h9"]
    if mode == "r":
        return mk + ["open h0 s0 r"]
    if mode == "w":
        return ["open h0 s0 w fmt=00010002 ch=2 sr=8000", "w h0 s16 i 4 0001000200030004"]
    return mk + ["open h0 s0 rw fmt=00010002 ch=2 sr=8000"]


def states():
    """(name, handle token, prefix lines, audio line behind the probes or None)"""
    out = [("null-fresh", "null", [], None),
           ("null-after-failed-open", "null", ["store s0 6e6f7420612066696c65", "open h0 s0 r"], None),
           ("null-after-bad-mode-open", "null", ["open h0 s0 77 fmt=00010002 ch=1 sr=8000"], None),
           ("null-after-bad-format-open", "null", ["open h0 s0 w fmt=00010099 ch=1 sr=8000"], None)]
    for mode in ("r", "w", "rw"):
        out.append(("%s-no-error" % mode, "h0", _prefix(mode), AUDIO_AFTER[mode]))
        for (label, op) in FAILING[mode]:
            out.append(("%s-pending-%s" % (mode, label), "h0", _prefix(mode) + [op], AUDIO_AFTER[mode]))
    return out


def run_error_api(ctx, rows, internal):
    """-> True if a violation was reported"""
    found = False
    sts = states()
    # phase 1: which error is pending in each state (from the library), hence the message and the interesting buffer lengths
    p1 = ctx.batch([(n, "\n".join(pre + ["strerror " + h]) + "\n") for (n, h, pre, _a) in sts], clean=True, workers=4)
    plans = []
    for (n, h, pre, audio) in sts:
        tr = p1.get(n, [])
        kv = abscheck.parse_kv(tr[-1]) if tr else {}
        if "err" not in kv:
            ctx.violation("c09errapi-" + n, "# C09: state %s: the prefix died or sf_strerror did not answer: %s\n--- script\n%s\n" % (n, tr[-2:], "\n".join(pre + ["strerror " + h])))
            return True
        err = int(kv["err"])
        msg = rows.get(err, b"")
        L = len(msg)
        if int(kv.get("msglen", "-1")) != L:
            ctx.violation("c09errapi-msglen-" + n, "# C09: sf_strerror's message has %s bytes, sf_error_number (%d) has %d\nexpect-last msglen=%d\n--- script\n%s\n"
                          % (kv.get("msglen"), err, L, L, "\n".join(pre + ["strerror " + h])))
            found = True
        lens = sorted(set([0, 1, 2, max(L - 1, 0), L, L + 1, L + 2, L + 40]))
        ops = list(pre) + ["strerror " + h]
        probes = []          # (index of the probe line, kind, len)
        for ln in lens:
            probes.append((len(ops), "errstr", ln))
            ops += ["errstr %s %d" % (h, ln), "strerror " + h]
        probes.append((len(ops), "perror", 0))
        ops += ["perror " + h, "strerror " + h]
        probes.append((len(ops), "nullbuf", 8))
        ops += ["errstr %s 8 nullbuf" % h, "strerror " + h]
        probes.append((len(ops), "wsync", 0))
        ops += ["wsync " + h, "strerror " + h]
        base_tail = []
        if audio:
            base_tail = [audio, "strerror " + h, "close h0", "dump s0"]
            ops += base_tail
        plans.append((n, h, pre, err, msg, ops, probes, base_tail))
    p2 = ctx.batch([(n, "\n".join(ops) + "\n") for (n, h, pre, err, msg, ops, probes, bt) in plans] +
                   [(n + "-base", "\n".join(pre + ["strerror " + h] + bt) + "\n") for (n, h, pre, err, msg, ops, probes, bt) in plans if bt], clean=True, workers=4)
    reqs, where = [], []
    for (n, h, pre, err, msg, ops, probes, bt) in plans:
        for (k, kind, ln) in probes:
            if kind == "errstr":
                reqs.append("errstr len=%d msg=%s buf=%s" % (ln, msg.hex(), "a5" * (ln + 32)))
                where.append((n, k))
            elif kind == "perror":
                reqs.append("perror msg=%s" % msg.hex())
                where.append((n, k))
            elif kind == "nullbuf":
                reqs.append("errstr-null internal=%d len=%d" % (internal, ln))
                where.append((n, k))
    model = dict(zip(where, [l for l in ctx.run_model(["errapi"], "\n".join(reqs) + "\n").split("\n") if l.strip()]))
    if len(model) != len(where):
        ctx.violation("c09errapi-driver", "sfmodel errapi answered %d of %d requests" % (len(model), len(where)), no_input=True)
        return True
    nprobe = 0
    errs = set()
    reported = [0]
    for (n, h, pre, err, msg, ops, probes, bt) in plans:
        tr = p2.get(n, [])
        errs.add(err)
        ctx.count(len(ops), "errapi:" + n)

        def bad(k, what, expect=None):
            reported[0] += 1
            if reported[0] > 3:            # one defect shows in every state: three replays are enough
                return
            ctx.violation("c09errapi-%s-%d" % (n, k), "# C09 (sf_perror / sf_error_str / sf_write_sync): state %s, pending error %d (%s)\n# %s\n%s--- script\n%s\n"
                          % (n, err, msg.decode("latin1"), what, ("expect-last %s\n" % expect) if expect else "", "\n".join(ops[:k + 1])))
        if len(tr) < len(ops):
            dead = [l for l in tr if l.startswith(("CRASH", "ABORT", "TIMEOUT"))]
            bad(min(len(tr), len(ops) - 1), "the script died: %s" % (dead[:1] or "transcript short"))
            found = True
            continue
        first = tr[len(pre)]
        ok = True
        for (k, kind, ln) in probes:
            nprobe += 1
            kv = abscheck.parse_kv(tr[k])
            want_state = "err=%d msglen=%d" % (err, len(msg))
            if kind in ("errstr", "perror", "nullbuf"):
                mkv = abscheck.parse_kv(model[(n, k)])
                if kv.get("ret") != mkv.get("ret"):
                    bad(k, "`%s` returned %s, the model %s" % (ops[k], kv.get("ret"), mkv.get("ret")), "ret=%s " % mkv.get("ret")); ok = False; break
                if kind == "errstr" and (kv.get("buf") != mkv.get("buf") or kv.get("same") != "1"):
                    got, want = kv.get("buf", ""), mkv.get("buf", "")
                    d = next((i // 2 for i in range(0, min(len(got), len(want)), 2) if got[i:i + 2] != want[i:i + 2]), min(len(got), len(want)) // 2)
                    bad(k, "sf_error_str with maxlen %d: the caller's block (maxlen bytes + 32 guard bytes, 0xA5 before the call) differs from the bounded copy of the "
                           "table's string at byte %d%s (exact-size block agrees with the guarded one: %s)" % (ln, d, " — BEHIND the maxlen bytes" if d >= ln else "", kv.get("same")),
                        "buf=" + want); ok = False; break
                if kind == "perror" and kv.get("out") != mkv.get("out"):
                    bad(k, "sf_perror wrote %r to stderr, the model %r" % (bytes.fromhex(kv.get("out", "")), bytes.fromhex(mkv.get("out", ""))), "out=" + mkv.get("out", "")); ok = False; break
            if kv.get("err") != str(err):
                bad(k, "`%s` changed sf_error from %d to %s" % (ops[k], err, kv.get("err")), "err=%d" % err); ok = False; break
            if tr[k + 1] != first:
                bad(k + 1, "after `%s` sf_error / sf_strerror answer `%s`, before it `%s`" % (ops[k], tr[k + 1], first), want_state); ok = False; break
        if ok and bt:
            b = p2.get(n + "-base", [])
            tail_t, tail_b = tr[len(ops) - len(bt):], b[len(pre) + 1:]
            for j in range(len(bt)):
                if j >= len(tail_b) or tail_t[j] != tail_b[j]:
                    bad(len(ops) - len(bt) + j, "`%s` answers `%s` behind the reporting calls, `%s` without them" % (bt[j][:60], tail_t[j][:200], (tail_b[j] if j < len(tail_b) else "(nothing)")[:200]))
                    ok = False
                    break
        if not ok:
            found = True
    ctx.notes["errapi"] = {"states": len(plans), "failing_states": reported[0], "probes": nprobe, "distinct_pending_errors": len(errs), "model_requests": len(reqs)}
    ctx.coverage["traces_validated_against_impl"] += len(plans)
    return found


# ---- B: sf_write_sync twins ----------------------------------------------------------------------------------------------------
def sync_history(rng, f, ch, mode, route):
    """-> base lines. handles: h0 the handle under test; the file is dumped after the close and re-opened."""
    ty = "s16" if f.codec not in (0x06, 0x07) else "f32"
    rt = "" if route == "vio" else " route=" + route
    A, B = rng.choice([1, 5, 33]), rng.choice([2, 6, 70])
    wl = lambda n: S.w_line("h0", ty, "f", n, S.rand_values(rng, ty, n * ch, "unit"))
    L = []
    if mode == "w":
        L += ["open h0 s0 w fmt=%08x ch=%d sr=8000%s" % (f.word, ch, rt), "setstr h0 1 7469746c65", wl(A), "seek h0 0 7", "strerror h0", wl(B), "info h0", "close h0", "dump s0"]
    elif mode == "rw":
        L += ["open h0 s0 rw fmt=%08x ch=%d sr=8000%s" % (f.word, ch, rt), wl(A), "seek h0 0 16", "r h0 %s f %d" % (ty, A), "seek h0 -1 0", "strerror h0", "seek h0 0 34", wl(B), "info h0", "close h0", "dump s0"]
    else:
        L += ["open h1 s0 w fmt=%08x ch=%d sr=8000" % (f.word, ch), S.w_line("h1", ty, "f", A + B, S.rand_values(rng, ty, (A + B) * ch, "unit")), "close h1",
              "open h0 s0 r%s" % rt, "r h0 %s f %d" % (ty, A), "seek h0 0 7", "strerror h0", "r h0 %s f %d" % (ty, B + 3), "seek h0 1 0", "r h0 s32 f 2", "info h0", "close h0", "dump s0"]
    raw = f.major == 0x04
    L += [("open h2 s0 r fmt=%08x ch=%d sr=8000" % (f.word, ch)) if raw else "open h2 s0 r", "info h2", "r h2 %s f %d" % (ty, A + B + 4), "close h2"]
    return L


def run_sync_twins(ctx, quick):
    rng = ctx.rng
    fs = [f for f in formats.writable_formats(ctx) if f.major != 0x16]
    groups = {}
    for f in fs:
        groups.setdefault((f.major, f.codec), []).append(f)
    picks = [rng.choice(v) for (_k, v) in sorted(groups.items())]
    if quick:
        picks = picks[rng.randrange(3)::3]
    jobs = []
    for f in picks:
        ch = min(rng.choice([1, 2]), f.maxch)
        for mode in ("w", "rw", "r"):
            if mode == "rw" and not f.granular:
                continue
            route = rng.choice(["vio", "fd", "path", "fd0"]) if not (f.major == 0x04 and mode != "w") else "vio"
            base = sync_history(rng, f, ch, mode, route)
            twin, kept = [], []
            for l in base:
                kept.append(len(twin))
                twin.append(l)
                t = l.split()
                if t[0] in ("open", "w", "r", "seek", "setstr", "info", "strerror") and t[1] in ("h0",):
                    twin.append("wsync h0")
                    if rng.random() < 0.2:
                        twin.append("wsync null")
            jobs.append(("sync-%s-%d-%s-%s" % (f.name, ch, mode, route), f, ch, mode, base, twin, kept))
    out = ctx.batch([(n + "-twin", "\n".join(tw) + "\n") for (n, f, ch, mode, b, tw, k) in jobs] + [(n + "-base", "\n".join(b) + "\n") for (n, f, ch, mode, b, tw, k) in jobs], workers=6)
    recs, who = [], {}
    found = False
    nsync = 0
    for (n, f, ch, mode, base, twin, kept) in jobs:
        tout, bout = c09twin._filter(out.get(n + "-twin", [])), c09twin._filter(out.get(n + "-base", []))
        ctx.count(len(twin), "sync:%s:%s" % (f.name, mode))
        nsync += len(twin) - len(base)
        if len(tout) < len(twin) or len(bout) < len(base):
            if len(bout) >= len(base) and not found:
                ctx.violation("c09sync-" + n, "# C09: the history with sf_write_sync calls died or ended early (%s), the history without them did not\n--- script\n%s\n" % (tout[-1:], "\n".join(twin)))
                found = True
            continue
        if not bout[0].startswith("open=ok") and mode != "r":
            continue
        recs.append(c09twin.driver_input(n, twin, tout, base, bout, {}, kept, ch))
        who[n] = (f, ch, mode, base, twin, kept, tout, bout)
    verdicts, rc, err = c09twin.run_driver(ctx, "".join(recs))
    if rc != 0 or len(verdicts) != len(who):
        ctx.violation("c09sync-driver", "sfmodel abs-twin failed: rc=%d, %d verdicts for %d records; %s" % (rc, len(verdicts), len(who), err), no_input=True)
        return True
    nbad = 0
    for name, (status, detail) in verdicts.items():
        if status == "ok":
            continue
        nbad += 1
        if nbad > 3:
            continue
        f, ch, mode, base, twin, kept, tout, bout = who[name]
        kv = abscheck.parse_kv(detail)
        k = int(kv.get("k", "0"))
        bi = kept.index(k) if k in kept else 0
        ctx.violation("c09sync-" + re.sub(r"\W+", "_", name), "# C09: sf_write_sync is not neutral (%s, mode %s): clause %s\n# line `%s` answers `%s` with the sf_write_sync calls, `%s` without them\n--- script\n%s\n"
                      % (f.name, mode, kv.get("clause", "?"), twin[k][:70], tout[k][:200], bout[bi][:200], "\n".join(twin[:k + 1])))
        found = True
    ctx.notes["write_sync_twins"] = {"twins": len(who), "sync_calls_inserted": nsync, "rejected_by_lean_predicate": nbad, "formats": len(picks)}
    ctx.coverage["traces_validated_against_impl"] += len(who)
    return found


def run(ctx, quick, rows):
    consts = {}
    for line in ctx.run_sfh(["c03consts"], "").stdout.split("\n"):
        p = line.split()
        if len(p) == 2 and p[1].lstrip("-").isdigit():
            consts[p[0]] = int(p[1])
    internal = consts.get("SFE_INTERNAL")
    if internal is None:
        ctx.violation("c09errapi-consts", "sfh c03consts does not name SFE_INTERNAL", no_input=True)
        return True
    a = run_error_api(ctx, rows, internal)
    b = run_sync_twins(ctx, quick)
    return a or b
