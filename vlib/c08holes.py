"""C08 — HOLE histories: a write or an extending SFC_FILE_TRUNCATE beyond the end of the data.

"writing at or past the end extends the frame count": the frames between the old end and the write position were written by
nobody.  On every route the bytes of the gap are zero (a sparse region of a real file; the memory SF_VIRTUAL_IO of the harness
zero-fills, harness/vio.c), and for the encodings whose all-zero sample IS the value 0 — signed PCM of every width, float,
double (lean/SfProps/C08Holes.lean `holeZeroFor` / `decode_zeros`; NOT unsigned 8-bit PCM, µ-law or A-law) — the gap reads back
as zero frames.  The histories are judged by the Lean predicate `Sf.Abs.check` with `holezero=<ty>` in the geometry line for
those encodings (the reference stream stays known across the hole: `writeAt 0 …` / `upTo 0 …` in SfModel/Abs.lean) and with
no hole claim for the others (counts, positions and the frames outside the gap are still judged); the generator's own abstract
file runs beside it as a cross-check, exactly as in vlib/props/c08.py.

Histories (every sample-granular container that opens SFM_RDWR, virtual I/O and descriptor routes, 1-3 channels):
  gap-w      open w; write k; seek k+g (plain SEEK_SET); write m; close; re-open r; read everything
  gap-rw     open rw (empty); write k; seek k+g with SFM_WRITE; probes (the read pointer must not move); write m; read everything through the read pointer; probes; overwrite
             one frame INSIDE the gap; read it; close; re-open r; read everything
  gap-end    pre-populated file; open rw; SEEK_END|SFM_WRITE +g; write m; read from 0; close; re-open r; read everything
  gap-idle   open rw on a pre-populated file; seek past the end; close without writing: nothing may change
  ext-trunc  (descriptor routes) write k; SFC_FILE_TRUNCATE to k+g; info; read from 0; write m at the new end; close; re-open
"""
import struct
from . import scripts as S, formats, geometry as G, abscheck, kernels as K, abslean, absreplay

DIG = K.TY_DIGITS
ZERO_CODECS = (0x01, 0x02, 0x03, 0x04, 0x06, 0x07)      # signed PCM, float, double: zero bytes decode to the value 0


def hole_zero(f):
    return f.codec in ZERO_CODECS


class File:
    """the abstract file with holes: a frame is a tuple of item hex strings, or None where nobody wrote and zero bytes do not
    decode to zero"""

    def __init__(self, ch, ty, zero):
        self.ch, self.ty, self.zero = ch, ty, zero
        self.frames = []
        self.rpos = self.wpos = 0

    def gap(self):
        return tuple(["0" * DIG[self.ty]] * self.ch) if self.zero else None

    def extend_to(self, n):
        if n > len(self.frames):
            self.frames += [self.gap()] * (n - len(self.frames))

    def write(self, items):
        k = len(items) // self.ch
        self.extend_to(self.wpos)
        for j in range(k):
            fr = tuple(items[j * self.ch:(j + 1) * self.ch])
            if self.wpos + j < len(self.frames):
                self.frames[self.wpos + j] = fr
            else:
                self.frames.append(fr)
        self.wpos += k


class Hist:
    def __init__(self, rng, f, ch, ty, lowzero, route):
        self.rng, self.f, self.ch, self.ty, self.lowzero, self.route = rng, f, ch, ty, lowzero, route
        self.A = File(ch, ty, hole_zero(f))
        self.L, self.expect = [], []
        self.hn = 0
        self.rt = "" if route == "vio" else " route=%s" % route

    def emit(self, line, chk=None):
        self.L.append(line)
        self.expect.append(chk)

    def vals(self, k):
        v = S.rand_values(self.rng, self.ty, k * self.ch, "unit")
        if self.ty in ("s16", "s32") and self.lowzero:
            mask = ((1 << (16 if self.ty == "s16" else 32)) - 1) ^ ((1 << self.lowzero) - 1)
            v = [x & mask for x in v]
        # never a zero item: a frame that reads back as zero must be a hole, not data
        return [x if x else (1 << (self.lowzero or 0)) for x in v]

    def opn(self, mode):
        self.hn += 1
        h = "h%d" % (self.hn % 8)
        A = self.A
        F = len(A.frames)
        if mode == "r" and self.f.major != 0x04:
            line = "open %s s0 r%s" % (h, self.rt)
        else:
            line = "open %s s0 %s fmt=%08x ch=%d sr=8000%s" % (h, mode, self.f.word, self.ch, self.rt)

        def chk(out, F=F, mode=mode):
            if "open=NULL" in out:
                return "SKIP" if mode == "rw" else "open for %s failed: %s" % (mode, out)
            kv = abscheck.parse_kv(out)
            if mode != "w" and int(kv.get("frames", -1)) != F:
                return "open (%s) reports %s frames, the file holds %d" % (mode, kv.get("frames"), F)
            return None
        self.emit(line, chk)
        if mode == "w":
            A.frames, A.rpos, A.wpos = [], 0, 0
        else:
            A.rpos, A.wpos = 0, len(A.frames)
        return h

    def write(self, h, k):
        v = self.vals(k)
        items = ["%0*x" % (DIG[self.ty], x) for x in v]
        unit = self.rng.choice("if")
        n = k if unit == "f" else k * self.ch
        self.emit(S.w_line(h, self.ty, unit, n, v),
                  lambda out, n=n, k=k: None if (abscheck.parse_kv(out).get("ret"), abscheck.parse_kv(out).get("err")) == (str(n), "0")
                  else "write of %d frames returned %s" % (k, out[:60]))
        self.A.write(items)

    def seek(self, h, off, whence, target):
        """a seek the history relies on: past-the-end targets must be accepted for the gap to exist"""
        def chk(out, target=target):
            kv = abscheck.parse_kv(out)
            if kv.get("ret") != str(target):
                return "seek to frame %d (beyond or at the end, write pointer) returned %s" % (target, kv.get("ret"))
            return None
        self.emit("seek %s %d %d" % (h, off, whence), chk)
        q = whence & 0x30
        if q in (0, 0x30):
            self.A.rpos = self.A.wpos = target
        elif q == 0x10:
            self.A.rpos = target
        else:
            self.A.wpos = target

    def read(self, h, k):
        A = self.A
        unit = self.rng.choice("if")
        p, F = A.rpos, len(A.frames)
        d = max(0, min(k, F - p))
        want = A.frames[p:p + d]
        ch, ty = self.ch, self.ty

        def chk(out, k=k, d=d, want=want, unit=unit, p=p, F=F):
            kv = abscheck.parse_kv(out)
            ret = int(kv.get("ret", -99))
            got = abscheck.split_items(kv.get("data", ""), ty)
            if ret != (d if unit == "f" else d * ch):
                return "read of %d frames at read position %d (file has %d frames) returned %s, want %d frames" % (k, p, F, kv.get("ret"), d)
            for j, fr in enumerate(want):
                if fr is None:
                    continue
                g = tuple(got[j * ch:(j + 1) * ch])
                if g != fr:
                    return "read at read position %d: frame %d reads %s, the file holds %s there%s" % (
                        p, p + j, "/".join(g), "/".join(fr), " (a frame nobody wrote: zero bytes)" if all(set(x) == {"0"} for x in fr) else "")
            if kv.get("err") != "0":
                return "valid read left error %s" % kv.get("err")
            return None
        self.emit("r %s %s %s %d" % (h, ty, unit, k if unit == "f" else k * ch), chk)
        A.rpos = p + d

    def probes(self, h):
        self.emit("seek %s 0 %d" % (h, 0x11), lambda out, r=self.A.rpos: None if abscheck.parse_kv(out).get("ret") == str(r) else "read position probe says %s, want %d" % (abscheck.parse_kv(out).get("ret"), r))
        self.emit("seek %s 0 %d" % (h, 0x21), lambda out, w=self.A.wpos: None if abscheck.parse_kv(out).get("ret") == str(w) else "write position probe says %s, want %d" % (abscheck.parse_kv(out).get("ret"), w))

    def info(self, h):
        self.emit("info %s" % h, lambda out, F=len(self.A.frames): None if abscheck.parse_kv(out).get("frames") == str(F)
                  else "the handle reports %s frames, the file holds %d" % (abscheck.parse_kv(out).get("frames"), F))

    def trunc(self, h, n):
        self.emit("cmd %s 1080 8 %s" % (h, struct.pack("<q", n).hex()),
                  lambda out: None if abscheck.parse_kv(out).get("ret") == "0" else "SFC_FILE_TRUNCATE returned %s" % out[:50])
        A = self.A
        if n <= len(A.frames):
            A.frames = A.frames[:n]
        else:
            A.extend_to(n)
        A.rpos = A.wpos = n

    def finish(self, h):
        self.emit("close %s" % h)
        h = self.opn("r")
        self.read(h, len(self.A.frames) + 3)
        self.emit("close %s" % h)
        return "\n".join(self.L) + "\n", self.expect


def gen(rng, f, ch, ty, lowzero, route, kind):
    H = Hist(rng, f, ch, ty, lowzero, route)
    k = rng.choice([0, 1, 2, 3, 5, 8])
    g = rng.choice([1, 1, 2, 3, 7, 100, 1000, 4097])
    m = rng.choice([1, 2, 3, 5])
    if kind == "gap-w":
        h = H.opn("w")
        if k:
            H.write(h, k)
        H.seek(h, k + g, 0, k + g)
        H.write(h, m)
        return H.finish(h)
    if kind == "gap-rw":
        h = H.opn("rw")
        if k:
            H.write(h, k)
        H.seek(h, k + g, 0x20, k + g)
        H.probes(h)                              # the read pointer has not moved
        H.write(h, m)
        H.info(h)
        H.probes(h)
        H.seek(h, 0, 0x10, 0)
        H.read(h, k + g + m + 2)
        H.probes(h)
        p = k + rng.randrange(g)                 # a frame inside the gap
        H.seek(h, p, 0x20, p)
        H.write(h, 1)
        H.seek(h, max(p - 1, 0), 0x10, max(p - 1, 0))
        H.read(h, 3)
        H.info(h)
        return H.finish(h)
    if kind in ("gap-end", "gap-idle"):
        k = max(k, 1)
        h = H.opn("w")
        H.write(h, k)
        H.emit("close %s" % h)
        h = H.opn("rw")
        if kind == "gap-idle":
            H.seek(h, g, 0x22, k + g)
            H.info(h)
            H.probes(h)
            H.read(h, k + 1)                     # through the untouched read pointer: the whole old file
            return H.finish(h)
        H.seek(h, g, 0x22, k + g)
        H.probes(h)
        H.write(h, m)
        H.info(h)
        H.read(h, k + g + m + 2)                 # the read pointer is still at 0
        H.probes(h)
        return H.finish(h)
    if kind == "ext-trunc":
        h = H.opn("rw")
        if k:
            H.write(h, k)
        H.trunc(h, k + g)
        H.info(h)
        H.probes(h)
        H.seek(h, 0, 0x10, 0)
        H.read(h, k + g + 2)
        H.write(h, m)
        H.info(h)
        return H.finish(h)
    raise ValueError(kind)


KINDS = ["gap-w", "gap-rw", "gap-end", "gap-idle", "ext-trunc"]


def geom_for(f, ch, ty, route):
    return abslean.geom_line(ch, 0, "w", trunc=(route != "vio"), strict=True, lossless=[ty], holezero=[ty] if hole_zero(f) else ())


def run(ctx, fs, found=False):
    """the hole histories of C08; returns True when a violation was reported"""
    rng = ctx.rng
    quick = ctx.tier == "quick"
    jobs = []
    for f in fs:
        loss = G.lossless_types(f)
        for kind in KINDS:
            routes = ["fd"] if kind == "ext-trunc" else (["vio", "fd"] if not quick else [rng.choice(["vio", "fd"])])
            for route in routes:
                ty = rng.choice(sorted(loss))
                ch = min(rng.choice([1, 1, 2, 3]), f.maxch)
                script, expect = gen(rng, f, ch, ty, loss[ty], route, kind)
                jobs.append((f, ch, ty, route, kind, script, expect))
    out = ctx.batch([("hole-%s-%s-%d" % (j[0].name, j[4], i), j[5]) for i, j in enumerate(jobs)], clean=True)
    judge = abslean.Judge(ctx)
    for i, (f, ch, ty, route, kind, script, expect) in enumerate(jobs):
        name = "hole-%s-%s-%d" % (f.name, kind, i)
        judge.add(name, geom_for(f, ch, ty, route), {}, None, abslean._alive_pairs(script.strip().split("\n"), out.get(name, []), 0))
    verdicts = judge.run()
    reported = set()
    stats = {"histories": len(jobs), "judged_lines": 0, "skipped_at_open": 0, "hole_zero_claimed": 0, "by_kind": {}}
    for i, (f, ch, ty, route, kind, script, expect) in enumerate(jobs):
        name = "hole-%s-%s-%d" % (f.name, kind, i)
        lines = out.get(name, [])
        sl = script.strip().split("\n")
        ctx.count(len(sl))
        stats["judged_lines"] += len(sl)
        stats["by_kind"][kind] = stats["by_kind"].get(kind, 0) + 1
        stats["hole_zero_claimed"] += 1 if hole_zero(f) else 0
        dead = [l for l in lines if l.startswith(("CRASH", "ABORT", "TIMEOUT"))]
        pyprob, skip = None, False
        for k, chk in enumerate(expect):
            if k >= len(lines):
                pyprob = (k, "transcript ends early: %s" % (dead[:1] or lines[-1:]))
                break
            if chk is None:
                continue
            r = chk(lines[k])
            if r == "SKIP":
                skip = True
                break
            if r:
                pyprob = (k, r)
                break
        v = verdicts[name]
        if skip or v.status == "skip":
            stats["skipped_at_open"] += 1
            if skip != (v.status == "skip"):
                judge.disagreement(name, [v.status], "SKIP" if skip else None)
            continue
        lean_first = v.first()
        same = ((lean_first is None) == (pyprob is None)) and (lean_first is None or pyprob is None or lean_first[0] == pyprob[0])
        if not same:
            judge.disagreement(name, [v.status] + [list(x) for x in v.fails[:2]], list(pyprob) if pyprob else None)
        prob, leantag = None, None
        if lean_first is not None:
            k, leantag, text = lean_first
            prob = (k, "Lean predicate Sf.Abs.check: clause `%s` fails: %s%s" % (leantag, text.strip(), (" | generator's expectation: " + pyprob[1]) if pyprob and pyprob[0] == k else ""))
        elif pyprob is not None:
            prob = (pyprob[0], "generator's expectation only (Sf.Abs.check accepted the history): " + pyprob[1])
        if not prob:
            ctx.distinct.add("hole:%s:%s" % (f.name, kind))
            continue
        key = (f.name.split("-")[0], kind)
        if key in reported or len(reported) >= 6:
            continue
        reported.add(key)
        found = True
        geom = geom_for(f, ch, ty, route)
        body = (absreplay.plain_replay(script, prob[0], geom, 0, clause=leantag) if leantag is not None
                else "observed-last %s\n--- script\n%s" % ((lines[prob[0]] if prob[0] < len(lines) else "").strip(), "\n".join(sl[:prob[0] + 1]) + "\n"))
        ctx.violation("c08-hole-%s-%s" % (f.name, kind),
                      "# C08 violated on a HOLE history (%s): a write / truncate beyond the end of the data\n# format %s, %d channel(s), type %s, route %s; zero bytes decode to zero: %s\n# at script line %d: %s\n# %s\n%s"
                      % (kind, f.name, ch, ty, route, "yes" if hole_zero(f) else "no (gap content not judged)", prob[0], sl[prob[0]][:100] if prob[0] < len(sl) else "", prob[1], body))
    ctx.notes["holes"] = stats
    return found
