"""C02 for EVERY codec and for type switching (lean/SfModel/CrossType.lean decides, `sfmodel crosstype`).

For every writable (major, subtype, endian):
  (W) twin files: ints x vs shorts x asr 16 (codecs whose sample is no wider than a short; G.711: quotient truncated toward
      zero), shorts s vs ints s << 16 (every integer codec), floats / doubles vs the ints `Sf.CrossType.floatTwin` (the
      rounded product in the top bits; computed by `sfmodel crosstype twins`, re-checked by the judge) — the two closed
      files must be identical byte for byte;
  (R) the four sequential reference streams (one per caller type, normalisation on and off) agree item by item;
  (S) seeded read plans that switch the caller type at arbitrary positions (inside codec blocks, right after seeks) on ONE
      handle, every call compared with the slice of ITS type's reference stream at the handle's position.
The campaign needs no harness additions (open / w / cmd / close / dump / r / seek)."""
import math, time, random, concurrent.futures
from . import formats, kernels as K, readcamp

TYS = ["s16", "s32", "f32", "f64"]
DIG = {"s16": 4, "s32": 8, "f32": 8, "f64": 16}

# codec -> (kind, w, fw, noff, scale, trunc); see Sf.CrossType.Codec.  Written from the format definitions and the conversion
# constants of each codec's read_f / write_f (src/*.c `normfact`), NOT measured.
CODEC = {
    0x01: ("int", 8, 8, 24, 0x7F, 0), 0x05: ("int", 8, 8, 24, 0x7F, 0), 0x02: ("int", 16, 16, 16, 0x7FFF, 0),
    0x03: ("int", 24, 24, 8, 0x7FFFFF, 0), 0x04: ("int", 32, 32, 0, 0x7FFFFFFF, 0),
    0x06: ("flt", 32, 32, 0, 1, 0), 0x07: ("dbl", 32, 32, 0, 1, 0),
    0x10: ("g711", 16, 16, 16, 0x7FFF, 0), 0x11: ("g711", 16, 16, 16, 0x7FFF, 0),
    0x12: ("int", 16, 16, 16, 0x7FFF, 0), 0x13: ("int", 16, 16, 16, 0x7FFF, 0),
    0x20: ("int", 16, 16, 16, 0x7FFF, 0), 0x21: ("int", 16, 16, 16, 0x7FFF, 0),
    0x22: ("int", 16, 16, 16, 0x8000, 0), 0x23: ("int", 16, 16, 16, 0x8000, 0), 0x24: ("int", 16, 16, 16, 0x8000, 0),
    0x30: ("int", 16, 16, 16, 0x8000, 0), 0x31: ("int", 16, 16, 16, 0x8000, 0), 0x32: ("int", 16, 16, 16, 0x8000, 0),
    0x40: ("int", 12, 32, 0, 0x7FFFFFFF, 0), 0x41: ("int", 16, 32, 0, 0x7FFFFFFF, 0), 0x42: ("int", 24, 32, 0, 0x7FFFFFFF, 0),
    0x50: ("int", 8, 8, 24, 0x7F, 0), 0x51: ("int", 16, 16, 16, 0x7FFF, 0),
    0x70: ("int", 16, 32, 0, None, 0), 0x71: ("int", 20, 32, 0, None, 0), 0x72: ("int", 24, 32, 0, None, 0), 0x73: ("int", 32, 32, 0, None, 0),
}
SDS_BITS = {0x01: 8, 0x02: 16, 0x03: 24}


def codec_of(fmt):
    """(kind, w, fw, noff, scale|None, trunc, woff): scale None = the float write rule of this codec is not stated here (no W-float twin);
    woff = log2 of the float write factor with normalisation off"""
    c = fmt.codec
    if fmt.major == 0x11 and c in SDS_BITS:          # SDS packs 7 bits per byte: 2 / 3 / 4 bytes per sample = 14 / 21 / 28 bits of the int
        bw = SDS_BITS[c]
        return ("int", {8: 14, 16: 21, 24: 28}[bw], 32, bw, 0x80000000, 1, bw)
    if fmt.major == 0x05 and c == 0x03:              # PAF 24-bit block codec: ints, 0x7FFFFFFF, norm off: read 1/256, write 256
        return ("int", 24, 32, 8, 0x7FFFFFFF, 0, 8)
    cd = CODEC.get(c)
    return cd + (0,) if cd else None


def codec_line(cd, ch, norm=1, normD=None):
    kind, w, fw, noff, scale, trunc, woff = cd
    return "codec kind=%s w=%d fw=%d noff=%d scale=%d trunc=%d woff=%d ch=%d normF=%d normD=%d" % (kind, w, fw, noff, scale or 0, trunc, woff, ch, norm, norm if normD is None else normD)


# the four settings of (SFC_SET_NORM_FLOAT, SFC_SET_NORM_DOUBLE): record suffix -> (plan handle, normF, normD).  "on" / "off" are the two
# equal settings; "mixfd" / "mixdf" the two in which the switches DIFFER on one handle (a reader that looks at the wrong switch, a
# command that restores the wrong one, only shows there)
SETTINGS = [("on", "h7", 1, 1), ("off", "h8", 0, 0), ("mixfd", "h9", 0, 1), ("mixdf", "h10", 1, 0)]


def queries(h, ch, rng):
    """state-READING commands a caller may issue between reads: they must not change what the following reads deliver
    (Sf.CrossTypeQ: a plan with queries is accepted iff the plan without them is).  The four SFC_CALC_* scans come first: they
    switch norm_double themselves and have to put it back."""
    calc = ["cmd %s 1040 8 zero" % h, "cmd %s 1041 8 zero" % h, "cmd %s 1042 %d zero" % (h, 8 * ch), "cmd %s 1043 %d zero" % (h, 8 * ch)]
    other = ["cmd %s 1010 0 null" % h, "cmd %s 1011 0 null" % h, "cmd %s 1044 8 zero" % h, "cmd %s 1045 %d zero" % (h, 8 * ch), "cmd %s 10c1 0 null" % h,
             "info %s" % h]
    rng.shuffle(calc)
    return calc, other


def narrows(cd):
    return (cd[0] == "int" and cd[1] <= 16) or cd[0] == "g711"


def narrow_of(cd, x):
    if cd[0] == "g711":
        # sign and magnitude: the magnitude loses its low 16 bits, the sign stays (-1 stands for "negative, magnitude 0")
        return min(-1, -((-x) >> 16)) if x < 0 else x >> 16
    return x >> 16


# ---------------------------------------------------------------- values

def int_values(rng, n):
    """caller ints that exercise the narrowing: a slowly moving top half (so that the lossy coders track it) with arbitrary low
    halves, negative values with non-zero low bits, +-1 LSB around multiples of 2^16, k*2^16 - 1, the extremes"""
    out = []
    special = [-2**31, 2**31 - 1, -1, -0x8001, -0x10001, -0x10000, -0xFFFF, 0xFFFF, 0x10000, 0x10001, 0x7FFF0000, 0x7FFFFFFF - 0xFFFF,
               -0x7FFF0001, 0x00018000, -0x00018000, 0x0000FFFF, -0x00000001, 0x8000, -0x8000, 0x80, -0x81, 0xFFFFFF, -0x1000001]
    amp = rng.choice([300, 3000, 12000, 30000])
    ph = rng.random() * 6.28
    step = rng.choice([0.01, 0.05, 0.21])
    for i in range(n):
        r = rng.random()
        if i < 2 * len(special):
            v = special[i // 2] if i % 2 == 0 else -special[i // 2] - 1
            v = max(-2**31, min(2**31 - 1, v))
        elif r < 0.55:
            top = int(amp * math.sin(ph + i * step)) + rng.randrange(-3, 4)
            top = max(-32768, min(32767, top))
            low = rng.choice([0, 1, 0x7FFF, 0x8000, 0x8001, 0xFFFF]) if rng.random() < 0.3 else rng.randrange(0, 0x10000)
            v = top * 65536 + low
        elif r < 0.75:
            k = rng.randrange(-32768, 32768)
            v = k * 65536 + rng.choice([-1, 0, 1])
            v = max(-2**31, min(2**31 - 1, v))
        else:
            v = rng.randrange(-2**31, 2**31)
        out.append(v)
    return out


def short_values(rng, n):
    out = []
    special = [-32768, 32767, -1, 0, 1, 255, 256, -256, -257, 0x7F00, -0x7F01, 128, -129]
    for i in range(n):
        if i < len(special):
            out.append(special[i])
        elif rng.random() < 0.5:
            out.append(max(-32768, min(32767, int(20000 * math.sin(i * 0.07)) + rng.randrange(-200, 200))))
        else:
            out.append(rng.randrange(-32768, 32768))
    return out


def float_values(rng, n, ty):
    """floats / doubles in [-1, 1]: exact grid points, halves of the grid, 1 - ulp, random"""
    out = []
    special = [0.0, -0.0, 1.0, -1.0, 0.5, -0.5, 0.25, 0.999969482421875, -0.999969482421875, 1.0 / 65536, 3.0 / 65536, -3.0 / 65536,
               0.9999999403953552, -0.9999999403953552, 1e-7, -1e-7, 0.75, 1.5 / 32768, 2.5 / 32768, -2.5 / 32768, 16383.5 / 32768]
    for i in range(n):
        if i < len(special):
            x = special[i]
        else:
            r = rng.random()
            if r < 0.3:
                x = rng.randrange(-32768, 32768) / 32768.0
            elif r < 0.45:
                x = (2 * rng.randrange(-16384, 16384) + 1) / 65536.0
            elif r < 0.6:
                x = rng.randrange(-256, 256) / 256.0
            else:
                x = rng.uniform(-1.0, 1.0)
        out.append(K.f32bits(x) if ty == "f32" else K.f64bits(x))
    return out


def float_values_off(rng, n, ty, cd):
    """unnormalised floats / doubles: integers, halves and fractions inside the range the stored sample can hold"""
    kind, w, fw, noff, scale, trunc, woff = cd
    R = (1 << (31 - woff)) if fw == 32 else (1 << (fw - 1))
    out = []
    special = [0.0, 1.0, -1.0, 1000.0, -1000.0, R - 1.0, -(R - 1.0), 0.5, 1.5, 2.5, -0.5, -1.5, 127.0, -128.0, 100.25, -100.75]
    for i in range(n):
        if i < len(special):
            x = special[i]
        elif rng.random() < 0.6:
            x = float(rng.randrange(-R + 1, R))
        else:
            x = rng.randrange(-R + 1, R - 1) + rng.choice([0.5, 0.25, 0.75, 0.5])
        if abs(x) > R - 1:
            x = 0.0
        out.append(K.f32bits(x) if ty == "f32" else K.f64bits(x))
    return out


# ---------------------------------------------------------------- jobs

class Job:
    def __init__(self, fmt, ch, cd, seed_rng, nint, nflt, sr):
        self.fmt, self.ch, self.cd, self.sr = fmt, ch, cd, sr
        self.name = "%s-ch%d" % (fmt.name, ch)
        rng = seed_rng
        self.xs = int_values(rng, nint * ch)
        self.ys = [narrow_of(cd, x) for x in self.xs] if narrows(cd) else short_values(rng, nint * ch)
        self.zs = [y * 65536 for y in self.ys]
        self.flt = {}
        if cd[0] == "int" and cd[4] is not None:
            for ty in ("f32", "f64"):
                self.flt[ty] = float_values(rng, nflt * ch, ty)
                self.flt["off-" + ty] = float_values_off(rng, 96 * ch, ty, cd)
        self.twins = {}
        self.plan_seed = rng.randrange(1 << 30)
        # codecs without a stated float twin (G.711): the normalised vectors written with both switches on and with the OTHER type's switch off
        # must give the same file (Sf.CrossTypeQ.wqueryOk: same items, a state the call does not look at differs)
        self.gflt = {}
        if cd[0] == "g711":
            gr = random.Random(self.plan_seed)
            for ty in ("f32", "f64"):
                self.gflt[ty] = [v for v in float_values(gr, 300 * ch, ty)]

    def open_w(self, h, s):
        return "open %s %s w fmt=%08x ch=%d sr=%d" % (h, s, self.fmt.word, self.ch, self.sr)

    def open_r(self, h, s):
        if self.fmt.major == 0x04:
            return "open %s %s r fmt=%08x ch=%d sr=%d" % (h, s, self.fmt.word, self.ch, self.sr)
        return "open %s %s r" % (h, s)

    def write_script(self):
        """the files: s0 = ints xs, s1 = shorts ys, s2 = ints ys << 16, s3/s4 = floats + twin, s5/s6 = doubles + twin"""
        L = []
        self.files = []

        def wfile(k, ty, vals, normoff=False, other_off=False):
            h, s = "h%d" % k, "s%d" % k
            L.append(self.open_w(h, s))
            if normoff:
                L.extend(["cmd %s 1013 0 null" % h, "cmd %s 1012 0 null" % h])
            if other_off:
                # the switch of the OTHER floating type is off: a float write looks at SFC_SET_NORM_FLOAT only, a double write at SFC_SET_NORM_DOUBLE only
                L.append("cmd %s %s 0 null" % (h, "1012" if ty == "f32" else "1013"))
            # a few calls: the staging loops of the converting writers restart at every call
            cut = (len(vals) // (3 * self.ch)) * self.ch
            parts = [vals[:cut], vals[cut:]] if 0 < cut < len(vals) and k % 2 == 0 else [vals]
            for p in parts:
                L.append("w %s %s i %d %s" % (h, ty, len(p), K.hex_items(p, DIG[ty])))
            L.append("close " + h)
            L.append("dump " + s)
            self.files.append((k, ty, len(parts)))
        wfile(0, "s32", self.xs)
        if self.cd[0] in ("int", "g711"):
            wfile(1, "s16", self.ys)
            wfile(2, "s32", self.zs)
        k = 3
        for ty in ("f32", "f64"):
            if ty in self.twins:
                wfile(k, ty, self.flt[ty])
                wfile(k + 1, "s32", self.twins[ty])
            k += 2
        for ty in ("f32", "f64"):
            if "off-" + ty in self.twins:
                wfile(k, ty, self.flt["off-" + ty], normoff=True)
                wfile(k + 1, "s32", self.twins["off-" + ty])
            k += 2
        # the normalised float / double vectors once more on a handle whose OTHER switch is off: same file as with both on
        for ty in ("f32", "f64"):
            if ty in self.twins:
                wfile(k, ty, self.flt[ty], other_off=True)
            k += 1
        self.gfiles = {}
        k = 3                                              # (a G.711 job has no float twins: slots 3..6 are free; the harness has 16 handle slots)
        for ty in ("f32", "f64"):
            if ty in self.gflt:
                wfile(k, ty, self.gflt[ty])
                wfile(k + 1, ty, self.gflt[ty], other_off=True)
                self.gfiles[ty] = (k, k + 1)
            k += 2
        return "\n".join(L) + "\n"

    def read_script(self, filehex, frames, seekable, rng, ncalls):
        """reference reads (norm on: h1..h4, norm off: h5, h6) then the two plan handles (h7 norm on, h8 norm off)"""
        ch = self.ch
        L = ["store s0 " + filehex]
        n = (frames + 40) * ch
        for j, ty in enumerate(TYS):
            h = "h%d" % (j + 1)
            L += [self.open_r(h, "s0"), "r %s %s i %d" % (h, ty, n), "close " + h]
        for j, ty in enumerate(("f32", "f64")):
            h = "h%d" % (j + 5)
            L += [self.open_r(h, "s0"), "cmd %s 1013 0 null" % h, "cmd %s 1012 0 null" % h, "r %s %s i %d" % (h, ty, n), "close " + h]
        self.plan_at = {}
        b = readcamp.block_hint(self.fmt)
        for sfx, h, nF, nD in SETTINGS:
            L.append(self.open_r(h, "s0"))
            if not nF:
                L.append("cmd %s 1013 0 null" % h)
            if not nD:
                L.append("cmd %s 1012 0 null" % h)
            self.plan_at[sfx] = len(L)
            pos, last = 0, None
            calc, other = queries(h, ch, rng)
            nc = ncalls if sfx in ("on", "off") else max(10, ncalls // 3)
            for it in range(nc):
                # a query in front of the call: the four CALC scans early (every one is followed by reads of all types), then the others
                if seekable and frames > 0:
                    if it in (1, 3, 5, 7) and calc:
                        L.append(calc.pop())
                    elif it > 7 and rng.random() < 0.2:
                        L.append(rng.choice(other))
                if seekable and frames > 0 and rng.random() < 0.3:
                    r = rng.random()
                    if r < 0.5:
                        tgt = rng.randrange(0, frames + 1)
                    elif r < 0.8 and b > 1:
                        tgt = min(frames, (rng.randrange(0, frames // b + 1)) * b + rng.choice([0, 1, b // 2, b - 1]))
                    else:
                        tgt = rng.choice([0, max(frames - 1, 0), frames])
                    L.append("seek %s %d 0" % (h, tgt))
                    pos = tgt
                if pos >= frames and seekable:
                    pos = rng.randrange(0, max(frames, 1))
                    L.append("seek %s %d 0" % (h, pos))
                # switch the type: never the same as the previous call's; right behind a CALC scan the two floating types take turns
                ty = rng.choice([t for t in TYS if t != last])
                if it in (1, 3, 5, 7) and seekable:
                    ty = "f64" if last != "f64" else "f32"
                last = ty
                cnt = rng.choice([1, 1, 2, 3, 7, 33, b - 1 if b > 2 else 5, b, b + 1, 2 * b + 1, 100, 1000, 4097])
                cnt = max(1, min(cnt, 5000))
                L.append("r %s %s f %d" % (h, ty, cnt))
                pos = min(frames, pos + cnt)
            L.append("close " + h)
        return "\n".join(L) + "\n"


def _data(line):
    i = line.find("hex=")
    return line[i + 4:].strip() if i >= 0 else ""


def _kv(line, key):
    for t in line.split():
        if t.startswith(key + "="):
            return t[len(key) + 1:]
    return None


def pick_jobs(ctx, quick):
    rng = ctx.rng
    fs = [f for f in formats.writable_formats(ctx) if f.major != 0x16]      # SD2 needs a resource-fork side file (route=path): not here
    jobs = []
    for idx, f in enumerate(fs):
        cd = codec_of(f)
        if cd is None:
            continue
        lossy_or_block = f.codec not in formats.SAMPLE_GRANULAR or f.major in (0x11, 0x0F) or (f.major == 0x05 and f.codec == 0x03)
        # the sample-granular encodings share pcm.c / float32.c / double64.c / ulaw.c / alaw.c across containers: in the quick tier every
        # (container, encoding) still runs, with a shorter vector unless it is this seed's turn; codecs with state always run at full length
        full = lossy_or_block or not quick or (idx + ctx.seed) % 4 == 0
        chs = [1]
        if f.maxch >= 2 and (lossy_or_block or (idx + ctx.seed) % 3 == 0):
            chs = [1, 2] if lossy_or_block else [2]
        for ch in chs:
            sr = 8000 if f.major != 0x19 else 8000
            nint = (4200 + 2 * rng.randrange(0, 300)) if full else 260
            nflt = 2200 if full else 120
            if f.codec in (0x70, 0x71, 0x72, 0x73):
                nint = 4500                                     # ALAC: beyond one 4096-frame packet
            jobs.append(Job(f, ch, cd, rng, nint, nflt, sr))
    return jobs


def run(ctx, budget=45.0):
    t0 = time.time()
    quick = ctx.tier == "quick"
    jobs = pick_jobs(ctx, quick)
    stats = {"formats": 0, "jobs": len(jobs), "twin_files": 0, "W_records": 0, "R_items": 0, "S_calls": 0, "not_written": 0, "judged": 0,
             "known_class": 0}
    # ---- 1. int twins of the float / double vectors, by the Lean definition ----
    inp = []
    for j in jobs:
        for ty in j.flt:
            inp.append(codec_line(j.cd, j.ch, 0 if ty.startswith("off-") else 1))
            inp.append("%s %s" % (ty[-3:], K.hex_items(j.flt[ty], DIG[ty[-3:]])))
    out = []
    if inp:
        pairs = [inp[i:i + 2] for i in range(0, len(inp), 2)]
        nproc = 6
        per = (len(pairs) + nproc - 1) // nproc
        chunks = [pairs[i:i + per] for i in range(0, len(pairs), per)]
        with concurrent.futures.ThreadPoolExecutor(max_workers=nproc) as ex:
            for o in ex.map(lambda c: ctx.run_model(["crosstype", "twins"], "\n".join(l for p in c for l in p) + "\n"), chunks):
                out += [l for l in o.split("\n") if l]
    k = 0
    for j in jobs:
        for ty in j.flt:
            hx = out[k]
            k += 1
            tw = [int(hx[8 * i:8 * i + 8], 16) for i in range(len(hx) // 8)]
            j.twins[ty] = [t - (1 << 32) if t >> 31 else t for t in tw]
    stats["t_twins"] = round(time.time() - t0, 1)
    # ---- 2. write phase ----
    wscripts = [(j.name, j.write_script()) for j in jobs]
    wres = ctx.batch(wscripts, op_timeout=30, clean=True)
    stats["t_write"] = round(time.time() - t0, 1)
    # ---- 3. read phase ----
    rscripts = []
    for j in jobs:
        lines = wres.get(j.name, [])
        j.dumps = [_data(l) for l in lines if l.startswith("len=")]
        j.wlines = lines
        j.ok = (len(j.dumps) == len(j.files)) and all(j.dumps) and not any(l.startswith(("CRASH", "ABORT", "TIMEOUT")) for l in lines) \
            and not any("open=NULL" in l for l in lines)
        j.wrets_ok = all(_kv(l, "ret") is not None for l in lines if l.startswith("ret="))
        if not j.ok:
            continue
    # frames / seekable come from a probe open inside the read script: ask first with a tiny script per job
    probe = [(j.name, "store s0 %s\n%s\nclose h1\n" % (j.dumps[0], j.open_r("h1", "s0"))) for j in jobs if j.ok]
    pres = ctx.batch(probe, op_timeout=30, clean=True)
    for j in jobs:
        if not j.ok:
            continue
        pl = [l for l in pres.get(j.name, []) if l.startswith("open=")]
        if not pl or "open=ok" not in pl[0]:
            j.ok = False
            j.why = "the file written from ints cannot be opened for reading: %s" % (pl[:1],)
            continue
        j.frames = int(_kv(pl[0], "frames") or 0)
        j.seekable = _kv(pl[0], "seekable") == "1"
        j.rscript = j.read_script(j.dumps[0], j.frames, j.seekable, random.Random(j.plan_seed), 36 if quick else 120)
        rscripts.append((j.name, j.rscript))
    rres = ctx.batch(rscripts, op_timeout=60, clean=True)
    stats["t_read"] = round(time.time() - t0, 1)
    # ---- 4. the records, judged by Sf.CrossType ----
    rec = []
    for j in jobs:
        if not j.ok:
            stats["not_written"] += 1
            continue
        body = {1: [], 0: []}
        # (W)
        d = {k: j.dumps[i] for i, (k, _, _) in enumerate(j.files)}
        W = []
        if j.cd[0] in ("int", "g711"):
            if narrows(j.cd):
                W += ["twin narrow", "xs " + K.hex_items(j.xs, 8), "ys " + K.hex_items(j.ys, 4), "fx " + d[0], "fy " + d[1]]
            W += ["twin widen", "xs " + K.hex_items(j.zs, 8), "ys " + K.hex_items(j.ys, 4), "fx " + d[2], "fy " + d[1]]
        k = 3
        for ty in ("f32", "f64"):
            if ty in j.twins:
                W += ["twin float " + ty, "xs " + K.hex_items(j.flt[ty], DIG[ty]), "ys " + K.hex_items(j.twins[ty], 8), "fx " + d[k], "fy " + d[k + 1]]
            k += 2
        Woff = []
        for ty in ("f32", "f64"):
            if "off-" + ty in j.twins:
                Woff += ["twin float " + ty, "xs " + K.hex_items(j.flt["off-" + ty], DIG[ty]), "ys " + K.hex_items(j.twins["off-" + ty], 8), "fx " + d[k], "fy " + d[k + 1]]
            k += 2
        # mixed switches on the write side: the file written with the other type's switch off against the same int twin (records of the mixfd / mixdf settings)
        Wmix = {"mixfd": [], "mixdf": []}
        for ty, sfx, kt in (("f32", "mixdf", 4), ("f64", "mixfd", 6)):
            if ty in j.twins and k in d:
                Wmix[sfx] += ["twin float " + ty, "xs " + K.hex_items(j.flt[ty], DIG[ty]), "ys " + K.hex_items(j.twins[ty], 8), "fx " + d[k], "fy " + d[kt]]
            k += 1
        stats["twin_files"] += len(j.files)
        j.gmix_bad = [ty for ty, (ka, kb) in getattr(j, "gfiles", {}).items() if d.get(ka) != d.get(kb)]
        stats["W_state_twins"] = stats.get("W_state_twins", 0) + len(getattr(j, "gfiles", {}))
        # (R) + (S)
        rl = rres.get(j.name, [])
        sl = j.rscript.strip().split("\n")
        j.rlines = rl
        if len(rl) < len(sl):
            j.ok = False
            j.why = "read transcript ends early (%d of %d lines): %s" % (len(rl), len(sl), rl[-1:] if rl else "")
            continue
        refs = {}
        for i, op in enumerate(sl):
            t = op.split()
            if t[0] == "r" and t[1] in ("h1", "h2", "h3", "h4", "h5", "h6"):
                ret = int(_kv(rl[i], "ret") or 0)
                dat = _kv(rl[i], "data") or ""
                refs[t[1]] = dat[:max(ret, 0) * DIG[t[2]]]
        for sfx, h, nF, nD in SETTINGS:
            lines = ["== %s/%s" % (j.name, sfx), codec_line(j.cd, j.ch, nF, nD)]
            lines += W if sfx == "on" else Woff if sfx == "off" else Wmix[sfx]
            lines += ["ref s16 " + refs.get("h1", ""), "ref s32 " + refs.get("h2", ""),
                      "ref f32 " + refs.get("h3" if nF else "h5", ""), "ref f64 " + refs.get("h4" if nD else "h6", ""), "ragree", "plan"]
            a = j.plan_at[sfx]
            e = a
            while not sl[e].startswith("close"):
                lines += [sl[e], rl[e]]
                if sl[e].startswith("cmd") or sl[e].startswith("info"):
                    stats["S_queries"] = stats.get("S_queries", 0) + 1
                e += 1
            rec.append("\n".join(lines))
    stats["t_records"] = round(time.time() - t0, 1)
    verdicts = {}
    if rec:
        # a few judge processes side by side
        nproc = 8
        chunks = [rec[i::nproc] for i in range(nproc)]
        with concurrent.futures.ThreadPoolExecutor(max_workers=nproc) as ex:
            for o in ex.map(lambda c: ctx.run_model(["crosstype"], "\n".join(c) + "\n") if c else "", chunks):
                for line in o.split("\n"):
                    if line:
                        nm, _, rest = line.partition(" ")
                        verdicts[nm] = rest
    return jobs, verdicts, stats, time.time() - t0


# ---------------------------------------------------------------- verdicts, shrinking, replays

CLAUSE_TEXT = {
    "W-narrow": "\"integer-to-integer moves keep the most significant bits (… narrowing truncates …)\": the file written from the ints x differs from "
                "the file written from the shorts x asr 16 (G.711: sign and magnitude, magnitude / 2^16), although the codec stores no more than 16 bits",
    "W-widen": "\"integer-to-integer moves keep the most significant bits (widening zero-pads …)\": the file written from the shorts s differs from the "
               "file written from the ints s << 16",
    "W-float": "\"with normalisation on … writes of x in [-1,1) store the nearest integer to x*(2^(w-1)-1) … with normalisation off integers pass through "
               "unscaled\": the file written from floats / doubles differs from the file written from the ints Sf.CrossType.floatTwin (the rounded product "
               "of the codec's own factor — 1 resp. 2^woff with normalisation off — in the top bits)",
    "R-short-int": "\"Reading the same stored sample through different API types gives results that agree\": short read != int read asr 16",
    "R-float": "\"float/double reads of w-bit integer data return value/2^(w-1)\" / \"with normalisation off integers pass through unscaled\": the float read "
               "is not the int read / 2^31 (norm off: / 2^noff) rounded once",
    "R-double": "\"float/double reads of w-bit integer data return value/2^(w-1)\" / \"with normalisation off integers pass through unscaled\": the double read "
                "is not the int read / 2^31 (norm off: / 2^noff)",
    "R-short": "float data read as short is not Sf.intOfFloat of the stored value",
    "R-int": "float data read as int is not Sf.intOfFloat of the stored value",
    "R-length": "the four caller types see different numbers of items in one file",
    "S-data": "type switching on one handle: a read call does not deliver the slice of ITS type's sequential reference stream at the handle's position "
              "(\"Reading the same stored sample through different API types gives results that agree\", after calls of other types)",
}


SETTING_TEXT = {"on": "on", "off": "off", "mixfd": "float off / double on", "mixdf": "float on / double off"}


def _focus(ctx, j, sfx, verdict):
    """the read script cut down to the reference reads and the plan of the failing setting, the plan ending with the first rejected call
    (kept only when `sfmodel crosstype` still rejects it)"""
    try:
        sl = j.rscript.strip().split("\n")
        h = dict((s_, h_) for s_, h_, _, _ in SETTINGS)[sfx]
        first_plan = min(j.plan_at.values()) - 1
        while not sl[first_plan].startswith("open "):
            first_plan -= 1
        keep = sl[:first_plan]
        a = j.plan_at[sfx]
        k = a
        while not sl[k].startswith("open "):
            k -= 1
        e = a
        while not sl[e].startswith("close"):
            e += 1
        plan = sl[k:e]
        m = [t for t in verdict.split() if t.startswith("call=")]
        if m:
            ncall = int(m[0][5:])
            plan = sl[k:a + ncall + 1]
        return "\n".join(keep + plan) + "\n"
    except Exception:
        return j.rscript


def clauses(verdict):
    return [c.split()[0][len("clause="):] for c in verdict.replace("bad ", "", 1).split("; ") if c.startswith("clause=")]


def _twin_files(ctx, job, tyx, xs, tyy, ys, normoff=False, extra=None):
    L = []
    for k, (ty, vals) in enumerate(((tyx, xs), (tyy, ys))):
        L += [job.open_w("h%d" % k, "s%d" % k)] + (["cmd h%d 1013 0 null" % k, "cmd h%d 1012 0 null" % k] if normoff and k == 0 else []) + (list(extra or []) if k == 0 else [])
        L += ["w h%d %s i %d %s" % (k, ty, len(vals), K.hex_items(vals, DIG[ty])), "close h%d" % k, "dump s%d" % k]
    script = "\n".join(L) + "\n"
    lines, rc, err = ctx.script(script)
    d = [_data(l) for l in lines if l.startswith("len=")]
    return script, (len(d) == 2 and d[0] != d[1]) or rc != 0, d


def shrink_twin(ctx, job, tyx, xs, tyy, ys, normoff=False, extra=None):
    """smallest prefix (whole frames) whose two files still differ, then drop leading frames while they still do"""
    step = job.ch
    script, differs, _ = _twin_files(ctx, job, tyx, xs, tyy, ys, normoff, extra)
    if not differs:
        return script, xs, ys
    lo, hi = 0, len(xs) // step
    while hi - lo > 1:
        mid = (lo + hi) // 2
        s2, d2, _ = _twin_files(ctx, job, tyx, xs[:mid * step], tyy, ys[:mid * step], normoff, extra)
        if d2:
            hi = mid
        else:
            lo = mid
    xs, ys = xs[:hi * step], ys[:hi * step]
    # drop from the front (stateless codecs end with one frame)
    for cutn in (len(xs) // step - 1, len(xs) // step // 2, 1, 1, 1):
        if cutn <= 0 or cutn * step >= len(xs):
            continue
        s2, d2, _ = _twin_files(ctx, job, tyx, xs[cutn * step:], tyy, ys[cutn * step:], normoff, extra)
        if d2:
            xs, ys = xs[cutn * step:], ys[cutn * step:]
    script, differs, _ = _twin_files(ctx, job, tyx, xs, tyy, ys, normoff, extra)
    return script, xs, ys


def report(ctx, jobs, verdicts):
    """turns every failing verdict into a VIOLATION with a replay; returns the number reported"""
    n = 0
    seen = set()
    for j in jobs:
        if not j.ok:
            if getattr(j, "why", None) and ("rd", j.fmt.codec) not in seen:
                seen.add(("rd", j.fmt.codec))
                n += 1
                ctx.violation("crosstype-%s-run" % j.name, "# C02 cross-type campaign, %s: %s\n--- script\n%s" % (j.name, j.why, getattr(j, "rscript", j.write_script())[:200000]), no_input=True)
            continue
        for ty in getattr(j, "gmix_bad", []):
            if ("W-state", j.fmt.codec, ty) in seen:
                continue
            seen.add(("W-state", j.fmt.codec, ty))
            n += 1
            extra = ["cmd h0 %s 0 null" % ("1012" if ty == "f32" else "1013")]
            script, xs, ys = shrink_twin(ctx, j, ty, j.gflt[ty], ty, j.gflt[ty], normoff=False, extra=extra)
            ctx.violation("crosstype-%s-W-state-%s" % (j.name, ty), "c02-crosstype W-state\n# C02 (%s, %d channel(s)): the file written from %s items depends on the normalisation switch of the OTHER floating type "
                          "(\"with normalisation on … writes of x in [-1,1) store the nearest integer to x*(2^(w-1)-1)\": sf_write_%s looks at %s only)\n"
                          "# twin files: both are written from the same %d item(s) %s, the first on a handle whose other switch was turned off; their dumps must be identical (Sf.CrossTypeQ.wqueryOk)\n# %s\n--- script\n%s"
                          % (j.name, j.ch, ty, "float" if ty == "f32" else "double", "SFC_SET_NORM_FLOAT" if ty == "f32" else "SFC_SET_NORM_DOUBLE", len(xs), K.hex_items(xs[:8], DIG[ty]), codec_line(j.cd, j.ch, 1), script))
        for sfx, _h, nF, nD in SETTINGS:
            norm = nF
            v = verdicts.get("%s/%s" % (j.name, sfx))
            if v is None:
                n += 1
                ctx.violation("crosstype-%s-noverdict" % j.name, "# C02 cross-type campaign: `sfmodel crosstype` gave no verdict for %s/%s\n" % (j.name, sfx), no_input=True)
                continue
            if v.startswith("ok"):
                continue
            for cl in clauses(v):
                base = cl.replace("-twin", "").replace("-class", "")
                key = (base, j.fmt.codec, sfx if base == "W-float" else "")
                if key in seen:
                    continue                       # one replay per (clause, codec)
                seen.add(key)
                n += 1
                head = "c02-crosstype %s\n# C02 (%s, %d channel(s), normalisation %s): %s\n# Lean verdict (Sf.CrossType, `sfmodel crosstype`): %s\n# %s\n" % (
                    base, j.name, j.ch, SETTING_TEXT[sfx], CLAUSE_TEXT.get(base, base), v[:600], codec_line(j.cd, j.ch, nF, nD))
                if cl.endswith("-twin") or cl.endswith("-class"):
                    ctx.violation("crosstype-%s-%s" % (j.name, cl), head + "# the campaign's twin vector is not the checker's twin: the campaign and lean/SfModel/CrossType.lean disagree\n", no_input=True)
                elif base.startswith("W"):
                    if base == "W-narrow":
                        args = ("s32", j.xs, "s16", j.ys)
                    elif base == "W-widen":
                        args = ("s32", j.zs, "s16", j.ys)
                    elif sfx in ("mixfd", "mixdf"):
                        ty = "f32" if sfx == "mixdf" else "f64"
                        extra = ["cmd h0 %s 0 null" % ("1012" if ty == "f32" else "1013")]
                        args = (ty, j.flt[ty], "s32", j.twins[ty])
                        script, xs, ys = shrink_twin(ctx, j, *args, normoff=False, extra=extra)
                        ctx.violation("crosstype-%s-%s-%s" % (j.name, base, sfx), head + "# twin files: the first is written from %d %s item(s) %s on a handle whose OTHER normalisation switch is off, the second from the int twin(s) %s; "
                                      "their dumps must be identical\n--- script\n%s" % (len(xs), ty, K.hex_items(xs[:8], DIG[ty]), K.hex_items(ys[:8], 8), script))
                        continue
                    else:
                        # which float type failed: re-run both
                        args = None
                        pre = "" if norm else "off-"
                        for ty in ("f32", "f64"):
                            if pre + ty in j.twins:
                                s0, differs, _ = _twin_files(ctx, j, ty, j.flt[pre + ty], "s32", j.twins[pre + ty], not norm)
                                if differs:
                                    args = (ty, j.flt[pre + ty], "s32", j.twins[pre + ty])
                                    break
                        if args is None:
                            ty = "f32"
                            args = (ty, j.flt[pre + ty], "s32", j.twins[pre + ty])
                    script, xs, ys = shrink_twin(ctx, j, *args, normoff=(base == "W-float" and not norm))
                    ctx.violation("crosstype-%s-%s" % (j.name, base), head + "# twin files: the first is written from %d %s item(s) %s, the second from the %s twin(s) %s; their dumps must be identical\n--- script\n%s"
                                  % (len(xs), args[0], K.hex_items(xs[:8], DIG[args[0]]), args[2], K.hex_items(ys[:8], DIG[args[2]]), script))
                else:
                    ctx.violation("crosstype-%s-%s-%s" % (j.name, base, sfx), head + "# the script reads the file through one handle per caller type (reference streams, normalisation on: h1..h4, off: h5 h6), then runs the "
                                  "type-switching plans on h7 (normalisation on), h8 (off), h9 (float off, double on) and h10 (float on, double off); the plans issue state-reading\n"
                                  "# commands (SFC_CALC_*, SFC_GET_*) between the reads, which must not change what the reads deliver\n--- script\n%s" % _focus(ctx, j, sfx, v))
    return n


def replay(ctx, path):
    """bin/check C02 --replay <file holding a `c02-crosstype` line>"""
    text = open(path).read()
    head, script = text.split("--- script", 1)
    script = script.lstrip("\n")
    clause = [l for l in head.split("\n") if l.startswith("c02-crosstype ")][0].split()[1]
    cline = [l[2:] for l in head.split("\n") if l.startswith("# codec ")][0]
    lines, rc, err = ctx.script(script)
    if clause.startswith("W"):
        d = [_data(l) for l in lines if l.startswith("len=")]
        print("\n".join(l[:200] for l in lines))
        if rc != 0 or len(d) != 2 or d[0] != d[1]:
            k = next((i for i in range(0, min(len(d[0]), len(d[1])), 2) if d[0][i:i + 2] != d[1][i:i + 2]), None) if len(d) == 2 else None
            print("replay: the two closed files differ (first differing byte: %s)" % (k // 2 if k is not None else "length / missing"))
            ctx.report(path)
        else:
            print("replay: the two closed files are identical (no violation on this tree)")
        return
    sl = script.strip().split("\n")
    lines = [l for l in lines if l.startswith(ctx.TRANSCRIPT_PREFIXES)]
    refs, bad = {}, rc != 0 or len(lines) < len(sl)
    for i, op in enumerate(sl[:len(lines)]):
        t = op.split()
        if t[0] == "r" and t[1] in ("h1", "h2", "h3", "h4", "h5", "h6"):
            ret = int(_kv(lines[i], "ret") or 0)
            refs[t[1]] = (_kv(lines[i], "data") or "")[:max(ret, 0) * DIG[t[2]]]
    recs = []
    for sfx, h, nF, nD in SETTINGS:
        if not any(len(op.split()) > 1 and op.split()[1] == h for op in sl):
            continue
        cl = " ".join(t if not t.startswith(("normF=", "normD=")) else t[:6] + str(nF if t.startswith("normF=") else nD) for t in cline.split())
        L = ["== %s" % sfx, cl, "ref s16 " + refs.get("h1", ""), "ref s32 " + refs.get("h2", ""),
             "ref f32 " + refs.get("h3" if nF else "h5", ""), "ref f64 " + refs.get("h4" if nD else "h6", ""), "ragree", "plan"]
        started = False
        for i, op in enumerate(sl[:len(lines)]):
            t = op.split()
            if len(t) > 1 and t[1] == h and (t[0] in ("r", "seek") or (started and t[0] in ("cmd", "info"))):
                started = True
                L += [op, lines[i]]
        recs.append("\n".join(L))
    out = ctx.run_model(["crosstype"], "\n".join(recs) + "\n")
    print(out)
    if bad or any(" bad " in l for l in out.split("\n")):
        ctx.report(path)
    else:
        print("replay: Sf.CrossType accepts the transcript (no violation on this tree)")
