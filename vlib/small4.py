"""Small containers, group 4 (MAT5, SDS, SD2), L1: the stand-alone Lean models Sf.Mat5, Sf.SdsFile, Sf.Sd2
(lean/SfModel/Mat5.lean, SdsFile.lean, Sd2.lean; driver `sfmodel small4 <container>`) against the library.

MAT5 runs on vlib/small2.py's machinery (sessions open / dump / write / header update / dump + copy / write / close /
dump / re-open / read to end of file / re-open of the crash image on library and model, EVERY header byte of the three
store images compared; twin session with another stale SF_INFO.frames; the C04 / C11 predicates on the library's own
transcript with an independent decoder of the size fields; library files and mutated variants through `sf_open` and
the model's `parse`) with one `Cont` subclass.
"""
import struct

from . import formats as FM
from . import small2
from .small2 import Cont, Job, BYTEWIDTH


class Mat5(Cont):
    """MATLAB 5: 124 bytes of text, version + endian marker, the 1 x 1 'samplerate' matrix with a compressed rate element,
    the channels x frames 'wavedata' matrix; PCM_U8 / 16 / 32 / float / double in both byte orders"""
    name, major, driver = "mat5", 0x0D, "small4"
    rates = [1, 2, 255, 256, 8000, 11025, 44100, 65535, 65536, 65537, 96000, 2 ** 24 + 1, 2 ** 31 - 1]
    lengths = [0, 1, 2, 3, 5, 8, 4097]
    ENC = {5: 2, 2: 3, 4: 5, 6: 7, 7: 9}
    text = None

    def formats(self, ctx):
        fmts = Cont.formats(self, ctx)
        if fmts and self.text is None:
            # the text field names PACKAGE_NAME-PACKAGE_VERSION and the (pinned) date: a parameter of the model, taken from the library's first header
            lines, rc, err = ctx.script("open h0 s0 w fmt=%08x ch=1 sr=44100\ndump s0\nclose h0\n" % fmts[0].word)
            b = next((small2.parse_dump(l) for l in lines if l.startswith("len=") and "hex=" in l), b"")
            self.text = b[:124] if len(b) >= 124 else b"MATLAB 5" + bytes(116)
        return fmts

    def little(self, f):
        return f.endian != FM.BE

    def word(self, f):
        return (0x10000000 if self.little(f) else 0x20000000) | (self.major << 16) | f.codec

    def cfg(self, j):
        return "codec=%02x endian=%d ch=%d sr=%d text=%s" % (j.f.codec, j.f.endian >> 28, j.ch, j.sr, self.text.hex())

    def size_problems(self, j, b, frames):
        """independent reading of the closed file: fixed layout, every tag and every count"""
        out = []
        if len(b) < 264:
            return ["file shorter than the 264-byte header"]
        e = "<" if self.little(j.f) else ">"
        t = b[:124]
        z = t.find(b"\0")
        if not t.startswith(b"MATLAB 5.0 MAT-file, written by libsndfile-") or z < 0 or t[z + 1:].strip(b" "):
            out.append("text field %r" % t)
        if b[124:128] != (b"\x00\x01IM" if self.little(j.f) else b"\x01\x00MI"):
            out.append("version / endian marker %s" % b[124:128].hex())
        w = struct.unpack(e + "12I", b[128:176])
        if w != (14, 64, 6, 8, 6, 0, 5, 8, 1, 1, 1, 10) or b[176:192] != b"samplerate" + bytes(6):
            out.append("samplerate matrix %s" % b[128:192].hex())
        ty = struct.unpack(e + "I", b[192:196])[0]
        if ty == 0x00020004:
            rate = struct.unpack(e + "HH", b[196:200])
            rate = rate[0] if rate[1] == 0 else -1
        elif ty == 0x00040006:
            rate = struct.unpack(e + "I", b[196:200])[0]
        else:
            rate = -1
        if rate != j.sr:
            out.append("rate element %s for %d Hz" % (b[192:200].hex(), j.sr))
        audio = len(b) - 264
        w = struct.unpack(e + "12I", b[200:248])
        if (w[0],) + w[2:9] + w[10:] != (14, 6, 8, 6, 0, 5, 8, j.ch, 1, 8) or b[248:256] != b"wavedata":
            out.append("wavedata matrix %s" % b[200:256].hex())
        if w[9] != frames % 2 ** 32:
            out.append("cols field %d, %d frames in the file" % (w[9], frames))
        enc, ds = struct.unpack(e + "II", b[256:264])
        if enc != self.ENC[j.f.codec]:
            out.append("data element type %d for codec %02x" % (enc, j.f.codec))
        if ds != min(audio, 0x7FFFFFFF) or audio != j.n * j.bw:
            out.append("data element size %d, file holds %d audio bytes, %d written" % (ds, audio, j.n * j.bw))
        return out

    def hdr_len(self, b):
        return 264

    def mutants(self, b, rng):
        """every layout mat5_read_header accepts, and its refusals"""
        out = []
        if len(b) < 264:
            return out
        le = b[126:128] == b"IM"
        e = "<" if le else ">"
        P = lambda *v: struct.pack(e + "%dI" % len(v), *v)
        rest = b[264:]
        A, B = b[:192], b[200:264]
        rate = struct.unpack(e + "I", b[196:200])[0] if b[192:196] == P(0x00040006) else struct.unpack(e + "H", b[196:198])[0]
        # the rate element in its three forms, with every interesting value
        for v in (0, 1, 255, 256, 44100, 65535, 65536, 0x7FFFFFFF, 0x80000000, 0xFFFFFFFF):
            out.append(("uint=%d" % v, A + P(0x00040006, v) + B + rest))
            out.append(("ushort=%d" % v, A + P(0x00020004) + struct.pack(e + "HH", v & 0xFFFF, v >> 16) + B + rest))
        for v in (0.0, 1.0, 8000.0, 44100.0, 65536.0, 2147483647.0, 2147483648.0, 0.5, 1.5, 2.5, 44100.25, -8000.0, 1e300, float("inf"), float("nan")):
            out.append(("double=%r" % v, A + P(9, 8) + struct.pack(e + "d", v) + B + rest))
        for ty in (0, 1, 2, 3, 4, 5, 6, 7, 8, 0x00020003, 0x00040005, 0x00020006, 0x00040004, 0x04000200, 0x06000400):
            out.append(("ratetype=%x" % ty, A + P(ty, rate) + B + rest))
        # names: miINT8 of every size class, compressed names
        for which, off in (("n1", 168), ("n2", 240)):
            head, tail = b[:off], b[off + (24 if which == "n1" else 16):]
            for sz in (0, 1, 7, 8, 9, 10, 15, 16, 17, 31, 32, 33, 0x7FFFFFFF, 0x80000000, 0xFFFFFFFF):
                body = (b"n" * sz + bytes((8 - sz % 8) % 8)) if sz < 64 else b""
                out.append(("%s-size=%d" % (which, sz), head + P(1, sz) + body + tail))
            out.append(("%s-nopad" % which, head + P(1, 10) + b"samplerate" + tail))
            for sz in (0, 1, 4, 5, 0x7FFF, 0x8000, 0xFFFF):
                out.append(("%s-comp=%d" % (which, sz), head + P(sz << 16 | 1) + b"abcd" + tail))
            for ty in (0, 2, 4, 0x10002, 0x10000):
                out.append(("%s-type=%x" % (which, ty), head + P(ty, 8) + b"wavedata" + tail))
        # the first matrix not 1 x 1: it is the audio matrix, 44100 Hz
        for r, c in ((2, 1), (1, 2), (0, 0), (0, 5), (3, 0), (1024, 1), (1025, 1), (0xFFFFFFFF, 1), (0x80000000, 0)):
            for ty in (2, 3, 5, 7, 9, 4, 0):
                out.append(("norate-%dx%d-t%d" % (r, c, ty), b[:160] + P(r, c) + b[168:192] + P(ty, 0) + rest))
        # fixed tags
        for off, nm in ((128, "mx1"), (136, "fl1"), (152, "dm1"), (200, "mx2"), (208, "fl2"), (224, "dm2"), (256, "enc")):
            for v in (0, 1, 2, 3, 4, 5, 6, 7, 8, 9, 14, 15, 0x0E000000, 0x10005, 0xFFFFFFFF):
                out.append(("%s=%x" % (nm, v), b[:off] + P(v) + b[off + 4:]))
        for off, nm in ((132, "sz1"), (140, "fsz1"), (144, "flg1"), (156, "dsz1"), (204, "sz2"), (212, "fsz2"), (228, "dsz2"), (260, "dsize")):
            for v in (0, 1, 7, 9, 0x7FFFFFFF, 0xFFFFFFFF):
                out.append(("%s=%x" % (nm, v), b[:off] + P(v) + b[off + 4:]))
        for r in (0, 1, 2, 3, 1024, 1025, 0x7FFFFFFF, 0x80000000, 0xFFFFFFFF):
            for c in (0, 1, 0xFFFFFFFF):
                out.append(("dims=%dx%d" % (r, c), b[:232] + P(r, c) + b[240:]))
        # endian marker and text
        for m in (b"IM", b"MI", b"im", b"\0\0", b"MM", b"II"):
            out.append(("marker=%s" % m.hex(), b[:126] + m + b[128:]))
        out.append(("swapped", b[:124] + (b"\x01\x00MI" if le else b"\x00\x01IM") + b[128:]))
        out.append(("version=0", b[:124] + bytes(2) + b[126:]))
        out.append(("text-nonul", b[:124].replace(b"\0", b" ") + b[124:]))
        out.append(("text-nul-last", b[:124].replace(b"\0", b" ")[:123] + b"\0" + b[124:]))
        out.append(("text-nul-8", b[:8] + b"\0" + b[9:]))
        out.append(("text-other", b"MATLAB 5" + b"x" * 100 + b"\0" + b" " * 15 + b[124:]))
        for d in (1, 2, 3, 5, 7, 8, 9):
            out.append(("tail+%d" % d, b + bytes(d)))
        return out


CONTS = [Mat5()]


def run(ctx, found=False, only=None):
    """called from vlib/props/c04.py after the other C04 campaigns; returns True when it reported a violation"""
    return small2.run(ctx, found=found, only=only, conts=CONTS, key="small4")
