"""Small containers, group 4 (MAT5, SDS, SD2), L1: the stand-alone Lean models Sf.Mat5, Sf.SdsFile, Sf.Sd2
(lean/SfModel/Mat5.lean, SdsFile.lean, Sd2.lean; driver `sfmodel small4 <container>`) against the library.

MAT5 runs on vlib/small2.py's machinery (sessions open / dump / write / header update / dump + copy / write / close /
dump / re-open / read to end of file / re-open of the crash image on library and model, EVERY header byte of the three
store images compared; twin session with another stale SF_INFO.frames; the C04 / C11 predicates on the library's own
transcript with an independent decoder of the size fields; library files and mutated variants through `sf_open` and
the model's `parse`) with one `Cont` subclass.
"""
import struct

from . import formats as FM
from . import small2
from .small2 import Cont, Job, BYTEWIDTH


class Mat5(Cont):
    """MATLAB 5: 124 bytes of text, version + endian marker, the 1 x 1 'samplerate' matrix with a compressed rate element,
    the channels x frames 'wavedata' matrix; PCM_U8 / 16 / 32 / float / double in both byte orders"""
    name, major, driver = "mat5", 0x0D, "small4"
    rates = [1, 2, 255, 256, 8000, 11025, 44100, 65535, 65536, 65537, 96000, 2 ** 24 + 1, 2 ** 31 - 1]
    lengths = [0, 1, 2, 3, 5, 8, 4097]
    ENC = {5: 2, 2: 3, 4: 5, 6: 7, 7: 9}
    text = None

    def formats(self, ctx):
        fmts = Cont.formats(self, ctx)
        if fmts and self.text is None:
            # the text field names PACKAGE_NAME-PACKAGE_VERSION and the (pinned) date: a parameter of the model, taken from the library's first header
            lines, rc, err = ctx.script("open h0 s0 w fmt=%08x ch=1 sr=44100\ndump s0\nclose h0\n" % fmts[0].word)
            b = next((small2.parse_dump(l) for l in lines if l.startswith("len=") and "hex=" in l), b"")
            self.text = b[:124] if len(b) >= 124 else b"MATLAB 5" + bytes(116)
        return fmts

    def little(self, f):
        return f.endian != FM.BE

    def word(self, f):
        return (0x10000000 if self.little(f) else 0x20000000) | (self.major << 16) | f.codec

    def cfg(self, j):
        return "codec=%02x endian=%d ch=%d sr=%d text=%s" % (j.f.codec, j.f.endian >> 28, j.ch, j.sr, self.text.hex())

    def size_problems(self, j, b, frames):
        """independent reading of the closed file: fixed layout, every tag and every count"""
        out = []
        if len(b) < 264:
            return ["file shorter than the 264-byte header"]
        e = "<" if self.little(j.f) else ">"
        t = b[:124]
        z = t.find(b"\0")
        if not t.startswith(b"MATLAB 5.0 MAT-file, written by libsndfile-") or z < 0 or t[z + 1:].strip(b" "):
            out.append("text field %r" % t)
        if b[124:128] != (b"\x00\x01IM" if self.little(j.f) else b"\x01\x00MI"):
            out.append("version / endian marker %s" % b[124:128].hex())
        w = struct.unpack(e + "12I", b[128:176])
        if w != (14, 64, 6, 8, 6, 0, 5, 8, 1, 1, 1, 10) or b[176:192] != b"samplerate" + bytes(6):
            out.append("samplerate matrix %s" % b[128:192].hex())
        ty = struct.unpack(e + "I", b[192:196])[0]
        if ty == 0x00020004:
            rate = struct.unpack(e + "HH", b[196:200])
            rate = rate[0] if rate[1] == 0 else -1
        elif ty == 0x00040006:
            rate = struct.unpack(e + "I", b[196:200])[0]
        else:
            rate = -1
        if rate != j.sr:
            out.append("rate element %s for %d Hz" % (b[192:200].hex(), j.sr))
        audio = len(b) - 264
        w = struct.unpack(e + "12I", b[200:248])
        if (w[0],) + w[2:9] + w[10:] != (14, 6, 8, 6, 0, 5, 8, j.ch, 1, 8) or b[248:256] != b"wavedata":
            out.append("wavedata matrix %s" % b[200:256].hex())
        if w[9] != frames % 2 ** 32:
            out.append("cols field %d, %d frames in the file" % (w[9], frames))
        enc, ds = struct.unpack(e + "II", b[256:264])
        if enc != self.ENC[j.f.codec]:
            out.append("data element type %d for codec %02x" % (enc, j.f.codec))
        if ds != min(audio, 0x7FFFFFFF) or audio != j.n * j.bw:
            out.append("data element size %d, file holds %d audio bytes, %d written" % (ds, audio, j.n * j.bw))
        return out

    def hdr_len(self, b):
        return 264

    def mutants(self, b, rng):
        """every layout mat5_read_header accepts, and its refusals"""
        out = []
        if len(b) < 264:
            return out
        le = b[126:128] == b"IM"
        e = "<" if le else ">"
        P = lambda *v: struct.pack(e + "%dI" % len(v), *v)
        rest = b[264:]
        A, B = b[:192], b[200:264]
        rate = struct.unpack(e + "I", b[196:200])[0] if b[192:196] == P(0x00040006) else struct.unpack(e + "H", b[196:198])[0]
        # the rate element in its three forms, with every interesting value
        for v in (0, 1, 255, 256, 44100, 65535, 65536, 0x7FFFFFFF, 0x80000000, 0xFFFFFFFF):
            out.append(("uint=%d" % v, A + P(0x00040006, v) + B + rest))
            out.append(("ushort=%d" % v, A + P(0x00020004) + struct.pack(e + "HH", v & 0xFFFF, v >> 16) + B + rest))
        for v in (0.0, 1.0, 8000.0, 44100.0, 65536.0, 2147483647.0, 2147483648.0, 0.5, 1.5, 2.5, 44100.25, -8000.0, 1e300, float("inf"), float("nan")):
            out.append(("double=%r" % v, A + P(9, 8) + struct.pack(e + "d", v) + B + rest))
        for ty in (0, 1, 2, 3, 4, 5, 6, 7, 8, 0x00020003, 0x00040005, 0x00020006, 0x00040004, 0x04000200, 0x06000400):
            out.append(("ratetype=%x" % ty, A + P(ty, rate) + B + rest))
        # names: miINT8 of every size class, compressed names
        for which, off in (("n1", 168), ("n2", 240)):
            head, tail = b[:off], b[off + (24 if which == "n1" else 16):]
            for sz in (0, 1, 7, 8, 9, 10, 15, 16, 17, 31, 32, 33, 0x7FFFFFFF, 0x80000000, 0xFFFFFFFF):
                body = (b"n" * sz + bytes((8 - sz % 8) % 8)) if sz < 64 else b""
                out.append(("%s-size=%d" % (which, sz), head + P(1, sz) + body + tail))
            out.append(("%s-nopad" % which, head + P(1, 10) + b"samplerate" + tail))
            for sz in (0, 1, 4, 5, 0x7FFF, 0x8000, 0xFFFF):
                out.append(("%s-comp=%d" % (which, sz), head + P(sz << 16 | 1) + b"abcd" + tail))
            for ty in (0, 2, 4, 0x10002, 0x10000):
                out.append(("%s-type=%x" % (which, ty), head + P(ty, 8) + b"wavedata" + tail))
        # the first matrix not 1 x 1: it is the audio matrix, 44100 Hz
        for r, c in ((2, 1), (1, 2), (0, 0), (0, 5), (3, 0), (1024, 1), (1025, 1), (0xFFFFFFFF, 1), (0x80000000, 0)):
            for ty in (2, 3, 5, 7, 9, 4, 0):
                out.append(("norate-%dx%d-t%d" % (r, c, ty), b[:160] + P(r, c) + b[168:192] + P(ty, 0) + rest))
        # fixed tags
        for off, nm in ((128, "mx1"), (136, "fl1"), (152, "dm1"), (200, "mx2"), (208, "fl2"), (224, "dm2"), (256, "enc")):
            for v in (0, 1, 2, 3, 4, 5, 6, 7, 8, 9, 14, 15, 0x0E000000, 0x10005, 0xFFFFFFFF):
                out.append(("%s=%x" % (nm, v), b[:off] + P(v) + b[off + 4:]))
        for off, nm in ((132, "sz1"), (140, "fsz1"), (144, "flg1"), (156, "dsz1"), (204, "sz2"), (212, "fsz2"), (228, "dsz2"), (260, "dsize")):
            for v in (0, 1, 7, 9, 0x7FFFFFFF, 0xFFFFFFFF):
                out.append(("%s=%x" % (nm, v), b[:off] + P(v) + b[off + 4:]))
        for r in (0, 1, 2, 3, 1024, 1025, 0x7FFFFFFF, 0x80000000, 0xFFFFFFFF):
            for c in (0, 1, 0xFFFFFFFF):
                out.append(("dims=%dx%d" % (r, c), b[:232] + P(r, c) + b[240:]))
        # endian marker and text
        for m in (b"IM", b"MI", b"im", b"\0\0", b"MM", b"II"):
            out.append(("marker=%s" % m.hex(), b[:126] + m + b[128:]))
        out.append(("swapped", b[:124] + (b"\x01\x00MI" if le else b"\x00\x01IM") + b[128:]))
        out.append(("version=0", b[:124] + bytes(2) + b[126:]))
        out.append(("text-nonul", b[:124].replace(b"\0", b" ") + b[124:]))
        out.append(("text-nul-last", b[:124].replace(b"\0", b" ")[:123] + b"\0" + b[124:]))
        out.append(("text-nul-8", b[:8] + b"\0" + b[9:]))
        out.append(("text-other", b"MATLAB 5" + b"x" * 100 + b"\0" + b" " * 15 + b[124:]))
        for d in (1, 2, 3, 5, 7, 8, 9):
            out.append(("tail+%d" % d, b + bytes(d)))
        return out


# ---------------------------------------------------------------- SDS (the packets carry the audio: own sessions, whole store images)

SDS_W = {1: 2, 2: 3, 3: 4}        # PCM_S8 / 16 / 24 -> seven-bit bytes per sample


class SdsJob:
    def __init__(self, f, sr, parts, stale, auto, rng):
        self.f, self.sr, self.parts, self.stale, self.auto = f, sr, list(parts), stale, auto
        self.n = sum(parts)
        self.w = SDS_W[f.codec]
        self.spb = 120 // self.w
        self.vals = [rng.choice([rng.randrange(2 ** 32), rng.randrange(2 ** 32), 0x7FFFFFFF, 0x80000000, 0, 0xFFFFFFFF]) for _ in range(self.n)]

    def name(self, i):
        return "%s-r%d-n%s-%d" % (self.f.name, self.sr, "+".join(map(str, self.parts)), i)

    def chunk(self, k):
        a = sum(self.parts[:k])
        return self.vals[a:a + self.parts[k]]

    def script(self, stale=None, tail=True, plain=False):
        """plain: the same samples in ONE write call, no header update, no auto mode"""
        st = self.stale if stale is None else stale
        L = ["open h0 s0 w fmt=%08x ch=1 sr=%d frames=%d" % (self.f.word, self.sr, st), "dump s0"]
        if plain:
            if self.n:
                L.append("w h0 s32 i %d %s" % (self.n, "".join("%08x" % v for v in self.vals)))
            L += ["dump s0", "copy s1 s0"]
        else:
            if self.auto:
                L.append("cmd h0 1061 1 null")
            for k, p in enumerate(self.parts):
                if p > 0:
                    L.append("w h0 s32 i %d %s" % (p, "".join("%08x" % v for v in self.chunk(k))))
                if k == 0:
                    if not self.auto:
                        L.append("cmd h0 1060 0 null")
                    L += ["dump s0", "copy s1 s0"]
        L += ["close h0", "dump s0"]
        if tail:
            L += ["open h1 s0 r", "r h1 s32 i %d" % (self.n + 3), "close h1", "open h2 s1 r", "r h2 s32 i %d" % (self.parts[0] + 3)]
        return "\n".join(L) + "\n"

    def model_line(self):
        ops = ["d"]
        for k, p in enumerate(self.parts):
            if p > 0:
                ops.append(("X" if self.auto else "x") + "".join("%08x" % v for v in self.chunk(k)))
            if k == 0:
                if not self.auto:
                    ops.append("u")
                ops.append("d")
        ops += ["c", "d"]
        return "session codec=%02x ch=1 sr=%d stale=%d ops=%s" % (self.f.codec, self.sr, self.stale, ";".join(ops))

    def masked(self, vals):
        m = (0xFFFFFFFF << (32 - 7 * self.w)) & 0xFFFFFFFF
        return [v & m for v in vals]


def sds_rate_ok(sr, got):
    """C04 for the sample-period field (nanoseconds, 21 bits): exact when the rate divides 10^9, else within one of 10^9 / period;
    rates whose period does not fit the field (below 477 Hz, above 1 GHz) cannot be expressed: any positive rate"""
    p = 10 ** 9 // sr
    if p == 0 or p >= 2 ** 21:
        return got >= 1
    if 10 ** 9 % sr == 0:
        return got == sr
    # the period truncated (what the library does) or rounded to the nearest nanosecond, read back truncated or rounded up
    return got in (10 ** 9 // p, -(-10 ** 9 // p), 10 ** 9 // (p + 1), -(-10 ** 9 // (p + 1)))


def sds_dec3(b):
    return (b[0] & 0x7F) | (b[1] & 0x7F) << 7 | (b[2] & 0x7F) << 14


def sds_layout_problems(j, b, frames):
    """independent reading of a closed SDS file: header fields, packet framing, checksums, zero padded last packet"""
    out = []
    nb = -(-j.n // j.spb)
    if len(b) != 21 + 127 * nb:
        return ["file length %d, expected 21 + 127 * %d packets for %d frames" % (len(b), nb, j.n)]
    if b[:7] != bytes([0xF0, 0x7E, 0, 1, 0, 0, 8 * j.f.codec]) or b[13:21] != bytes(7) + b"\xf7":
        out.append("fixed header fields %s" % b[:21].hex())
    if any(x & 0x80 for x in b[1:20]):
        out.append("a header data byte has bit 7 set: %s" % b[:21].hex())
    if sds_dec3(b[7:10]) not in ((10 ** 9 // j.sr) % 2 ** 21, (10 ** 9 // j.sr + 1) % 2 ** 21):
        out.append("sample period field %d for %d Hz" % (sds_dec3(b[7:10]), j.sr))
    if sds_dec3(b[10:13]) != j.n % 2 ** 21 or sds_dec3(b[10:13]) != frames % 2 ** 21:
        out.append("data length field %d, %d frames written, %d reported" % (sds_dec3(b[10:13]), j.n, frames))
    want = j.masked(j.vals) + [0] * (nb * j.spb - j.n)
    for k in range(nb):
        p = b[21 + 127 * k:21 + 127 * (k + 1)]
        if p[:5] != bytes([0xF0, 0x7E, 0, 2, k & 0x7F]) or p[126] != 0xF7:
            out.append("packet %d framing %s … %s" % (k, p[:5].hex(), p[125:].hex()))
        ck = 0
        for x in p[1:125]:
            ck ^= x
        if p[125] != ck & 0x7F:
            out.append("packet %d checksum %02x, bytes give %02x" % (k, p[125], ck & 0x7F))
        got = []
        for q in range(j.spb):
            u = 0
            for t in range(j.w):
                u |= p[5 + q * j.w + t] << (25 - 7 * t)
            got.append((u - 0x80000000) % 2 ** 32)
        if got != want[k * j.spb:(k + 1) * j.spb]:
            x = next(q for q in range(j.spb) if got[q] != want[k * j.spb + q])
            out.append("packet %d sample %d is %08x, expected %08x" % (k, x, got[x], want[k * j.spb + x]))
        if len(out) > 4:
            break
    return out


def sds_read_items(line):
    d = small2.kv(line)
    h = d.get("data", "")
    if h in ("", "null"):
        return []
    return [int(h[i:i + 8], 16) for i in range(0, len(h), 8)]


def sds_predicate(j, dumps, lines, plain_final):
    probs = []
    final = dumps[2]
    reopen, rd, crash, crd = lines[-5], lines[-4], lines[-2], lines[-1]
    if not reopen.startswith("open=ok"):
        probs.append("re-open of the closed file fails: " + reopen)
    else:
        d = small2.kv(reopen)
        if int(d["ch"]) != 1:
            probs.append("channels %s" % d["ch"])
        if int(d["fmt"], 16) != 0x110000 | j.f.codec:
            probs.append("format word %s, expected %08x" % (d["fmt"], 0x110000 | j.f.codec))
        if not sds_rate_ok(j.sr, int(d["sr"])):
            probs.append("sample rate %s, requested %d (the period field holds %d ns)" % (d["sr"], j.sr, (10 ** 9 // j.sr) % 2 ** 21))
        fr = int(d["frames"])
        if fr != j.n:
            probs.append("frames %d, %d written" % (fr, j.n))
        if not rd.startswith("ret=%d " % fr):
            probs.append("reading to end of file: %s, %d frames announced" % (rd[:40], fr))
        elif sds_read_items(rd)[:j.n] != j.masked(j.vals):
            probs.append("the samples read back differ from the samples written (top %d bits)" % (7 * j.w))
        probs += sds_layout_problems(j, final, fr)
    a = j.parts[0]
    if a > 0 or not j.auto:
        if not crash.startswith("open=ok"):
            probs.append("[C11] the image left by the header update cannot be opened: " + crash)
        else:
            d = small2.kv(crash)
            if (int(d["ch"]), int(d["fmt"], 16), int(d["frames"])) != (1, 0x110000 | j.f.codec, a) or not sds_rate_ok(j.sr, int(d["sr"])):
                probs.append("[C11] the image left by the header update reports %s, expected frames=%d" % (crash.strip(), a))
            elif not crd.startswith("ret=%d " % a) or sds_read_items(crd)[:a] != j.masked(j.vals[:a]):
                probs.append("[C11] the image left by the header update does not read back the %d frames written so far: %s" % (a, crd[:60]))
    if plain_final is None or plain_final != final:
        probs.append("[C11] the closed bytes differ from those of the same samples written with one call, no header update and another stale SF_INFO.frames")
    return probs


def sds_mutants(b, rng):
    out = []
    for c in sorted(set(list(range(0, 24)) + [21 + 126, 21 + 127, 21 + 128, 21 + 129, len(b) - 1, len(b) - 126])):
        if 0 <= c <= len(b):
            out.append(("trunc@%d" % c, b[:c]))
    for bw in list(range(0, 32)) + [0x7F, 0x80, 0xFF]:
        out.append(("bitwidth=%d" % bw, b[:6] + bytes([bw]) + b[7:]))
    for v in (b"\0\0\0", b"\1\0\0", b"\x7f\x7f\x7f", b"\x80\0\0", b"\xff\xff\xff", b"\0\1\0", bytes(rng.randrange(256) for _ in range(3))):
        out.append(("period=%s" % v.hex(), b[:7] + v + b[10:]))
        out.append(("length=%s" % v.hex(), b[:10] + v + b[13:]))
        out.append(("loop=%s" % v.hex(), b[:13] + v + v + b[19:]))
    for p in (0, 1, 2, 3, 4, 5, 19, 20):
        for v in {0, 0xFF, b[p] ^ 1, b[p] ^ 0x80} - {b[p]}:
            out.append(("byte%d=%02x" % (p, v), b[:p] + bytes([v]) + b[p + 1:]))
    if len(b) >= 21 + 127:
        out.append(("marker0", b[:21] + b"\0\0" + b[23:]))
        out.append(("marker0x", b[:21] + b"\0\1" + b[23:]))
        if len(b) >= 21 + 254:
            out.append(("marker0-2nd", b[:148] + b"\0\0" + b[150:]))
        out.append(("drop-last", b[:-127]))
        out.append(("chk", b[:21 + 125] + bytes([b[21 + 125] ^ 0x55]) + b[21 + 126:]))
    for t in (b"\1", b"\0", b"\0\0", b"\1\1", b"\xf0\x7e\0", bytes(127), b"\xf0" * 127, b"\xf0" * 128, b"\xf0" * 129):
        out.append(("tail+%d:%s" % (len(t), t[:2].hex()), b + t))
    return out


def run_sds(ctx, found=False):
    quick = ctx.tier == "quick"
    rng = ctx.rng
    fmts = [f for f in FM.writable_formats(ctx) if f.major == 0x11 and f.codec in SDS_W]
    if not fmts:
        return False
    rates = [1, 250, 476, 477, 8000, 11025, 22050, 44100, 48000, 96000, 10 ** 6, 3200000, 5000000, 6000000, 9999999, 320000000, 500000001, 600000000, 10 ** 9, 10 ** 9 + 1, 2 ** 31 - 1, rng.randrange(477, 200000), rng.randrange(1, 2 ** 31)]
    jobs = []
    seen_fmt = set()
    for f in fmts:
        spb = 120 // SDS_W[f.codec]
        first = f.codec not in seen_fmt
        seen_fmt.add(f.codec)
        lens = [0, 1, 2, spb - 1, spb, spb + 1, 2 * spb, 2 * spb + 7, 3 * spb - 1, 128 * spb + 3 if first else 5]
        if first and f.codec == 1:
            lens.append(16384 + 5)          # all three 7-bit groups of the data-length field in use; packet numbers wrap at 128
        if not quick:
            lens += [4 * spb, 5 * spb + 1, 257 * spb]
        for n in lens:
            cuts = {0, n, rng.randrange(0, n + 1), (n // spb) * spb, max(0, (n // spb) * spb - 1), min(n, spb + 3)}
            if n > 10000:
                cuts = {rng.randrange(0, n + 1)}
            for a in sorted(cuts if (first or not quick) else list(cuts)[:2]):
                jobs.append(SdsJob(f, rng.choice(rates), [a, n - a], rng.choice([0, 3, 99999]), rng.random() < 0.3, rng))
        if first:
            for sr in rates:
                n = rng.choice([1, 2, spb, spb + 2])
                jobs.append(SdsJob(f, sr, [rng.randrange(0, n + 1), 0], rng.choice([0, 12345]), False, rng))
                jobs[-1].parts[1] = n - jobs[-1].parts[0]
                jobs[-1].n = n
                jobs[-1].vals = [rng.randrange(2 ** 32) for _ in range(n)]
    scripts = [(j.name(i), j.script()) for i, j in enumerate(jobs)]
    twins = [("plain-" + j.name(i), j.script(stale=j.stale + 54321, tail=False, plain=True)) for i, j in enumerate(jobs)]
    impl = ctx.batch(scripts + twins, workers=4)
    model = ctx.run_model(["small4", "sds"], "".join(j.model_line() + "\n" for j in jobs)).split("\n")
    stats = {"sessions": 0, "images": 0, "bytes_compared": 0, "twins": 0, "parse_cases": 0, "parse_unmodelled": 0, "parse_ok": 0, "parse_err": 0, "seeks": 0}
    corr, pred, files = [], [], []
    for i, j in enumerate(jobs):
        name, script = scripts[i]
        lines = [l for l in impl.get(name, []) if not l.startswith(("Error A :", "Error 1 :"))]
        stats["sessions"] += 1
        ctx.distinct.add("sds:%s:n%d" % (j.f.name, min(j.n // j.spb, 3)))
        dumps = [small2.parse_dump(l) for l in lines if l.startswith("len=") and "hex=" in l]
        if any(l.startswith(("CRASH", "ABORT", "TIMEOUT")) for l in lines) or len(dumps) != 3 or len(lines) < 9:
            pred.append((j, name, ["the implementation died or the transcript is incomplete: %s" % (lines[-1:] or "")]))
            continue
        pl = impl.get("plain-" + name, [])
        pd = [small2.parse_dump(l) for l in pl if l.startswith("len=") and "hex=" in l]
        stats["twins"] += 1
        probs = sds_predicate(j, dumps, lines, pd[2] if len(pd) == 3 else None)
        # each check reports the clauses of its own property: C11 the update images and the independence of the closed file from
        # header updates, C07 that independence alone, C04 everything
        if ctx.prop == "C11":
            probs = [p for p in probs if p.startswith("[C11]")]
        elif ctx.prop == "C07":
            probs = [p for p in probs if "closed bytes differ" in p]
        diffs = []
        mrep = [small2.kv(r) for r in model[i].split(" | ")] if i < len(model) and model[i].startswith("img=") else []
        if len(mrep) != 3:
            diffs.append("model gave no answer: %s" % (model[i][:80] if i < len(model) else "<missing>"))
        else:
            for k, (b, m) in enumerate(zip(dumps, mrep)):
                h = bytes.fromhex(m.get("img", ""))
                stats["bytes_compared"] += len(h)
                stats["images"] += 1
                where = ["after open", "after the header update", "after close"][k]
                if len(b) != len(h):
                    diffs.append("%s: %d bytes, model %d" % (where, len(b), len(h)))
                elif b != h:
                    x = next(q for q in range(len(h)) if b[q] != h[q])
                    diffs.append("%s: byte %d (packet %d offset %d) is %02x, model %02x" % (where, x, (x - 21) // 127, (x - 21) % 127, b[x], h[x]))
        if probs:
            pred.append((j, name, probs))
        elif diffs:
            corr.append((j, name, diffs))
        files.append((j, dumps[1], dumps[2]))
    # reader: library files and mutants through sf_open (+ a seek to the announced frame count) and the model
    cases, seenb = [], set()
    per = {}
    for (j, snap, final) in files:
        if len(final) > 3000:
            continue
        for tag, m in (("final", final), ("snap", snap)):
            if m not in seenb:
                seenb.add(m)
                cases.append(("%s:%s" % (j.f.name, tag), m, j.spb))
        if per.get(j.f.codec, 0) < (2 if quick else 6) and 1 <= j.n and len(final) <= 21 + 127 * 3:
            per[j.f.codec] = per.get(j.f.codec, 0) + 1
            for tag, m in sds_mutants(final, rng):
                if m not in seenb:
                    seenb.add(m)
                    cases.append(("%s:%s" % (j.f.name, tag), m, j.spb))
    group = 40
    rmodel = ctx.run_model(["small4", "sds"], "".join("parse %s\n" % (m.hex() or "-") for (_, m, _) in cases)).split("\n")
    rscripts = []
    for g in range(0, len(cases), group):
        L = []
        for q, (tag, m, spb) in enumerate(cases[g:g + group]):
            ml = rmodel[g + q] if g + q < len(rmodel) else ""
            fr = int(small2.kv(ml).get("frames", 0)) if ml.startswith("ok ") else 0
            # the seek to the announced end exercises psds->total_blocks, the result of the header's packet scan
            L += ["store s0 %s" % m.hex(), "open h0 s0 r", "seek h0 %d 0" % fr, "close h0"]
        rscripts.append(("sds-parse-%d" % (g // group), "\n".join(L) + "\n"))
    rimpl = ctx.batch(rscripts, workers=4)
    bad = []
    for gi, (name, text) in enumerate(rscripts):
        # sds_Nbyte_read reports a bad packet start with printf ("Error A : %02X\n") on stdout: not transcript lines
        lines = [l for l in rimpl.get(name, []) if not l.startswith(("Error A :", "Error 1 :"))]
        for k, (tag, m, spb) in enumerate(cases[gi * group:(gi + 1) * group]):
            ci = gi * group + k
            il = lines[4 * k + 1] if 4 * k + 1 < len(lines) else "<missing>"
            sl = lines[4 * k + 2] if 4 * k + 2 < len(lines) else "<missing>"
            ml = rmodel[ci] if ci < len(rmodel) else "<missing>"
            stats["parse_cases"] += 1
            ctx.distinct.add("sds:parse:%s" % tag.split(":", 1)[1].split("@")[0].split("=")[0][:10])
            if ml == "unmodelled":
                stats["parse_unmodelled"] += 1
                continue
            if il.startswith("open=ok"):
                d = small2.kv(il)
                want = "ok ch=%s sr=%s frames=%s fmt=%s" % (d["ch"], d["sr"], d["frames"], d["fmt"])
                stats["parse_ok"] += 1
            elif il.startswith("open=NULL"):
                want = "err"
                stats["parse_err"] += 1
            else:
                want = il
            if want != ml.split(" blocks=")[0]:
                bad.append((tag, m, il, ml))
            elif ml.startswith("ok "):
                stats["seeks"] += 1
                if small2.kv(sl).get("ret") != small2.kv(ml).get("seekend"):
                    bad.append((tag + ":seek-to-end", m, sl, ml))
    back = ctx.run_model(["small4", "sds"], "".join("quant %d\n" % r for r in rates)).split("\n")
    qbad = [(r, l) for r, l in zip(rates, back) if not l.isdigit() or l != str((10 ** 9 // ((10 ** 9 // r) % 2 ** 21)) if (10 ** 9 // r) % 2 ** 21 else 16000)]
    ctx.count(stats["sessions"] * 14 + stats["parse_cases"] + len(rates))
    ctx.coverage["traces_validated_against_impl"] += stats["sessions"] + stats["twins"] + stats["parse_cases"]
    ctx.notes.setdefault("small4", {})["sds"] = {"formats": [f.name for f in fmts], "writer": {k: stats[k] for k in ("sessions", "images", "bytes_compared", "twins")},
                                                "reader": {k: stats[k] for k in ("parse_cases", "parse_ok", "parse_err", "parse_unmodelled")},
                                                "writer_disagreements": len(corr), "predicate_failures": len(pred), "reader_disagreements": len(bad),
                                                "rate_quantiser_disagreements": len(qbad),
                                                "rule": "every PCM width x N {0,1,2,spb-1,spb,spb+1,2spb,2spb+7,3spb-1,128spb+3} x update points {0,N,random,last packet boundary,one before it,spb+3} "
                                                        "x listed rates; s32 samples incl. extremes; three WHOLE store images per session vs the model; plain twin (one call, no update, other stale frames) "
                                                        "must give the same closed bytes; re-open, read to EOF and compare samples, crash image read back; library files + mutants through sf_open and parse"}
    reported = False
    for (j, name, probs) in pred[:2]:
        reported = True
        c11 = all(p.startswith("[C11]") for p in probs)
        text = "# %s violated on the implementation's own transcript (SDS container campaign)\n# format %s, %d Hz, frames per call %s, stale frames %d, header update %s\n# %s\n" % (
            ctx.prop if ctx.prop in ("C07", "C11") else ("C11" if c11 else "C04"), j.f.name, j.sr, j.parts, j.stale, "in auto mode" if j.auto else "by SFC_UPDATE_HEADER_NOW after the first call", "; ".join(probs)[:1500])
        sc = j.script()
        if any("closed bytes differ" in p for p in probs):
            sc += "# the same samples, one call, no header update:\n" + "\n".join("# " + l for l in j.script(stale=j.stale + 54321, tail=False, plain=True).split("\n")[:-1]) + "\n"
        ctx.violation("%s-sds-%s" % (ctx.prop.lower(), name), text + "--- script\n" + sc)
    if not reported and not found:
        if corr:
            j, name, diffs = corr[0]
            reported = True
            ctx.violation("%s-sds-correspondence-%s" % (ctx.prop.lower(), name),
                          "# correspondence stream 'SDS writer (Sf.SdsFile session) vs sds.c' no longer agrees: %d of %d sessions differ\n# first: %s\n# %s\n"
                          "# the C04 / C11 predicates hold on the implementation's own transcripts: no failing input found\n--- script\n%s" % (len(corr), stats["sessions"], name, "; ".join(diffs)[:1500], j.script()), no_input=True)
        elif bad and ctx.prop == "C04":
            tag, m, il, ml = bad[0]
            reported = True
            ctx.violation("%s-sds-parse-%s" % (ctx.prop.lower(), tag),
                          "# correspondence stream 'SDS reader (Sf.SdsFile.parse) vs sf_open' no longer agrees: %d of %d files differ\n# first: %s\n# implementation: %s\n# model: %s\n"
                          "# these are hand-mutated files; the C04 predicate speaks about files the library wrote and holds on them: no failing input found\n"
                          "observed-last %s\n--- script\nstore s0 %s\nopen h0 s0 r\n" % (len(bad), stats["parse_cases"], tag, il, ml, il.strip(), m.hex()), no_input=True)
        elif qbad:
            reported = True
            ctx.violation("%s-sds-quant" % ctx.prop.lower(), "# the model's SDS rate quantiser disagrees with 10^9 / ((10^9 / rate) mod 2^21) at %d Hz: model %s\n" % qbad[0], no_input=True)
    if jobs:
        ctx.sample({"kind": "sds session", "script": jobs[0].script()[:400], "model_request": jobs[0].model_line()[:300]})
    ctx._sds_debug = (corr, pred, bad, qbad, stats)
    return reported


CONTS = [Mat5()]


def run(ctx, found=False, only=None):
    """called from vlib/props/c04.py after the other C04 campaigns; returns True when it reported a violation"""
    r = small2.run(ctx, found=found, only=only, conts=CONTS, key="small4")
    if not only or "sds" in only:
        r = run_sds(ctx, found=found or r) or r
    return r
