"""C08 (and the RDWR corner of C04): SFM_RDWR handles on EXISTING files of EVERY format that opens SFM_RDWR.

Why this exists (round 9, report "re-opening an SDS file in SFM_RDWR and closing it loses the frame count"): campaign B of
vlib/props/c08.py, vlib/rdwrtail.py and vlib/cmdops.py take their formats from one list, "sample-granular, lossless for some caller
type" minus the block-packed PCM containers (SDS, XI DPCM, PAF 24 bit), because their random histories overwrite in the middle of
blocks.  The library nevertheless OPENS those containers (and the G.72x / NMS codecs) in SFM_RDWR, and the last sentence of the
statement -- "after close, a fresh open sees exactly the final frame sequence and count, and existing content not overwritten is
preserved" -- is about every container that can be opened SFM_RDWR.  Nothing ever opened such a file read/write: sds_open rewrote
the header of an existing file with `total_written` = 0 the moment the handle was opened.

What is enumerated (deterministic; the seed only picks the sample values), for EVERY (container, encoding) `sf_format_check`
accepts, mono (and stereo where the container has it) and two lengths (100 frames: inside a block of every block-packed
encoding; 120 frames: a whole number of 30 / 40 / 60-sample SDS packets and of 10-frame PAF blocks):

  make      open w, write N frames, close                             (the file under test is the library's own)
  reference open r, read everything through ONE caller type, close    (F0 frames: the stream `sfmodel abs` judges against; works
                                                                       for lossy codecs too -- the file must keep READING the same)
  idle      open rw, info, close; open r, info, read everything       frames = F0 in both handles, the stream is the reference
  append    open rw, write K frames (the write pointer of a fresh SFM_RDWR handle is the end of the audio), info, close;
            open r, info, read everything                             F0 + K frames: the reference followed (lossless caller
                                                                       type) by the K frames
  A container that refuses SFM_RDWR at open is skipped (`skip`); a handle that reports seekable = 0 and REFUSES the write (returns
  0 with an error: XI DPCM "what to do about write???", G.72x / NMS without a read/write codec) has refused cleanly -- the two
  lines are dropped and the file must still read as before.

THE PREDICATE is Lean: `Sf.Abs.check` through `sfmodel abs`, started in the state "closed file of F0 frames whose stream is the
reference read" (reopenOk / infoOk / writeOk / readOk; lean/SfModel/Abs.lean).  The model of the repaired SDS rule and of the rule
before it is lean/SfModel/SdsRdwr.lean (theorems lean/SfProps/C08SdsRdwr.lean).

Known class (KF-SDS-RDWR-PARTIAL-PACKET): an SDS write that starts INSIDE a packet (write position not a multiple of the samples per
packet: a fresh SFM_RDWR handle on a file whose length is not, or a seek) -- sds_seek loads the packet into the READ buffer and
leaves the descriptor behind it, so the samples in front of the write position are zeroed and the packet lands one packet late.
Waived only for SDS, only when N is not a multiple of the packet length, only for the data of the append part, and only while the
witness fails.  Second known class (KF-G72X-RDWR-OPEN): G.72x opens SFM_RDWR without a codec and reports 0 frames -- waived only on
the `open rw` line of a G.72x file with clause `reopen-frames`.
"""
from . import scripts as S, geometry as G, formats, abslean, absreplay, rdwrtail

SDS = 0x11
SPB = {0x01: 60, 0x02: 40, 0x03: 30}          # SDS samples per packet by subtype
KF_ID = "KF-SDS-RDWR-PARTIAL-PACKET"
KF_G72X = "KF-G72X-RDWR-OPEN"


def caller_type(f):
    loss = G.lossless_types(f)
    if loss:
        ty = sorted(loss)[0]
        return ty, loss[ty], True
    return "s16", 0, False


def build(rng, f, ch, N, K):
    ty, lowzero, lossless = caller_type(f)
    fmt = "fmt=%08x ch=%d sr=8000" % (f.word, ch)
    v = rdwrtail._vals(rng, ty, N * ch, lowzero)
    v2 = rdwrtail._vals(rng, ty, K * ch, lowzero)
    L = ["open h0 s0 w " + fmt, S.w_line("h0", ty, "f", N, v), "close h0",
         "open h1 s0 r " + fmt, "r h1 %s i %d" % (ty, (N + 700) * ch), "close h1"]
    head = len(L)
    L += ["open h2 s0 rw " + fmt, "info h2", "close h2",
          "open h3 s0 r " + fmt, "info h3", "r h3 %s i %d" % (ty, (N + 700) * ch), "close h3"]
    app = len(L)
    L += ["open h4 s0 rw " + fmt, S.w_line("h4", ty, "f", K, v2), "info h4", "close h4",
          "open h5 s0 r " + fmt, "info h5", "r h5 %s i %d" % (ty, (N + K + 700) * ch), "close h5"]
    return L, head, app, ty, lossless


def in_known_class(f, N, k, app, head, tag):
    """the id of the known-finding class a failure lies in (class AND signature), or None"""
    if f.major == SDS and N % SPB.get(f.codec, 1) != 0 and k > app and tag == "data":
        return KF_ID                              # the appended samples of a write that started inside a packet
    if f.codec in G.G72X and k in (head, app) and tag == "reopen-frames":
        return KF_G72X                            # the `open rw` line itself
    return None


def run(ctx, prop="C08", quick=True):
    rng = ctx.rng
    fs = [f for f in formats.writable_formats(ctx) if not (f.word & 0x30000000) or f.major in (0x04, 0x0B)]
    st = ctx.notes.setdefault("rdwr_existing", {"formats": 0, "histories": 0, "refused_at_open": 0, "clean_write_refusals": 0,
                                                "judged_lines": 0, "known_class_hits": 0})
    jobs = []
    for f in fs:
        for ch in ([1] + ([2] if f.maxch >= 2 else [])):
            for N in (100, 120):
                if N == 120 and f.granular and ch == 2:
                    continue                      # the second length matters for block-packed encodings
                L, head, app, ty, lossless = build(rng, f, ch, N, 7)
                jobs.append(("rdwrexist-%s-%dch-%d" % (f.name, ch, N), f, ch, N, L, head, app, ty, lossless))
    st["formats"] = len(fs)
    out = ctx.batch([(j[0], "\n".join(j[4]) + "\n") for j in jobs], clean=True)
    judge = abslean.Judge(ctx)
    meta = {}
    for (name, f, ch, N, L, head, app, ty, lossless) in jobs:
        lines = [l for l in out.get(name, []) if l.startswith(ctx.TRANSCRIPT_PREFIXES)]
        if len(lines) < head or "open=ok" not in lines[0] or "open=ok" not in lines[3]:
            meta[name] = None                     # the format cannot be written / read back at all: C04 / C10 territory
            continue
        kv = abslean_kv(lines[4])
        try:
            ret = int(kv.get("ret", "-1"))
        except ValueError:
            ret = -1
        if ret < 0 or ret % ch or "data" not in kv:
            meta[name] = None
            continue
        F0 = ret // ch
        width = {"s16": 4, "s32": 8, "f32": 8, "f64": 16}[ty]
        ref = kv["data"][:ret * width]
        # a clean refusal of the append on a handle that is not seekable: the write returned 0 with an error set; the two lines
        # (write, info) leave the judged script -- the file must still read as before
        dropped = False
        Lj = L
        if len(lines) > app + 1 and "seekable=0" in lines[app] and lines[app + 1].startswith("ret=0 ") and "err=0" not in lines[app + 1].split():
            Lj = L[:app + 1] + L[app + 3:]
            lines = lines[:app + 1] + lines[app + 3:]
            dropped = True
        pairs = abslean._alive_pairs(Lj, lines, head)
        geom = abslean.geom_line(ch, F0, "r", block=G.block_frames(f, ch, 8000), strict=True, lossless=[ty] if lossless else [])
        judge.add(name, geom, {ty: ref}, None, pairs)
        meta[name] = (geom, F0, Lj, dropped, len(pairs))
    verdicts = judge.run()
    kfs = {k["id"]: k for k in ctx.known if k.get("id") in (KF_ID, KF_G72X) and k.get("status") == "known"}
    live = {i: bool(ctx.witness_still_fails(k)) for i, k in kfs.items()}
    found = False
    reported = set()
    for (name, f, ch, N, L, head, app, ty, lossless) in jobs:
        m = meta.get(name)
        if m is None:
            continue
        geom, F0, Lj, dropped, npairs = m
        v = verdicts[name]
        st["histories"] += 1
        ctx.count(len(L), tag="rdwr-existing:" + f.name)
        if v.status == "skip":
            st["refused_at_open"] += 1
            continue
        st["judged_lines"] += npairs
        st["clean_write_refusals"] += 1 if dropped else 0
        prob = None
        if v.first() is not None:
            k, tag, text = v.first()
            prob = (head + k, tag, "Lean predicate Sf.Abs.check: clause `%s` fails: %s" % (tag, text.strip()))
        elif npairs < len(Lj) - head:
            prob = (head + npairs, None, "transcript ends early (the call did not return / the process died)")
        if not prob:
            ctx.distinct.add("rdwr-existing-ok:" + f.name)
            continue
        k, tag, text = prob
        kid = in_known_class(f, N, k, app, head, tag)
        if kid:
            st["known_class_hits"] += 1
            if live.get(kid):
                ctx.known_finding(kfs[kid])
                continue
            text += " (class of %s, whose witness no longer fails or which is not listed as known)" % kid
        key = f.name.split("-")[0]
        if key in reported or len(reported) >= 4:
            continue
        reported.add(key)
        found = True
        body = (absreplay.header(geom, head, refreads={ty: 4}, clause=(tag, k)) if tag else "") + "--- script\n" + "\n".join(Lj[:k + 1]) + "\n"
        ctx.violation("%s-%s" % (prop.lower(), name),
                      "# %s violated on the implementation's own transcript: a file that exists is opened SFM_RDWR (idle: nothing written; append: 7 frames\n"
                      "# written at the end); a fresh open must see the old frames (and the appended ones) and the count\n"
                      "# format %s, %d channel(s), %d frames written into the file (the reference read, script line 4, delivered %d), caller type %s\n"
                      "# at script line %d: %s\n# %s\n%s"
                      % (prop, f.name, ch, N, F0, ty, k, Lj[k][:100], text, body))
    return found


def abslean_kv(line):
    from . import abscheck
    return abscheck.parse_kv(line)
