"""C11 (and C07's partition clause): CRASH POINTS EXACTLY ON A CODEC BLOCK BOUNDARY.

Why this exists (round 9, seed C11-gsm-full-block-deferred): a block writer may encode a block that a write call fills EXACTLY
either at once (what every `*_write_block` of the library does: the test `count >= samplesperblock -> encode` sits at the BOTTOM
of the copy loop) or lazily, when the next sample arrives.  The finished files are the same; the image after a header update is
one block short in the second case, and only when the write call ends ON the boundary.  The all-format write campaign draws its
call sizes from a seeded list, so a call that ends exactly on a boundary AND is followed by a crash point is rare.

What is enumerated (deterministic, no seed-dependent sampling): every writable block encoding with a rewritable header (IMA / MS
ADPCM, GSM 6.10, G.72x, NMS ADPCM, PAF 24-bit, and SDS whose packets are flushed by the header update) x channel counts x both
update modes (SFC_SET_UPDATE_HEADER_AUTO on from the start; SFC_UPDATE_HEADER_NOW after every write call), the call sizes

        B, B-1, 1, B+1, B-1, 2B, 1        (running totals  B, 2B-1, 2B, 3B+1, 4B, 6B, 6B+1)

so that a crash point is taken with the total exactly ON a boundary (reached by a call of one block, by a call of one frame, by
a call that completes a partly filled block, by a call of exactly two blocks), one frame BEFORE and one frame BEHIND it.
THE PREDICATE is Lean: `Sf.AbsWrite.judge` (clauses snapshot-frames = floorToBlock Nk B <= F, snapshot-short, snapshot-data,
partition); the model side of the class is lean/SfProps/C11BlockEdge.lean (`write_leaves_no_full_block`: after every write call of
ANY `Sf.Block.Writer` the emitted blocks are ALL complete blocks of the frames handed over; `lazy_rule_defers_block`: the lazy
loop is not)."""
from . import writecamp as W, formats, geometry as G, abswrite as AW, scripts as S

# encodings whose crash-point images are outside the clause: no rewritable header (RAW), assembled at close (ALAC: excluded by the
# statement), DWVW (bit-packed, no blocks: KF-DWVW-BUFFERED is its own recorded finding)
SKIP_CODECS = (0x40, 0x41, 0x42, 0x43, 0x70, 0x71, 0x72, 0x73)


class EdgeJob(W.Job):
    """a write job whose split run is fixed: call sizes around the block boundary, a crash point after every call"""
    mode = "auto"

    def sizes(self):
        B = self.B if self.B > 1 else 60          # SDS: 60 = the packet size in samples for 16-bit words is 60, 40 for wider ones
        return [B, B - 1, 1, B + 1, B - 1, 2 * B, 1]

    def script_split(self, rng, updates=True):
        ch = self.ch
        self.parts = [k for k in self.sizes() if k > 0]
        L = ["open h0 s1 w fmt=%08x ch=%d sr=%d frames=%d" % (self.fmt.word, ch, self.sr, self.garbage)]
        if self.mode == "auto":
            L.append("cmd h0 1061 1 null")
        done, store = 0, 2
        self.snaps = []
        for pi, k in enumerate(self.parts):
            unit = "fi"[pi % 2]
            seg = self.vals[done * ch:(done + k) * ch]
            L.append(S.w_line("h0", self.ty, unit, k if unit == "f" else k * ch, seg))
            done += k
            if self.mode == "now":
                L.append("cmd h0 1060 0 null")
            L.append("copy s%d s1" % store)
            self.snaps.append((store, done))
            store += 1
        L += ["close h0", "dump s1"]
        for (st, nf) in self.snaps:
            h = "h%d" % (st % 8)
            L += [self.open_r(h, "s%d" % st), "info %s" % h, "r %s %s i %d" % (h, self.ty, (nf + 8) * ch), "close %s" % h]
        return "\n".join(L) + "\n"


def block_formats(ctx, every_endian):
    fs = [f for f in formats.writable_formats(ctx) if f.major not in (0x04, 0x16) and f.codec not in SKIP_CODECS
          and (G.block_frames(f, 1, 8000) > 1 or f.major == 0x11)]
    if every_endian:
        return fs
    seen, out = set(), []
    for f in sorted(fs, key=lambda f: (f.major, f.codec, f.endian)):
        if (f.major, f.codec) not in seen:
            seen.add((f.major, f.codec))
            out.append(f)
    return out


def make_jobs(ctx):
    rng = ctx.rng
    quick = ctx.tier == "quick"
    jobs = []
    for f in block_formats(ctx, not quick):
        for ch in sorted(set(min(c, f.maxch) for c in ((1, 2) if quick else (1, 2, 3)))):
            sr = 8000
            B = G.block_frames(f, ch, sr)
            for mode in ("auto", "now"):
                j = EdgeJob(f, ch, sr, 0, "s16", [], None)
                j.mode = mode
                j.n = sum(j.sizes())
                j.ty = ("s16", "s32", "f32", "f64")[(len(jobs)) % 4]
                j.vals = W.gen_values(rng, j.ty, j.n * ch, 0, unit=j.ty in ("f32", "f64"))
                j.garbage = 0
                jobs.append(j)
    return jobs


def run(ctx, prop):
    """returns True when a violation with a concrete failing input was reported"""
    from .props._write_common import CATS, in_scope, known_class
    jobs = make_jobs(ctx)
    res = AW.decide(ctx, W.run_jobs(ctx, jobs, updates=True))
    st = ctx.notes.setdefault("block_edge", {"jobs": 0, "formats": 0, "crash_points_on_a_boundary": 0, "crash_points": 0, "failing": 0})
    st["jobs"] += len(jobs)
    st["formats"] = len({j.fmt.name for j in jobs})
    found = False
    reported = set()
    for r in res:
        j = r["job"]
        B = j.B if j.B > 1 else 1
        st["crash_points"] += len(j.snaps)
        st["crash_points_on_a_boundary"] += sum(1 for (_, nf) in j.snaps if nf % B == 0)
        ctx.count(len(j.parts) + 4 + 3 * len(j.snaps), tag="blockedge:" + j.fmt.name)
        ctx.distinct.add("blockedge:%s:%s" % (j.fmt.name, j.mode))
        for (cat, text, which, line) in r["problems"]:
            if cat not in CATS[prop] or not in_scope(prop, j, cat):
                continue
            kf = known_class(j, cat, text)
            ent = next((k for k in ctx.known if k["id"] == kf and k.get("status") == "known" and prop in k.get("properties", [])), None) if kf else None
            if ent and ctx.witness_still_fails(ent) is not False:
                ctx.known_finding(ent)
                continue
            st["failing"] += 1
            key = (j.fmt.name, cat)
            if key in reported or sum(1 for k in reported if k[1] == cat) >= 3:
                continue
            reported.add(key)
            found = True
            ctx.violation("%s-blockedge-%s-%s-%s" % (prop.lower(), j.fmt.name, j.mode, cat),
                          AW.replay_text(prop, r, cat, "(block-edge campaign: call sizes %s, block of %d frames, %s) %s"
                                         % (j.parts, j.B, "SFC_SET_UPDATE_HEADER_AUTO" if j.mode == "auto" else "SFC_UPDATE_HEADER_NOW after every call", text)))
    return found
