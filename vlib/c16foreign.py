"""C16: (1) sf_close RETURNS 0 on FOREIGN-BUT-VALID files, (2) temporary-file hygiene when the temp directory is UNUSABLE.

Why this exists (round 8, seeds C16-wav-close-returns-header-status, C16-tmpfile-fallback-name):
  (1) every file the C16 scenarios re-open was written by the library itself, so the header a read/write handle regenerates at close
      has exactly the size of the header in the file.  A file from other software (a `fmt ` chunk of 18 bytes, chunks the library does
      not write, an AU annotation, an SSND offset …) opened SFM_RDWR makes the close-time header writer take its refusal / repair paths;
      whatever those return must not become the result of sf_close when the descriptor closes fine, and nothing may leak on them.
  (2) the harness's `ledger begin` always provides a usable private TMPDIR, so psf_open_tmpfile never took its fallback (current
      directory) and the names it hands back on that path were never used for the `remove ()` at close.

What is enumerated (deterministic; the seed picks the sample values and which encodings stand for a container)
  (1) for every container vlib/foreign.py can transform (AU, WAV, WAVEX, AIFF, SVX, CAF, W64, RF64, VOC, NIST): one sample-granular
      encoding (thorough tier: two), EVERY transformation of the library-written base file (vlib/foreign.py) plus the chunk in front of
      the audio grown by 2 / 4 / 6 bytes and a JUNK chunk of 8 / 10 / 14 bytes in all in front of it (`grow_variants`), x mode {r, rw} x history {idle, read, read + seek, (rw) append}
      x route {vio, path, fd1} in rotation.  Judged: the ledger (heap blocks, descriptors, temporary files) and `sf_close == 0` for every
      handle whose open succeeded (the existing clause of vlib/props/c16.py).  A variant the library refuses gives `open=NULL` and is
      judged as a failed open (nothing left behind).
  (2) the four ALAC encodings x {TMPDIR missing, a regular file, a file that passes access () but cannot hold a file} x {closed idle,
      a few frames, more than one packet} x route {vio, path}: `ledger end` lists the private directory, which is also the CURRENT
      directory (where the fallback puts the spool file).  New harness op `tmpenv` (harness/tmpenv.c).
Model: lean/SfModel/TmpFile.lean (Sf.TmpFile: psf_open_tmpfile with its two attempts, alac_close's remove by the recorded name),
theorems lean/SfProps/C16Tmp.lean.
"""
from . import foreign, scripts as S

ALAC = (0x70, 0x71, 0x72, 0x73)


def base_files(ctx, fmts):
    """library-written base files for the containers of foreign.VARIANTS: {(format, ch): bytes}"""
    rng = ctx.rng
    by = {}
    for f in fmts:
        if f.major in foreign.VARIANTS and f.granular and f.codec not in ALAC and f.codec not in (0x40, 0x41, 0x42, 0x50, 0x51):
            by.setdefault(f.major, []).append(f)
    picks = []
    for mj, lst in sorted(by.items()):
        lst = sorted(lst, key=lambda f: f.name)
        i = rng.randrange(len(lst))
        picks += [lst[i]] + ([lst[(i + 1 + len(lst) // 2) % len(lst)]] if len(lst) > 1 and ctx.tier != "quick" else [])
    scripts = []
    strings = "".join("setstr h0 %d %s\n" % (t, v.hex()) for (t, v) in ((1, b"a title"), (3, b"other software"), (5, b"an odd comment.")))
    for k, f in enumerate(picks):
        ch = 1 + k % min(2, f.maxch)
        ty = "s16" if f.codec not in (0x06, 0x07) else "f32"
        for rich in (0, 1):
            # rich: strings set before the audio, so that the chunk in front of the audio is a TEXT chunk (LIST / INFO, ANNO, info …)
            scripts.append(("c16f-base-%d-%d" % (k, rich), "open h0 s0 w fmt=%08x ch=%d sr=8000\n%s%s\nclose h0\ndump s0\n"
                            % (f.word, ch, strings if rich else "", S.w_line("h0", ty, "f", 23, S.rand_values(rng, ty, 23 * ch, "unit")))))
    out = ctx.batch(scripts, clean=True)
    res = []
    for k, f in enumerate(picks):
        for rich in (0, 1):
            d = [l for l in out.get("c16f-base-%d-%d" % (k, rich), []) if "hex=" in l]
            if d:
                res.append((f, 1 + k % min(2, f.maxch), bytes.fromhex(d[-1].split("hex=")[-1].strip()), rich))
    return res


def grow_variants(b):
    """the chunk in front of the audio grown by 2 / 4 / 6 zero bytes (RIFF / RIFX / RF64 / FORM files): the header the library
    regenerates for a read/write handle then differs from the one in the file by LESS than a chunk header, which no PAD chunk can
    absorb -- the header writer's refusal path.  (Whether the reader accepts the grown chunk is the library's decision: a refused
    variant is a failed open, judged as such.)"""
    magic = b[:4]
    if magic not in (b"RIFF", b"RIFX", b"RF64", b"FORM") or len(b) < 20:
        return []
    little = magic != b"RIFX" and magic != b"FORM"
    form, ch = foreign.iff_parse(b, little)
    ids = [c[0] for c in ch]
    ai = next((ids.index(x) for x in (b"data", b"SSND", b"BODY") if x in ids), None)
    if ai is None or ai == 0 or ids[ai - 1] == b"ds64":
        return []
    out = []
    cands = [("grow%d-%s" % (g, ids[ai - 1].decode("latin1").strip() or "x"), ch[:ai - 1] + [(ids[ai - 1], ch[ai - 1][1] + bytes(g))] + ch[ai:], g) for g in (2, 4, 6)]
    # ... and a chunk of 8 / 10 / 14 bytes in all (an empty or tiny JUNK chunk) in front of the audio
    cands += [("tiny%d-before-audio" % k, ch[:ai] + [(b"JUNK", bytes(k))] + ch[ai:], 8 + k) for k in (0, 2, 6)]
    for (tag, ch2, g) in cands:
        nb = foreign.iff_build(magic, form, ch2, little)
        if magic == b"RF64":
            ds = ch[0][1]
            nb = nb[:4] + b"\xff\xff\xff\xff" + nb[8:20] + int(int.from_bytes(ds[0:8], "little") + g).to_bytes(8, "little") + nb[28:]
            # the data chunk keeps its 0xffffffff size field
            k = nb.index(b"data", 12)
            nb = nb[:k + 4] + b[b.index(b"data", 12) + 4:b.index(b"data", 12) + 8] + nb[k + 8:]
        out.append((tag, nb))
    return out


HIST = {"r": ("idle", "read", "readseek"), "rw": ("idle", "read", "readseek", "append")}


def scenarios(ctx, C, fmts):
    """C = the vlib.props.c16 module (for `Sc`).  Returns scenarios without model lines: the property predicate alone judges them."""
    rng = ctx.rng
    scs = []
    st = ctx.notes.setdefault("foreign_close", {"base_files": 0, "variants": 0, "scenarios": 0, "tmpdir_scenarios": 0})
    n = 0
    for (f, ch, b, rich) in base_files(ctx, fmts):
        st["base_files"] += 1
        ty = "s16" if f.codec not in (0x06, 0x07) else "f32"
        if rich and not grow_variants(b):
            continue
        variants = ([("asis", b)] + foreign.VARIANTS[f.major](b) + grow_variants(b)) if not rich else [("rich-" + t, x) for (t, x) in [("asis", b)] + grow_variants(b)]
        for (tag, nb) in variants:
            st["variants"] += 1
            for mode in ("r", "rw"):
                for hist in HIST[mode]:
                    n += 1
                    route = ("vio", "path", "fd1")[n % 3]
                    sc = C.Sc("foreign-%s-%s-%s-%s-%s" % (f.name, tag, mode, hist, route), "foreign-close")
                    sc.fmt = f.word
                    sc.op("store s1 " + nb.hex())
                    fm = f.word if (mode != "r" or f.major == 0x04) else 0
                    sc.op("open h1 s1 %s fmt=%08x ch=%d sr=8000 route=%s ext=x" % (mode, fm, ch, route))
                    if hist in ("read", "readseek", "append"):
                        sc.op("r h1 %s f %d" % (ty, rng.choice([1, 5, 23, 40])))
                    if hist == "readseek":
                        sc.op("seek h1 %d 0" % rng.choice([0, 3, 22]))
                        sc.op("r h1 %s f 2" % ty)
                    if hist == "append":
                        k = rng.choice([1, 4, 30])
                        sc.op(S.w_line("h1", ty, "f", k, S.rand_values(rng, ty, k * ch, "unit")))
                    sc.closes.append(sc.op("close h1"))
                    sc.end()
                    sc.cls.add("foreign:%s:%s:%s" % (f.name.split("-")[0], tag, mode))
                    scs.append(sc)
    st["scenarios"] = len(scs)
    # ---- (2) the ALAC spool file with an unusable temp directory ----
    alac = sorted([f for f in fmts if f.codec in ALAC], key=lambda f: f.name)
    for i, f in enumerate(alac):
        for j, env in enumerate(("missing", "file", "blocked")):
            for k, frames in enumerate((0, 7, 5000)):
                if ctx.tier == "quick" and (i + j + k) % 3:
                    continue                          # quick: a latin square, every (format, env) and (format, frames) pair once
                route = ("vio", "path")[(i + j + k) % 2]
                ch = 1 + (i + k) % min(2, f.maxch)
                sc = C.Sc("tmpdir-%s-%s-%d-%s" % (f.name, env, frames, route), "tmpdir-unusable")
                sc.fmt = f.word
                sc.op("tmpenv " + env)
                sc.op("open h1 s1 w fmt=%08x ch=%d sr=8000 route=%s ext=caf" % (f.word, ch, route))
                if frames:
                    sc.op(S.w_line("h1", "s16", "f", frames, S.rand_values(rng, "s16", frames * ch, "unit")))
                sc.closes.append(sc.op("close h1"))
                sc.op("tmpenv restore")
                sc.end()
                sc.cls.add("tmpdir:%s:%s" % (env, "idle" if not frames else "audio"))
                scs.append(sc)
                st["tmpdir_scenarios"] += 1
    return scs
