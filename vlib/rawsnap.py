"""C11, raw-write side: sf_write_raw in auto-header mode must leave a valid file after every call, like the typed writers
(the typed writers are covered by vlib/writecamp.py). Sample-granular encodings only; RAW has no header."""
from . import formats, readcamp as R, abscheck


def run(ctx, prop="C11"):
    rng = ctx.rng
    fs = [f for f in formats.writable_formats(ctx) if R.raw_bw(f, 1) and f.major not in (0x04, 0x16)]
    jobs = []
    for f in fs:
        ch = min(rng.choice([1, 2]), f.maxch)
        bw = R.raw_bw(f, ch)
        ks = [rng.choice([1, 3, 16, 301]), rng.choice([1, 2, 7, 300]), rng.choice([1, 5])]
        L = ["open h0 s1 w fmt=%08x ch=%d sr=8000" % (f.word, ch), "cmd h0 1061 1 null"]
        tot, snaps = 0, []
        for i, k in enumerate(ks):
            # any byte pattern is a legal PCM / u-law / A-law frame; float patterns are kept finite (exponent field not all ones)
            data = bytes((rng.randrange(256) & 0x7E) if f.codec in (0x06, 0x07) else rng.randrange(256) for _ in range(k * bw))
            L.append("wraw h0 %d %s" % (k * bw, data.hex()))
            tot += k
            L.append("copy s%d s1" % (2 + i))
            snaps.append((2 + i, tot))
        L.append("close h0")
        for (st, nf) in snaps:
            L += ["open h%d s%d r" % (st, st), "close h%d" % st]
        jobs.append((f, ch, bw, ks, snaps, "\n".join(L) + "\n"))
    out = ctx.batch([("rawsnap-%s-%d" % (j[0].name, i), j[5]) for i, j in enumerate(jobs)], clean=True)
    reported = 0
    voc_kf = next((k for k in ctx.known if k["id"] == "KF-VOC-UPDATE" and k.get("status") == "known"), None)
    voc_still = bool(voc_kf) and bool(ctx.witness_still_fails(voc_kf))
    for i, (f, ch, bw, ks, snaps, script) in enumerate(jobs):
        lines = out.get("rawsnap-%s-%d" % (f.name, i), [])
        sl = script.strip().split("\n")
        ctx.count(len(sl), tag="rawsnap:" + f.name)
        prob = None
        if any(l.startswith(("CRASH", "ABORT", "TIMEOUT")) for l in lines) or len(lines) < len(sl):
            prob = (len(lines) - 1, "implementation died: %s" % lines[-1:])
        else:
            for k, (op, l) in enumerate(zip(sl, lines)):
                kv = abscheck.parse_kv(l)
                if op.startswith("wraw ") and kv.get("ret") != op.split()[2]:
                    prob = (k, "sf_write_raw of %s bytes returned %s" % (op.split()[2], kv.get("ret")))
                    break
                if op.startswith("open h") and " r" in op and not op.startswith("open h0"):
                    st = int(op.split()[2][1:])
                    want = dict(snaps)[st]
                    if "open=NULL" in l:
                        prob = (k, "the image after %d raw-written frames (auto header update) cannot be opened: %s" % (want, l.strip()))
                        break
                    if int(kv.get("frames", -1)) != want:
                        prob = (k, "the image after %d raw-written frames (auto header update) reports %s frames" % (want, kv.get("frames")))
                        break
        if prob and f.major == 0x08 and voc_still and "reports" in prob[1] and "frames" in prob[1]:
            ctx.known_finding(voc_kf)      # class: VOC image after a header update; signature: fewer frames than written so far
            prob = None
        if prob and reported < 4:
            reported += 1
            ctx.violation("%s-rawsnap-%s" % (prop.lower(), f.name),
                          "# %s violated on the implementation's own transcript (sf_write_raw in auto-header mode)\n# format %s, %d channel(s)\n# at script line %d: %s\n# %s\n--- script\n%s"
                          % (prop, f.name, ch, prob[0], sl[prob[0]][:100] if prob[0] < len(sl) else "", prob[1], "\n".join(sl[:prob[0] + 1]) + "\n"))
    ctx.notes["rawsnap_jobs"] = len(jobs)
