"""C19 on real descriptors: several handles (sf_open, sf_open_fd close_desc 1 / 0, SD2 with its resource fork, ALAC with its spool
file, read / write / read-write) next to descriptors the library does not own, opened and closed in EVERY order.

The history class the merged-vs-solo campaign of vlib/props/c19.py lacked (it runs on memory stores): what handles share in a real
process is the descriptor table -- open hands out the lowest free number, close frees a number whatever it is -- so a handle that
closes a number it no longer owns closes another handle's file, or a descriptor of the application.

Per triple of handle kinds (harness/fdworld.c, `fdw` operations; each handle: open + write | io | close, or open-for-read of what the
slot wrote before + read | io | close):
  * ALL interleavings of the three open-steps and three close-steps that keep each handle's own order (90 merges), sentinels opened
    before, between and after;
  * after EVERY operation the process's descriptor table is printed (number -> which file, by fstat identity; sentinel offsets).
Predicate on the implementation's transcript:
  P1  an operation on handle i leaves every descriptor of every other handle and every sentinel open, under the same number, on the same
      file, sentinels at the same offset; no descriptor appears that refers to nothing the script opened;
  P2  each handle's own results (open, counts, error codes, data checksum, final file bytes incl. the resource fork) are the same as
      when that handle's operations run alone in a fresh process.
Correspondence: the descriptor table after every operation against `sfmodel fdworld` (Sf.FdWorld: exact numbers, lowest-free rule).
"""
import itertools, re, time

KINDS = {
    # name: (format word, channels, route, ext, sd2, alac-writer)
    "sd2w": (0x160002, 2, "path", "sd2", True, False),
    "sd2w24": (0x160003, 1, "path", "sd2", True, False),
    "wavp": (0x010002, 2, "path", "wav", False, False),
    "wavfd1": (0x010006, 1, "fd1", "wav", False, False),
    "aufd0": (0x030002, 2, "fd0", "au", False, False),
    "aifffd1": (0x020002, 1, "fd1", "aiff", False, False),
    "alacp": (0x180070, 2, "path", "caf", False, True),
    "alacfd0": (0x180072, 1, "fd0", "caf", False, True),
    "gsmfd1": (0x010020, 1, "fd1", "wav", False, False),
    "w64p": (0x0B0002, 2, "path", "w64", False, False),
    # the NAME class: files of several live handles that have the same name in different directories (NAMES) or no name at all (every
    # descriptor route: psf->file.name is "") -- whatever the library derives from a name (SD2 resource fork, a spool file) is per handle
    "alacn": (0x180070, 2, "path", "caf", False, True),
    "alacn32": (0x180073, 1, "path", "caf", False, True),
    "alacfd1": (0x180071, 2, "fd1", "caf", False, True),
    "sd2n": (0x160002, 2, "path", "sd2", True, False),
    "wavn": (0x010002, 1, "path", "wav", False, False),
}
NAMES = {"alacn": "take", "alacn32": "take", "sd2n": "take", "wavn": "take"}


class Actor:
    """one handle slot: what it does, in order; `phase` w = create and write, r = re-open for reading what a first phase wrote, rw"""
    def __init__(self, slot, kind, phase):
        self.slot, self.kind, self.phase = slot, kind, phase
        self.fmt, self.ch, self.route, self.ext, self.sd2, self.alac = KINDS[kind]
        self.name = (" name=" + NAMES[kind]) if kind in NAMES else ""
        self.big_first = False          # ALAC writers: the write that fills a packet (and reaches the spool file) in the first / second step

    def pre(self):
        """operations that run before the interleaved part (the file a reader needs)"""
        if self.phase == "w":
            return []
        a = "a%d" % self.slot
        return ["fdw open %s w fmt=%08x ch=%d sr=8000 route=path ext=%s%s" % (a, self.fmt, self.ch, self.ext, self.name), "fdw w %s 300" % a, "fdw close %s" % a]

    def steps(self):
        a = "a%d" % self.slot
        mode = {"w": "w", "r": "r", "rw": "rw"}[self.phase]
        op = "fdw open %s %s fmt=%08x ch=%d sr=8000 route=%s ext=%s%s" % (a, mode, self.fmt, self.ch, self.route, self.ext, self.name)
        io1 = "fdw w %s 200" % a if self.phase == "w" else "fdw r %s 120" % a
        io2 = "fdw w %s 4200" % a if (self.phase == "w" and self.alac) else "fdw w %s 150" % a if self.phase in ("w", "rw") else "fdw r %s 500" % a
        if self.phase == "w" and self.alac and self.big_first:
            # both (all three) writers have a packet in their spool files before any of them closes
            return [[op, "fdw w %s %d" % (a, 4200 + 300 * self.slot)], ["fdw w %s %d" % (a, 4100 - 500 * self.slot), "fdw close %s" % a]]
        return [[op, io1], [io2, "fdw close %s" % a]]

    def model_open(self, ok, pre=False):
        route = "path" if pre else self.route
        alacw = self.alac and (pre or self.phase == "w")
        return "open a%d route=%s sd2=%d rsrc=1 alacw=%d fails=%d" % (self.slot, route, 1 if self.sd2 else 0, 1 if alacw else 0, 0 if ok else 1)


def interleavings(n):
    """all orders of n open-steps O_i and n close-steps C_i with O_i before C_i: sequences of (slot, 0|1)"""
    items = [(i, s) for i in range(n) for s in (0, 1)]
    out = []
    for perm in set(itertools.permutations(items)):
        if all(perm.index((i, 0)) < perm.index((i, 1)) for i in range(n)):
            out.append(perm)
    return sorted(out)


class Script:
    def __init__(self, name, actors, order, sent_at):
        self.name, self.actors = name, actors
        self.lines = ["fdw begin"]
        self.owner = [None]             # slot of each line (None: the caller's own business)
        for a in actors:
            for l in a.pre():
                self.lines.append(l)
                self.owner.append(a.slot)
        ks = 0
        for pos, (i, s) in enumerate(order):
            if pos in sent_at and ks < 3:
                self.lines.append("fdw sentinel k%d" % ks)
                self.owner.append(None)
                ks += 1
            for l in actors[i].steps()[s]:
                self.lines.append(l)
                self.owner.append(actors[i].slot)
            if pos == len(order) - 2 and ks > 0:
                self.lines.append("fdw unsent k0")
                self.owner.append(None)
        self.lines.append("fdw end")
        self.owner.append(None)

    def text(self):
        return "\n".join(self.lines) + "\n"


def solo_script(actor):
    ls = ["fdw begin"] + actor.pre() + [l for st in actor.steps() for l in st] + ["fdw end"]
    return "\n".join(ls) + "\n"


def split(line):
    """'<result> | fds=<table>' -> (result, {fd: who})"""
    if " | fds=" not in line:
        return line.strip(), None
    res, tab = line.split(" | fds=", 1)
    d = {}
    for e in tab.strip().split(","):
        if ":" in e:
            n, who = e.split(":", 1)
            d[int(n)] = who
        elif e:
            d[-1 - len(d)] = e          # kN@LOST
    return res.strip(), d


def own_result(res):
    """a handle's own result with the descriptor numbers removed (they depend on what else is open, legitimately)"""
    return re.sub(r" fd=-?\d+ rsrc=-?\d+", "", res)


def judge(sc, out):
    """P1 on one merged transcript -> list of (line index, text)"""
    probs = []
    if any(l.startswith(("CRASH", "ABORT", "TIMEOUT")) for l in out):
        return [(len(out) - 1, "the run died: " + [l for l in out if l.startswith(("CRASH", "ABORT", "TIMEOUT"))][0])]
    if len(out) != len(sc.lines):
        return [(0, "transcript has %d lines for %d operations" % (len(out), len(sc.lines)))]
    prev = None
    for k, (op, l) in enumerate(zip(sc.lines, out)):
        res, tab = split(l)
        if tab is None:
            continue
        actor = sc.owner[k]
        for n, who in tab.items():
            if who == "?":
                probs.append((k, "descriptor %d refers to a file the script never opened" % n))
            if who.endswith("@LOST") or who.endswith("@moved"):
                probs.append((k, "sentinel %s: its descriptor was closed, re-used or moved by `%s`" % (who, op)))
        if prev is not None:
            for n, who in prev.items():
                mine = (who.split(".")[0] == "a%d" % actor) if actor is not None else False
                if who.startswith("k") and op.startswith("fdw unsent " + who.split("@")[0]):
                    continue
                if who == "tmp":
                    # the spool file belongs to whichever ALAC writer is being closed
                    if op.startswith("fdw close"):
                        continue
                if not mine and tab.get(n) != who:
                    probs.append((k, "`%s` (handle slot %s) changed descriptor %d of %s: it is now %s" % (op, actor, n, who, tab.get(n, "closed"))))
        prev = tab
    return probs


def run(ctx, env):
    """returns True when a failing input was reported"""
    quick = ctx.tier == "quick"
    rng = ctx.rng
    t0 = time.time()
    orders = interleavings(3)
    kinds = list(KINDS)
    triples = []
    # every triple has an SD2 or an ALAC handle (the two kinds that own more than one descriptor); phases vary
    base = [("sd2w", "wavfd1", "aufd0"), ("sd2w", "alacp", "aifffd1"), ("wavp", "sd2w24", "alacfd0"), ("sd2w", "sd2w24", "gsmfd1"),
            ("alacp", "alacfd0", "w64p"), ("aufd0", "sd2w", "sd2w")]
    # same name in different directories / no name: every pairing of the routes for the two kinds that own a second file
    named = [("alacn", "alacn32", "alacn"), ("alacfd0", "alacfd1", "alacfd0"), ("alacn", "alacfd1", "alacp"), ("sd2n", "sd2n", "alacn"),
             ("sd2n", "wavn", "sd2n")]
    for t in base + named:
        triples.append((t, ("w", "w", "w")))
    nbase_named = (len(base), len(base) + len(named))
    triples.append((("sd2w", "wavfd1", "aufd0"), ("r", "w", "r")))
    triples.append((("sd2w24", "wavp", "sd2w"), ("rw", "rw", "w")))
    triples.append((("wavfd1", "sd2w", "alacp"), ("r", "r", "w")))
    for _ in range(3 if quick else 30):
        triples.append((tuple(rng.choice(kinds) for _ in range(3)), tuple(rng.choice(["w", "w", "r", "rw"]) for _ in range(3))))
    scripts, solos = [], {}
    for ti, (ks, phases) in enumerate(triples):
        actors = [Actor(i, ks[i], phases[i] if not (KINDS[ks[i]][5] and phases[i] != "w") else "w") for i in range(3)]
        for a in actors:
            a.big_first = nbase_named[0] <= ti < nbase_named[1] or ti % 2 == 1
            solos[(ti, a.slot)] = ("solo-%d-%d" % (ti, a.slot), solo_script(a), a)
        use = orders if (not quick or ti < 4) else orders[(ctx.seed + ti) % 3::3]
        for oi, order in enumerate(use):
            sent_at = {0, 2, 5} if oi % 3 == 0 else {1, 3} if oi % 3 == 1 else {0, 4}
            scripts.append(Script("fdw-%d-%s-%s-%d" % (ti, "+".join(ks), "".join(p[0] for p in phases), oi), actors, order, sent_at))
    batch = [(s.name, s.text()) for s in scripts] + [(v[0], v[1]) for v in solos.values()]
    out = ctx.batch(batch, env=env, op_timeout=20)
    # ---- P1 / P2 on the implementation ----
    fails = []
    lines_total = 0
    for s in scripts:
        o = out.get(s.name, [])
        lines_total += len(o)
        ctx.distinct.add("fdw:" + s.name.split("-")[2])
        for (k, text) in judge(s, o):
            fails.append((s, k, "P1: " + text, o))
            break
        else:
            ti = int(s.name.split("-")[1])
            for a in s.actors:
                so = out.get(solos[(ti, a.slot)][0], [])
                mine = [own_result(split(l)[0]) for l, ow, op in zip(o, s.owner, s.lines) if ow == a.slot]
                alone = [own_result(split(l)[0]) for l in so[1:-1]]
                if mine != alone:
                    k = next((j for j in range(min(len(mine), len(alone))) if mine[j] != alone[j]), min(len(mine), len(alone)))
                    fails.append((s, k, "P2: handle slot %d (%s) answers `%s` at its operation %d; alone in a fresh process it answers `%s`"
                                  % (a.slot, a.kind, mine[k] if k < len(mine) else "(nothing)", k, alone[k] if k < len(alone) else "(nothing)"), o))
                    break
    # ---- correspondence: the table after every operation against Sf.FdWorld ----
    minp = []
    for s in scripts:
        o = out.get(s.name, [])
        if len(o) != len(s.lines):
            continue
        ml = ["== " + s.name]
        by_slot = {a.slot: a for a in s.actors}
        npre = {a.slot: len(a.pre()) for a in s.actors}
        seen_open = {a.slot: 0 for a in s.actors}
        for op, l, ow in zip(s.lines, o, s.owner):
            t = op.split()
            if t[1] == "begin":
                ml.append("begin " + (re.search(r"open=([\d,]*)", l).group(1) if "open=" in l else ""))
            elif t[1] in ("sentinel", "unsent"):
                ml.append("%s %s" % (t[1], t[2]))
            elif t[1] == "open":
                a = by_slot[ow]
                seen_open[ow] += 1
                ml.append(a.model_open(l.startswith("open=ok"), pre=(npre[ow] > 0 and seen_open[ow] == 1)))
            elif t[1] in ("w", "r"):
                ml.append("io " + t[2])
            elif t[1] == "close":
                ml.append("close " + t[2])
            elif t[1] == "end":
                pass
        minp.append("\n".join(ml) + "\n")
    mout = ctx.run_model(["fdworld"], "".join(minp)) if minp else ""
    per, cur = {}, None
    for line in mout.split("\n"):
        if line.startswith("== "):
            cur = line[3:]
            per[cur] = []
        elif cur is not None and line:
            per[cur].append(line)
    ndis, cmp_lines = 0, 0
    first_dis = None
    for s in scripts:
        o = out.get(s.name, [])
        m = per.get(s.name)
        if m is None or len(o) != len(s.lines):
            continue
        ctx.coverage["traces_validated_against_impl"] += 1
        for k, ml in enumerate(m):
            res, tab = split(o[k])
            want = "fds=" + ",".join("%d:%s" % (n, w.split("@")[0]) for n, w in sorted((tab or {}).items()) if n >= 0)
            cmp_lines += 1
            if want != ml:
                ndis += 1
                if first_dis is None:
                    first_dis = (s, k, want, ml)
                break
    ctx.count(lines_total, "fdworld")
    ctx.notes["fd_world"] = {"merged_scripts": len(scripts), "triples": len(triples), "interleavings_per_triple": len(orders), "solo_scripts": len(solos),
                             "operations": lines_total, "table_lines_compared_with_model": cmp_lines, "model_disagreements": ndis,
                             "implementation_failures": len(fails), "wall_s": round(time.time() - t0, 1)}
    if scripts:
        s0 = scripts[len(scripts) // 2]
        ctx.sample({"kind": "descriptor world", "script": s0.lines[:10], "transcript": out.get(s0.name, [])[:10]})
    seen = set()
    for (s, k, text, o) in fails:
        key = text[:2] + s.name.split("-")[2]
        if key in seen or len(seen) >= 4:
            continue
        seen.add(key)
        ctx.violation("c19-fdworld-" + s.name, "# C19 violated on real descriptors: %s\n# at operation %d: %s\n# transcript there: %s\nc19-fdworld\n--- script\n%s"
                      % (text, k, s.lines[k] if k < len(s.lines) else "", o[k][:200] if k < len(o) else "", s.text()))
    if first_dis is not None and not fails:
        s, k, want, ml = first_dis
        ctx.violation("c19-fdworld-correspondence-" + s.name,
                      "# correspondence stream 'descriptor table after every operation, Sf.FdWorld vs implementation' no longer agrees: %d of %d scripts differ\n"
                      "# first: operation %d `%s`\n# implementation: %s\n# model:          %s\n# the isolation predicate held on every transcript\nc19-fdworld\n--- script\n%s"
                      % (ndis, len(scripts), k, s.lines[k], want, ml, s.text()), no_input=True)
        return True
    return bool(fails)


def replay(ctx, path, env):
    text = open(path).read()
    script = text.split("--- script", 1)[1].lstrip("\n")
    lines = [l for l in script.split("\n") if l.strip()]
    out = ctx.batch([("replay", script)], env=env, op_timeout=20)["replay"]
    print("\n".join(l[:220] for l in out))

    class S:
        pass
    s = S()
    s.lines = lines
    s.owner = [int(re.search(r" a(\d+)", l).group(1)) if re.search(r"^fdw (open|w|r|close) a\d+", l) else None for l in lines]
    probs = judge(s, out)
    # P2 is re-evaluated by running every slot's lines alone
    if not probs:
        for slot in sorted(set(o for o in s.owner if o is not None)):
            solo = ["fdw begin"] + [l for l, o in zip(lines, s.owner) if o == slot] + ["fdw end"]
            so = ctx.batch([("solo", "\n".join(solo) + "\n")], env=env, op_timeout=20)["solo"]
            mine = [own_result(split(l)[0]) for l, o in zip(out, s.owner) if o == slot]
            alone = [own_result(split(l)[0]) for l in so[1:-1]]
            if mine != alone:
                probs.append((0, "handle slot %d answers differently alone: %s vs %s" % (slot, mine, alone)))
    if probs:
        print("replay: " + probs[0][1])
        ctx.report(path)
    else:
        print("replay: every descriptor stays with its owner and every handle answers as it does alone (no violation on this tree)")
