"""C15 stage 3, two more families of representatives (round 8, gap worker gape).

ForeignRep   a FOREIGN-BUT-VALID file with a multi-block / multi-chunk header (vlib/foreign.py, vlib/foreignread.py layouts applied to the
             prepared file): VOC text / repeat blocks in front of the sound block, AIFF chunks around SSND and an SSND offset, CAF `free` / `info`
             chunks, WAV LIST / PAD chunks, SVX text chunks, a long AU annotation, a long NIST header.  The header loops of these parsers make
             callbacks no library-written file makes (one per block / chunk); the enumeration fails EVERY one of them (zero-length read exactly at a
             block-type byte, a failed skip ...).  Workload: open-read-seek-close.
RawRep       the rdwr workload with sf_read_raw / sf_write_raw as the entry points (sample-granular layouts): raw read, raw write (appending: the write pointer
             of an SFM_RDWR handle starts at the end), typed read, raw write, raw read, typed write, seek of the read pointer, raw write.  `payload_sizes` = the byte counts of the caller's writes: a write callback of that size
             right after a FAILED seek is the caller's audio landing at the wrong place -- outside the header-writer class of KF-C15-HEADER-POSITION.
The model side is lean/SfModel/RawRw.lean (`Sf.RawRw.writeRaw`: the re-seek of sf_write_raw over a seek oracle; lean/SfProps/C15RawRw.lean
`write_raw_seek_failure_contained`: when the re-seek fails nothing is written and no position moves).
"""
from . import c15lib as L, foreign as FG, foreignread as FR


class ForeignRep(L.Rep):
    # read workload only: an SFM_RDWR session on a foreign layout rewrites the header in the library's own layout at close (the text block / extra chunks
    # are dropped and the audio is not moved), which the `prefix` clause would report with or without a fault -- a matter of C08 / C11, not of fault containment
    workloads = ("r",)

    def __init__(self, base, tag, fn):
        name, word, ch, frames, quick = base
        super().__init__("%s+%s" % (name, tag), word, ch, frames, quick)
        self.tag, self.fn = tag, fn

    def transform(self):
        b = bytes.fromhex(self.filehex)
        v = dict(self.fn(b))
        if self.tag not in v:
            raise RuntimeError("layout %s cannot be applied to %s" % (self.tag, self.name))
        self.filehex = v[self.tag].hex()


def _all(major):
    return lambda b: FR.variants(major, b)


FOREIGN = [
    (("voc-pcm16", 0x080002, 2, 40, True), 0x08, ["text20-before-sound", "text300-before-sound", "text3+repeat-before-sound", "repeat+text255-before-sound"]),
    (("voc-ulaw", 0x080010, 1, 40, True), 0x08, ["text30+text400-before-sound"]),
    (("aiff-pcm16", 0x020002, 2, 40, True), 0x02, ["ssnd-offset8+tail8", "name+anno-before-ssnd"]),
    (("caf-pcm16", 0x180002, 2, 40, True), 0x18, ["info-before-data"]),
    (("wav-pcm16", 0x010002, 2, 40, True), 0x01, ["list-before-data", "pad255-before-data"]),
    (("svx-pcm8", 0x060001, 1, 40, True), 0x06, ["auth+anno-before-body"]),
    (("au-pcm16", 0x030002, 2, 40, True), 0x03, ["annotation1000"]),
    (("nist-pcm16", 0x070002, 2, 40, True), 0x07, ["header2048"]),
    (("w64-pcm16", 0x0B0002, 2, 40, True), 0x0B, ["junk21-before-data"]),
]


def foreign_reps():
    out = []
    for base, major, tags in FOREIGN:
        for t in tags:
            out.append(ForeignRep(base, t, _all(major)))
    return out


class RawRep(L.Rep):
    workloads = ("rw",)

    def __init__(self, name, word, ch, frames, bytes_per_frame):
        super().__init__(name + "~raw", word, ch, frames, True)
        self.bpf = bytes_per_frame
        self.payload_sizes = set()

    def own_bytes(self, frame, n):
        """hex of the bytes of frames [frame, frame + n) of the prepared file, for 16-bit PCM layouts (the audio is located by searching for the samples
        prep_script wrote, in either byte order); None otherwise"""
        import struct
        if not self.filehex or (self.word & 0xFFFF) != 0x02:
            return None
        b = bytes.fromhex(self.filehex)
        v = L.s16_items(self.frames * self.ch, 3)
        for fmt in ("<", ">"):
            pat = struct.pack(fmt + "%dh" % len(v), *v)
            k = b.find(pat)
            if k >= 0:
                return b[k + frame * self.bpf:k + (frame + n) * self.bpf].hex()
        return None

    def body(self, wl, fault_after_open=False, probes=True):
        if wl != "rw":
            return super().body(wl, fault_after_open, probes)
        ch, F, bpf = self.ch, self.frames, self.bpf
        L_ = []
        pre = ["store s0 %s" % self.filehex]
        op = "open h0 s0 rw %s" % self.open_args(wl)
        rp, wp = "seek h0 0 17", "seek h0 0 33"

        def P():
            if probes:
                L_.extend([rp, wp])

        def raw(nframes, salt):
            n = nframes * bpf
            self.payload_sizes.add(n)
            return "wraw h0 %d %s" % (n, "".join("%02x" % ((k * 37 + salt) & 0xFF) for k in range(n)))

        n1 = max(2, (F // 4) & ~1)
        same = self.own_bytes(3, 5)
        P(); L_.append("rraw h0 %d" % (n1 * bpf))
        P(); L_.append(raw(13, 1))                       # the write pointer is at the end: a raw write right after a raw read (re-seek)
        P(); L_.append("r h0 s16 i %d" % (n1 * ch))
        P(); L_.append("r h0 f32 f 5")
        P(); L_.append(raw(5, 2))                       # append again after a typed read (re-seek); every write of this workload APPENDS, so that bytes the
                                                        # I/O layer had accepted when the fault began are never legitimately changed (`iolog verdict`)
        P(); L_.append("rraw h0 %d" % (3 * bpf))
        P(); L_.append("w h0 s16 i %d %s" % (3 * ch, L.hex_s16(L.s16_items(3 * ch, 9))))
        self.payload_sizes.add(3 * bpf)
        P(); L_.append("seek h0 1 16")
        P(); L_.append(raw(9, 3))
        if same:
            # LAST (nothing that follows depends on where the write pointer is): the write pointer INSIDE the old audio, then the file's OWN bytes written over themselves (an overwrite that changes nothing, so the `prefix` clause
            # stays exact), then a raw read: its re-seek starts from a file position in the middle of the data -- a read that goes ahead after a failed
            # re-seek delivers the frames behind the write pointer instead of those at the read pointer (`data` clause against the fault-free run)
            P(); L_.append("seek h0 3 32")
            P(); L_.append("wraw h0 %d %s" % (5 * bpf, same))
            self.payload_sizes.add(5 * bpf)
            P(); L_.append("rraw h0 %d" % (2 * bpf))      # (ONE overwrite only: after a short transfer the write pointer is no longer where a second one would assume it)
        P()
        return pre, op, L_


RAW = [("wav-pcm16", 0x010002, 2, 40, 4), ("aiff-pcm16", 0x020002, 2, 40, 4), ("au-pcm16", 0x030002, 2, 40, 4), ("raw-pcm16", 0x10040002, 2, 40, 4),
       ("caf-pcm16", 0x180002, 2, 40, 4), ("wav-float", 0x010006, 1, 24, 4), ("voc-pcm16", 0x080002, 2, 40, 4), ("mat5-double", 0x0D0007, 1, 24, 8)]


def raw_reps():
    return [RawRep(*r) for r in RAW]


def reps(quick, seed):
    return foreign_reps() + raw_reps()


def after_prepare(reps_):
    for r in reps_:
        if isinstance(r, ForeignRep):
            r.transform()


# stage 2 (byte-for-byte against `sfmodel faults`, which interprets `rraw` / `wraw` with lean/SfModel/FaultsRaw.lean): the raw rdwr workload on L1 formats
L1_RAW = [("raw-pcm16le", 0x10040002, 2, 40, 4), ("au-pcm16", 0x030002, 2, 40, 4), ("wav-pcm16", 0x010002, 2, 40, 4), ("wav-float", 0x010006, 2, 24, 8),
          ("raw-ulaw", 0x040010, 2, 40, 2), ("raw-pcm24", 0x10040003, 1, 24, 3)]


def l1_raw_reps(quick, seed):
    reps_ = [RawRep(*r) for r in L1_RAW]
    return reps_[seed % 2::2] + [reps_[0]] if quick else reps_
