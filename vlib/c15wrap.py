"""C15 / C05 stage 2b: the WRAPPER MATRIX under a short transfer that ends inside a frame.

Every one of the 16 typed wrappers of sndfile.c (sf_read_* / sf_readf_* / sf_write_* / sf_writef_* for short, int, float,
double) and sf_read_raw / sf_write_raw meets a callback that transfers one byte less than asked (fault kind 7, single-shot, the
callback of that very call), on stereo and 3-channel RAW files of two encodings.  Judged three ways:
  1. the C15 / C05 clause on the implementation's own transcript: an item call reports a whole number of frames, the position
     probe equals the frames reported, and the NEXT call is aligned again -- a read delivers what the fault-free run delivers
     from that frame, a write leaves a file that is byte for byte the fault-free file of the frames reported;
  2. the same script on `sfmodel faults` (Sf.Faults.readTail / writeTail with `wholeFrames`), line for line (typed wrappers);
  3. evidence counts per wrapper.
The enumeration of vlib/props/c15.py exercises only the caller types its three workloads use; a wrapper left unrounded for one
caller type (or for the frame variant only) is visible here."""
import re, subprocess
from . import c15lib as L

TYPES = ("s16", "s32", "f32", "f64")
FILES = (("raw-pcm16le-2ch", 0x10040002, 2, 2), ("raw-pcm24be-3ch", 0x20040003, 3, 3), ("raw-float-2ch", 0x10040006, 2, 4))
FRAMES = 12


def items_hex(ty, vals):
    if ty == "s16":
        return L.hex_s16(vals)
    if ty == "s32":
        return L.hex_s32(vals)
    if ty == "f32":
        return L.hex_f32(vals)
    import struct
    return "".join("%016x" % struct.unpack("<Q", struct.pack("<d", v / 32768.0))[0] for v in vals)


def run(ctx, only=None):
    """only = one case name `file|side|type|unit`: judge that case alone (used by `bin/check C15|C05 --replay`)"""
    jobs = []
    meta = {}
    for (fname, word, ch, nb) in FILES:
        vals = L.s16_items(FRAMES * ch, 17)
        prep = "open h0 s0 w fmt=%x ch=%d sr=8000\nw h0 s16 i %d %s\nclose h0\ndump s0\n" % (word, ch, len(vals), L.hex_s16(vals))
        jobs.append(("prep|" + fname, prep))
    out = ctx.batch(jobs, clean=True, op_timeout=5, retry_timeouts=False)
    filehex = {}
    for (fname, word, ch, nb) in FILES:
        d = [l for l in out.get("prep|" + fname, []) if l.startswith("len=")]
        if not d:
            raise RuntimeError("c15wrap: cannot prepare %s: %s" % (fname, out.get("prep|" + fname)))
        filehex[fname] = d[-1].split("hex=")[1]
    jobs = []
    for (fname, word, ch, nb) in FILES:
        opn = "fmt=%x ch=%d sr=8000" % (word, ch)
        n1, n2 = 4, 3          # frames asked by the first and the second call
        for ty in TYPES + ("raw",):
            for unit in (("i", "f") if ty != "raw" else ("b",)):
                c1 = n1 * ch if unit == "i" else n1 * ch * nb if unit == "b" else n1
                c2 = n2 * ch if unit == "i" else n2 * ch * nb if unit == "b" else n2
                # ---- read side: reference (fault free, everything), then the faulted pair of calls
                def rd(c):
                    return "rraw h0 %d" % c if ty == "raw" else "r h0 %s %s %d" % (ty, unit, c)
                call_all = FRAMES * ch if unit == "i" else FRAMES * ch * nb if unit == "b" else FRAMES
                ref = "store s0 %s\nopen h0 s0 r %s\n%s\nclose h0\n" % (filehex[fname], opn, rd(call_all))
                sc = ("store s0 %s\niolog on\nopen h0 s0 r %s\nfault at=1 kind=7 single=1\niolog on\n%s\nseek h0 0 17\n%s\nseek h0 0 17\nclose h0\niolog dump\ndump s0\n"
                      % (filehex[fname], opn, rd(c1), rd(c2)))
                nm = "%s|r|%s|%s" % (fname, ty, unit)
                if only is None or only == nm:
                    jobs += [(nm + "|ref", ref), (nm, sc)]
                    meta[nm] = ("r", fname, ch, nb, ty, unit, c1, c2, sc)
                # ---- write side
                if ty == "raw":
                    d1 = filehex[fname][:2 * c1]
                    d2 = filehex[fname][2 * c1:2 * (c1 + c2)]
                    def wr(c, d):
                        return "wraw h0 %d %s" % (c, d)
                    cut = lambda d, n: d[:2 * n]
                else:
                    v1, v2 = L.s16_items(n1 * ch, 23), L.s16_items(n2 * ch, 29)
                    d1, d2 = v1, v2
                    def wr(c, d):
                        return "w h0 %s %s %d %s" % (ty, unit, c, items_hex(ty, d))
                    cut = None
                sc = ("iolog on\nopen h0 s0 w %s\nfault at=1 kind=7 single=1\niolog on\n%s\nseek h0 0 33\n%s\nseek h0 0 33\nclose h0\niolog dump\ndump s0\n"
                      % (opn, wr(c1, d1), wr(c2, d2)))
                nm = "%s|w|%s|%s" % (fname, ty, unit)
                if only is None or only == nm:
                    jobs.append((nm, sc))
                    meta[nm] = ("w", fname, ch, nb, ty, unit, c1, c2, sc, d1, d2, opn)
    impl = ctx.batch(jobs, clean=True, op_timeout=5, retry_timeouts=False)

    probs = []          # (name, text, script)
    # second round for the write side: the fault-free file of exactly the frames the faulted run reported
    ref_jobs = []
    for nm, m in meta.items():
        if m[0] != "w":
            continue
        _, fname, ch, nb, ty, unit, c1, c2, sc, d1, d2, opn = m
        lines = impl.get(nm, [])
        rets = [int(L.kvs(l).get("ret", "-99")) for l in lines if l.startswith("ret=")]
        if len(rets) < 5:
            probs.append((nm, "transcript incomplete: %s" % lines[-3:], sc))
            continue
        r1 = rets[0]
        fr1 = r1 // ch if unit == "i" else r1 // (ch * nb) if unit == "b" else r1
        if ty == "raw":
            ref = "open h0 s0 w %s\n%swraw h0 %d %s\nclose h0\ndump s0\n" % (opn, ("wraw h0 %d %s\n" % (fr1 * ch * nb, d1[:2 * fr1 * ch * nb])) if fr1 else "", c2, d2)
        else:
            ref = "open h0 s0 w %s\n%sw h0 %s i %d %s\nclose h0\ndump s0\n" % (opn, ("w h0 %s i %d %s\n" % (ty, fr1 * ch, items_hex(ty, d1[:fr1 * ch]))) if fr1 else "",
                                                                                  ty, len(d2), items_hex(ty, d2))
        ref_jobs.append((nm + "|ref", ref))
    impl.update(ctx.batch(ref_jobs, clean=True, op_timeout=5, retry_timeouts=False))

    stats = {"scripts": 0, "fault_fired": 0, "partial_frame_transfers": 0}
    for nm, m in meta.items():
        side, fname, ch, nb, ty, unit, c1, c2, sc = m[:9]
        lines = impl.get(nm, [])
        stats["scripts"] += 1
        ctx.count(len(lines), "wrap:%s:%s:%s" % (side, ty, unit))
        if any(l.startswith(("TIMEOUT", "CRASH", "ABORT")) for l in lines):
            probs.append((nm, "the run did not complete: %s" % [l for l in lines if l.startswith(("TIMEOUT", "CRASH", "ABORT"))][0], sc))
            continue
        dm = [l for l in lines if l.startswith("calls=")]
        if dm and int(L.kvs(dm[-1]).get("fired", 0)) > 0:
            stats["fault_fired"] += 1
        rl = [l for l in lines if l.startswith("ret=")]
        if len(rl) < 5:
            probs.append((nm, "transcript incomplete: %s" % lines[-3:], sc))
            continue
        r1, p1, r2, p2 = (int(L.kvs(rl[k]).get("ret", "-99")) for k in range(4))
        per = ch if unit == "i" else ch * nb if unit == "b" else 1
        if r1 % per != 0:
            probs.append((nm, "the first call returned %d, not a whole number of frames (%d per frame)" % (r1, per), sc))
            continue
        if r1 // per < (c1 // per) and r1 // per >= 0:
            stats["partial_frame_transfers"] += 1
        if p1 != r1 // per:
            probs.append((nm, "the first call returned %d frames but the position is %d" % (r1 // per, p1), sc))
            continue
        if r2 % per != 0 or p2 - p1 != r2 // per:
            probs.append((nm, "the second call returned %d (position %d -> %d)" % (r2, p1, p2), sc))
            continue
        if side == "r":
            refl = [l for l in impl.get(nm + "|ref", []) if l.startswith("ret=") and "data=" in l]
            if not refl:
                probs.append((nm, "no reference read", sc))
                continue
            w = 2 if ty == "raw" else {"s16": 4, "s32": 8, "f32": 8, "f64": 16}[ty]
            cells = per if unit != "f" else ch          # items per frame in the data field
            refd = L.kvs(refl[0])["data"]
            got = L.kvs(rl[2]).get("data", "")
            n2i = r2 * (ch if unit == "f" else 1)
            want = refd[p1 * cells * w:(p1 * cells) * w + n2i * w]
            if got[:n2i * w] != want:
                probs.append((nm, "after the partial frame the next read (from frame %d) is not aligned: got %s, the file holds %s" % (p1, got[:n2i * w][:48], want[:48]), sc))
        else:
            a = [l for l in lines if l.startswith("len=")]
            b = [l for l in impl.get(nm + "|ref", []) if l.startswith("len=")]
            if not a or not b or a[-1].strip() != b[-1].strip():
                probs.append((nm, "the file is not the fault-free file of the frames reported: %s vs %s" % (a[-1][:90] if a else None, b[-1][:90] if b else None), sc))

    # ---- the same scripts on the model (typed wrappers only: sf_read_raw / sf_write_raw are not in Sf.Faults)
    mjobs = [(nm, m[8]) for nm, m in meta.items() if m[4] != "raw"]
    inp = "".join("== %s\n%s" % (n, s) for (n, s) in mjobs)
    p = subprocess.run([ctx.sfmodel(), "faults"], input=inp, capture_output=True, text=True, timeout=600)
    if p.returncode != 0:
        raise RuntimeError("sfmodel faults failed: " + p.stderr[-2000:])
    model = {}
    cur = None
    for line in p.stdout.split("\n"):
        if line.startswith("== end"):
            cur = None
        elif line.startswith("== "):
            cur = line[3:]
            model[cur] = []
        elif cur is not None:
            model[cur].append(line.strip())
    corr = []
    for (nm, sc) in mjobs:
        a = L.normalise_l1(sc, impl.get(nm, []))
        b = model.get(nm, [])
        if a != b:
            k = next((j for j, (x, y) in enumerate(zip(a, b)) if x != y), min(len(a), len(b)))
            corr.append((nm, k, a[k] if k < len(a) else "(missing)", b[k] if k < len(b) else "(missing)", sc))
    ctx.coverage["traces_validated_against_impl"] += len(mjobs)
    ctx.notes["wrapper_matrix"] = dict(stats, files=[f[0] for f in FILES], wrappers="4 caller types x {items, frames} x {read, write} + sf_read_raw / sf_write_raw",
                                       model_scripts=len(mjobs), model_disagreements=len(corr), problems=len(probs))
    return probs, corr


def replay(ctx, path, text):
    """re-judge the case named in a `c15-wrapper-case <name>` line"""
    nm = next((l.split(None, 1)[1].strip() for l in text.split("\n") if l.startswith("c15-wrapper-case ")), None)
    probs, corr = run(ctx, only=nm)
    for (n, t, sc) in probs:
        print("wrapper matrix: %s: %s" % (n, t))
    for c in corr:
        print("wrapper matrix, model differs: %s line %d: implementation %s / model %s" % (c[0], c[1], c[2][:120], c[3][:120]))
    if probs or corr:
        ctx.report(path, no_input=not probs)
    else:
        print("replay: the property holds on this case now")
