"""C19 machinery: per-handle workloads, renaming into disjoint handle/store name spaces, merges, projections.

A *workload* is an ordinary harness script written against handles h0/h1… and stores s0…s7.  `rename (script, k)` moves
it to its own name space: every handle becomes h<k> (aux handles, index >= 8 in the source script, become h<k+8>) and
store s<j> becomes s<8k+j>, so up to 8 workloads fit the harness's 16 handle slots and 64 stores and never share a store.
"""
import itertools, re

from . import scripts as S, kernels as K, formats, geometry as G

MAXW = 8

HANDLE_OPS = {"open", "w", "r", "rraw", "wraw", "seek", "cmd", "close", "info", "setstr", "getstr", "setchunk", "chunkiter",
              "chunknext", "chunkget", "chunkdata", "chunkall", "strerror"}
STORE_OPS = {"store", "trunc", "dump"}


def rename_line(line, k):
    t = line.split(" ")
    if not t or not t[0] or t[0].startswith("#"):
        return line

    def hname(x):
        if x == "null" or not re.fullmatch(r"h\d+", x):
            return x
        return "h%d" % (k + 8 if int(x[1:]) >= 8 else k)

    def sname(x):
        if not re.fullmatch(r"s\d+", x):
            return x
        return "s%d" % (8 * k + int(x[1:]) % 8)

    if t[0] in HANDLE_OPS and len(t) > 1:
        t[1] = hname(t[1])
        if t[0] == "open" and len(t) > 2:
            t[2] = sname(t[2])
    elif t[0] in STORE_OPS and len(t) > 1:
        t[1] = sname(t[1])
    elif t[0] == "copy" and len(t) > 2:
        t[1], t[2] = sname(t[1]), sname(t[2])
    return " ".join(t)


def lines_of(script):
    return [l for l in script.split("\n") if l.strip() and not l.startswith("#")]


def rename(script, k):
    return [rename_line(l, k) for l in lines_of(script)]


def single_slot(script):
    """gen_rw_script cycles through handle names but keeps one handle open at a time: fold them onto h0"""
    out = []
    for l in lines_of(script):
        t = l.split(" ")
        if t[0] in HANDLE_OPS and len(t) > 1 and re.fullmatch(r"h\d+", t[1]):
            t[1] = "h0"
        out.append(" ".join(t))
    return "\n".join(out) + "\n"


# ---------------------------------------------------------------------------------------------------
# merges
# ---------------------------------------------------------------------------------------------------

def merge_order(rng, lens, how):
    """a sequence of workload indices containing index k exactly lens[k] times"""
    if how == "roundrobin":
        order, left = [], list(lens)
        while any(left):
            for k in range(len(lens)):
                if left[k]:
                    order.append(k)
                    left[k] -= 1
        return order
    if how == "sequential":
        return [k for k in range(len(lens)) for _ in range(lens[k])]
    if how == "reverse":
        return [k for k in reversed(range(len(lens))) for _ in range(lens[k])]
    if how == "bursts":
        order, left = [], list(lens)
        while any(left):
            k = rng.choice([j for j in range(len(lens)) if left[j]])
            n = min(left[k], rng.choice([1, 2, 3, 5, 8]))
            order += [k] * n
            left[k] -= n
        return order
    # uniform over positions
    order = [k for k in range(len(lens)) for _ in range(lens[k])]
    rng.shuffle(order)
    return order


def all_orders(n0, n1):
    """every interleaving of two scripts of n0 and n1 lines: C(n0+n1, n0) orders"""
    n = n0 + n1
    for pos in itertools.combinations(range(n), n0):
        o = [1] * n
        for p in pos:
            o[p] = 0
        yield o


def weave(parts, order):
    """parts: list of line lists; order: list of indices -> (merged lines, owners)"""
    it = [iter(p) for p in parts]
    return [next(it[k]) for k in order], list(order)


def project(lines, owners, k):
    return [l for l, o in zip(lines, owners) if o == k]


# ---------------------------------------------------------------------------------------------------
# workloads for every format (implementation-only campaign)
# ---------------------------------------------------------------------------------------------------

RDWR_CODECS = {0x01, 0x05, 0x02, 0x03, 0x04, 0x06, 0x07, 0x10, 0x11}


def values_for(rng, fmt, ty, n):
    unit = fmt.codec not in (0x01, 0x05, 0x02, 0x03, 0x04, 0x06, 0x07, 0x50, 0x51)
    return S.rand_values(rng, ty, n, "unit" if unit or ty in ("f32", "f64") else "mixed")


def block_hint(fmt):
    from . import readcamp as R
    b = R.BLOCK_HINT.get(fmt.codec, 1)
    if fmt.major == 0x11:
        b = 60
    if fmt.major == 0x05 and fmt.codec == 0x03:
        b = 10
    return b


def gen_workload(rng, fmt, ch, kind=None, nops=10, short=False):
    """one per-handle script (names h0, h8, s0…): returns text.  kinds:
       'w'   write in several calls (with header updates), close, re-open, read everything back
       'rs'  write a file, re-open for reading, random reads and seeks with position probes
       'rw'  (sample-granular encodings) create, then edit in SFM_RDWR with reads, writes and seeks
       every script is sprinkled with invalid calls and sf_error (h) probes, failing opens on the aux slot h8,
       and calls with a NULL handle, and ends with a digest of every store it used."""
    kind = kind or rng.choice(["w", "rs", "rs", "rw"] if fmt.codec in RDWR_CODECS and fmt.major not in (0x16,) else ["w", "rs", "rs"])
    # OKI/VOX ADPCM packs two samples per byte; odd item counts used to be avoided here (KF-VOX-ODD: the codec touched one sample past the
    # caller's buffer, an ASan abort in this harness). Repaired -- the codec holds the odd sample --, so VOX gets the counts of every other codec
    vox = False

    def ev(x):
        return x + (x * ch) % 2 if vox and x > 0 else x
    sr = rng.choice([8000, 8000, 11025, 44100, 48000])
    b = block_hint(fmt)
    wty = rng.choice(["s16", "s16", "s32", "f32", "f64"])
    raw = fmt.major == 0x04
    L = []
    opn_w = "open h0 s0 w fmt=%08x ch=%d sr=%d" % (fmt.word, ch, sr)
    opn_r = ("open h0 s0 r fmt=%08x ch=%d sr=%d" % (fmt.word, ch, sr)) if raw else "open h0 s0 r"
    opn_rw = "open h0 s0 rw fmt=%08x ch=%d sr=%d" % (fmt.word, ch, sr)

    def noise():
        r = rng.random()
        if r < 0.25:
            L.append("strerror h0")
        elif r < 0.40:
            L.append(rng.choice(["r h0 s16 i -1", "w h0 s16 i -1 ", "seek h0 0 7", "seek h0 -5 0", "seek h0 1 64",
                                 "r h0 f32 i %d" % (ch + 1) if ch > 1 else "r h0 s32 f -2"]))
            L.append("strerror h0")
        elif r < 0.50:
            L.append("strerror null")
        elif r < 0.57:
            # an open that fails, on the aux slot and a store of its own
            L.append(rng.choice(["open h8 s7 r fmt=00040002 ch=0 sr=8000", "open h8 s7 r", "open h8 s7 w fmt=00010002 ch=0 sr=8000",
                                 "open h8 s7 w fmt=7fff0002 ch=1 sr=8000", "open h8 s7 rw fmt=00010012 ch=1 sr=8000"]))
            if rng.random() < 0.5:
                L.append("strerror null")
            if rng.random() < 0.3:
                L.append("cmd null 1001 64 zero")
        elif r < 0.62:
            L.append("cmd h0 1002 4 zero")
        elif r < 0.66:
            L.append("seek h8 0 0")          # NULL handle (slot never opened / open failed)

    def write_some(total):
        left = total
        while left > 0:
            k = ev(min(left, rng.choice([1, 2, 3, 7, b, b + 1, 64, 505, 1024, left, left])))
            unit = rng.choice("if")
            L.append(S.w_line("h0", wty, unit, k if unit == "f" else k * ch, values_for(rng, fmt, wty, k * ch)))
            left -= k
            if not short:
                noise()
            if rng.random() < 0.15 and not short:
                L.append("cmd h0 1060 0 null")

    n = rng.choice([1, 2, 3, b - 1 if b > 1 else 5, b, b + 1, 2 * b + 1, 3 * b - 1, 100, 257, 700])
    n = max(1, min(n, 1500))
    if short:
        n = rng.choice([1, 3, b + 1])
    n = ev(n)
    if kind == "w":
        L.append(opn_w)
        if rng.random() < 0.2:
            L.append("cmd h0 1061 1 null")
        write_some(n)
        L += ["close h0", "dump s0 sum", opn_r, "info h0"]
        rty = rng.choice(S.TYS)
        L += ["r h0 %s i %d" % (rty, ev(n + b + 16) * ch), "r h0 %s i %d" % (rty, ev(1) * ch), "strerror h0", "close h0"]
    elif kind == "rs":
        L.append(opn_w)
        L.append(S.w_line("h0", wty, "f", n, values_for(rng, fmt, wty, n * ch)))
        L += ["close h0", opn_r]
        for _ in range(2 if short else nops):
            r = rng.random()
            if r < 0.55:
                ty = rng.choice(S.TYS)
                unit = rng.choice("if")
                m = ev(rng.choice([1, 1, 2, 3, 7, b, b + 1, 33, max(n, 1), n + 1]))
                L.append("r h0 %s %s %d" % (ty, unit, m if unit == "f" else m * ch))
            else:
                base = rng.choice([0, 0, 0, 1, 2])
                off = rng.choice([0, 1, b - 1, b, b + 1, n // 2, max(n - 1, 0), n, n + 1, -1]) if base == 0 else \
                    rng.choice([0, 1, -1, b, -b, 5, -5]) if base == 1 else rng.choice([0, -1, -b, -(n // 2), 1, -n])
                L.append("seek h0 %d %d" % (off, base))
            L.append("seek h0 0 1")
            if not short:
                noise()
        L += ["strerror h0", "close h0"]
    else:
        L.append(opn_rw)
        write_some(n)
        for _ in range(2 if short else nops):
            r = rng.random()
            if r < 0.35:
                ty = rng.choice(S.TYS)
                m = rng.choice([1, 2, 3, 7, 33, n])
                L.append("r h0 %s f %d" % (ty, m))
            elif r < 0.65:
                q = rng.choice([0, 0x10, 0x20])
                L.append("seek h0 %d %d" % (rng.choice([0, 1, n // 2, max(n - 1, 0), n]), q))
            else:
                m = rng.choice([1, 2, 5, 17])
                L.append(S.w_line("h0", wty, "f", m, values_for(rng, fmt, wty, m * ch)))
            if not short:
                noise()
        L += ["strerror h0", "close h0", "dump s0 sum", opn_r, "r h0 s32 i %d" % ((n + 40) * ch), "close h0"]
    L += ["dump s0 sum", "dump s7 sum"]
    return "\n".join(L) + "\n"


# Transcript lines that legitimately depend on what other handles did are the results of calls made with a NULL handle:
# `strerror null`, `cmd null …` (sf_error (NULL), sf_strerror (NULL), sf_command (NULL, SFC_GET_LOG_INFO)), and the error
# number the harness prints with sf_error (NULL) after a call on a slot that holds no handle (never opened, open failed,
# closed).  In those lines the error number (and for `cmd null` the returned text) is replaced by `*`; return values of
# calls on a NULL handle are still compared.
def mask_line(op_line, out_line, null_slot):
    """canonical form used for the solo/merged comparison"""
    t = op_line.split(" ")
    if len(t) > 1 and (t[1] == "null" or null_slot):
        out_line = re.sub(r"err=-?\d+", "err=*", out_line)
        out_line = re.sub(r"msglen=-?\d+", "msglen=*", out_line)
        if t[0] == "cmd" and t[1] == "null":
            out_line = re.sub(r"ret=-?\d+", "ret=*", out_line)
            out_line = re.sub(r"data=\S*", "data=*", out_line)
    return out_line


WIDTH = {"s16": 4, "s32": 8, "f32": 8, "f64": 16}


def trim_reads(op_lines, out_lines):
    """read lines: keep the `ret` items the call delivered.  What the library leaves in the caller's buffer beyond the
    returned count is not a result of the call (C05 has its own rule for it); for VOX odd counts and RAW/DWVW it is
    whatever the codec's staging buffer on the stack held, which varies from process to process."""
    chans = {}
    res = []
    for op, out in zip(op_lines, out_lines):
        t = op.split(" ")
        if t[0] == "open" and out.startswith("open=ok"):
            m = re.search(r" ch=(\d+)", out)
            chans[t[1]] = int(m.group(1)) if m else 1
        elif t[0] == "open" and len(t) > 1:
            chans.pop(t[1], None)
        if t[0] == "r" and len(t) >= 5 and " data=" in out:
            m = re.match(r"ret=(-?\d+) (err=\S+) data=(\S*)$", out)
            if m and not m.group(3).startswith("fnv:"):
                ret = max(int(m.group(1)), 0)
                items = ret * (chans.get(t[1], 1) if t[3] == "f" else 1)
                out = "ret=%s %s data=%s" % (m.group(1), m.group(2), m.group(3)[:items * WIDTH.get(t[2], 0)])
        res.append(out)
    return res


def track_null_slots(op_lines, out_lines):
    """for each line: does the call reach the library with a NULL handle (slot empty: never opened, open failed, closed)?"""
    live = set()
    res = []
    for op, out in zip(op_lines, out_lines):
        t = op.split(" ")
        null_slot = False
        if t[0] in HANDLE_OPS and len(t) > 1 and t[1] != "null":
            if t[0] == "open":
                if out.startswith("open=ok"):
                    live.add(t[1])
                else:
                    live.discard(t[1])
            else:
                null_slot = t[1] not in live
                if t[0] == "close":
                    live.discard(t[1])
        res.append(null_slot)
    return res
