"""C04 / C05 / C15: THE STAGING-LOOP MATRIX — one short transfer inside the staging loop of EVERY write kernel.

Every write kernel of pcm.c, float32.c, double64.c, ulaw.c, alaw.c and xi.c (dpcm) converts the caller's items through an
8 KiB stack buffer:  `while (len > 0) { … writecount = psf_fwrite (…) ; total += writecount ; if (writecount < bufferlen) break ;
len -= writecount ; }`.  A kernel whose bookkeeping is wrong only when ONE transfer is short (counted in full, not counted at
all, counted after the break) passes every fault-free run and every fault campaign that does not drive THIS (encoding, caller
type, byte order) cell with a call longer than one staging buffer.

Cells      the kernel table of the Lean model (`sfmodel stage kernels` = Sf.StageLoop.kernels: 14 encodings x 4 caller types,
           staging length and item width from Sf.Faults.stageLen) + the IEEE `replace_*` kernels (SFC_TEST_IEEE_FLOAT_REPLACE) +
           the DPCM kernels of xi.c.  The table is compared with the tree's own dispatch: every `psf->write_<type> = <function> ;`
           of the six source files must be the kernel of a cell (evidence `kernels_in_dispatch` / `dispatch_not_covered`).
Script     RAW (XI for DPCM), 2 channels (3 in the thorough tier as well; XI: 1), vio route: ONE call of two full staging
           rounds + a part (one round where the kernel hands the caller's buffer to psf_fwrite directly), ONE write callback
           shortened (first / middle / last round; half the bytes, one byte less, nothing), position probe, the bytes on the
           device, the careful caller re-submits the rest, position probe, close, the closed file.
Verdict    Sf.StageLoop.judge (`sfmodel stage judge`): count (the return value is the number of whole frames that reached the
           device), position, resume, file (the closed file is the fault-free file of the accepted items; DPCM: its length).
           The modelled cells are also compared line by line with `sfmodel faults` (Sf.Faults.writeLoop under the same schedule).
Quick tier: a DETERMINISTIC slice (every cell: half-short in each round + one byte short in the last round); thorough: all
           kinds x all rounds x {2, 3} channels x frame calls.
"""
import os, re, struct, subprocess, time
from . import c15lib as L, build

SRC_FILES = ("pcm.c", "float32.c", "double64.c", "ulaw.c", "alaw.c", "xi.c")
TY_DIG = {"s16": 4, "s32": 8, "f32": 8, "f64": 16}
_items_cache = {}


def items_hex(ty, n, seed):
    key = (ty, n, seed)
    if key not in _items_cache:
        vals = _items_cache.get(("vals", n, seed))
        if vals is None:
            vals = _items_cache[("vals", n, seed)] = L.s16_items(n, seed)
        if ty == "s16":
            hx = ["%04x" % (v & 0xFFFF) for v in vals]
        elif ty == "s32":
            hx = ["%08x" % ((v << 16) & 0xFFFFFFFF) for v in vals]
        elif ty == "f32":
            hx = ["%08x" % struct.unpack("<I", struct.pack("<f", v / 32768.0))[0] for v in vals]
        else:
            hx = ["%016x" % struct.unpack("<Q", struct.pack("<d", v / 32768.0))[0] for v in vals]
        _items_cache[key] = hx
    return _items_cache[key]


def dispatch_of_tree():
    """the write kernels the tree under test installs: {function name: source file}"""
    out = {}
    for f in SRC_FILES:
        try:
            src = open(os.path.join(build.REPO, "src", f), errors="replace").read()
        except OSError:
            continue
        for m in re.finditer(r"psf->write_(short|int|float|double)\s*=\s*(\w+)\s*;", src):
            out[m.group(2)] = f
    return out


class Cell:
    def __init__(self, kernel, enc, fmt, ty, stage, w, modelled=True, replace=False, cont="raw"):
        self.kernel, self.enc, self.fmt, self.ty, self.stage, self.w = kernel, enc, fmt, ty, stage, w
        self.modelled, self.replace, self.cont = modelled, replace, cont

    @property
    def exact(self):
        return self.cont == "raw"

    def name(self):
        return "%s@%s%s" % (self.kernel, self.enc, "+replace" if self.replace else "")


def model_cells(ctx):
    out = ctx.run_model(["stage", "kernels"], "")
    cells = []
    for line in out.split("\n"):
        t = line.split()
        if not t:
            continue
        d = L.kvs(line)
        cells.append(Cell(t[0], d["enc"], int(d["fmt"], 16), d["ty"], int(d["stage"]), int(d["w"])))
    return cells


def extra_cells(cells, dispatch):
    """kernels of the dispatch outside the Lean table: the portable IEEE path (same cells, SFC_TEST_IEEE_FLOAT_REPLACE on: never the
    direct path, staging 2048 floats / 1024 doubles) and DPCM in XI (8192 bytes / 4096 shorts)"""
    out = []
    for c in cells:
        if c.enc.startswith("f32") or c.enc.startswith("f64"):
            nm = c.kernel.replace("host_write_", "replace_write_")
            if nm in dispatch:
                out.append(Cell(nm, c.enc, c.fmt, c.ty, 2048 if c.enc.startswith("f32") else 1024, c.w, modelled=False, replace=True))
    for ty, lt in (("s16", "s"), ("s32", "i"), ("f32", "f"), ("f64", "d")):
        for (suffix, fmt, stage, w) in (("dsc", 0x0F0050, 8192, 1), ("dles", 0x0F0051, 4096, 2)):
            nm = "dpcm_write_%s2%s" % (lt, suffix)
            if nm in dispatch:
                out.append(Cell(nm, "dpcm%d" % (8 * w), fmt, ty, stage, w, modelled=False, cont="xi"))
    return out


def rounds_of(cell, n):
    if cell.stage == 0:
        return [n]
    out = []
    while n > 0:
        b = min(n, cell.stage)
        out.append(b)
        n -= b
    return out


def shortened(kind, count):
    return 0 if kind == 1 else count // 2 if kind == 2 else count - 1


def call_items(cell, ch):
    if cell.stage == 0:
        n = 2500
    else:
        n = 2 * cell.stage + cell.stage // 2 + 7
    return n - n % ch


def expected_ret1(cell, ch, rounds, k, kind):
    """rounds: bytes per staging round (measured)"""
    stored = sum(rounds[:k - 1]) + shortened(kind, rounds[k - 1])
    return (stored // (cell.w * ch)) * ch


def script_of(cell, ch, n, k, kind, unit, ret1, at=None):
    """k = the staging round of the long call whose write callback is shortened (1-based, single-shot; `at` = its index among ALL callbacks of the
    call when the container makes others first -- XI writes its header); ret1 = what the careful caller saw returned"""
    hx = items_hex(cell.ty, n, 41)
    per = ch if unit == "f" else 1
    rest = n - ret1
    lines = ["iolog on", "open h0 s0 w fmt=%x ch=%d sr=8000" % (cell.fmt, ch)]
    if cell.replace:
        lines.append("cmd h0 6001 1 null")
    lines += ["dump s0",
              "fault at=%d kind=%d single=1" % (at or k, kind), "iolog on",
              "w h0 %s %s %d %s" % (cell.ty, unit, n // per, "".join(hx)),
              "seek h0 0 33", "dump s0"]
    if rest > 0:
        lines += ["w h0 %s %s %d %s" % (cell.ty, unit, rest // per, "".join(hx[ret1:])), "seek h0 0 33"]
    lines += ["close h0", "iolog dump", "dump s0"]
    return "\n".join(lines) + "\n"


def ref_script(cell, ch, n):
    hx = items_hex(cell.ty, n, 41)
    lines = ["iolog on", "open h0 s0 w fmt=%x ch=%d sr=8000" % (cell.fmt, ch)]
    if cell.replace:
        lines.append("cmd h0 6001 1 null")
    lines += ["iolog on", "w h0 %s i %d %s" % (cell.ty, n, "".join(hx)), "iolog trace", "close h0", "dump s0"]
    return "\n".join(lines) + "\n"


def round_callbacks(cell, n, ref_lines):
    """the staging rounds of the long call as the fault-free trace shows them: [(index among ALL callbacks of the call, 1-based; bytes)] = the
    trailing write callbacks whose sizes add up to the call's bytes (XI writes its header first).  The kernels of float32.c / double64.c
    round their staging length down to whole frames (`bufferlen -= bufferlen % channels`), so the rounds are MEASURED, not taken from the table."""
    tr = next((l for l in ref_lines if "trace=" in l), "")
    cbs = tr.split("trace=", 1)[1].split(",") if "trace=" in tr else []
    out, left = [], n * cell.w
    for i in range(len(cbs), 0, -1):
        m = re.match(r"W(\d+)@", cbs[i - 1])
        if not m:
            continue
        out.append((i, int(m.group(1))))
        left -= int(m.group(1))
        if left <= 0:
            break
    return out[::-1] if left == 0 else None


def plan(cells, quick):
    """-> [(cell, ch, k-position name, kind, unit)]"""
    out = []
    for i, c in enumerate(cells):
        if c.cont == "xi":
            # mono, not seekable: no position probe and no re-seek -- the schedule keeps to transfers that end between items
            out += [(c, 1, 1, 2, "i"), (c, 1, 2, 2, "i"), (c, 1, 3, 1, "f" if i % 2 else "i")] + ([(c, 1, 3, 7, "i")] if c.w == 1 else [])
            continue
        chs = (2,) if quick else (2, 3)
        for ch in chs:
            nr = len(rounds_of(c, call_items(c, ch)))
            pos = sorted({1, (nr + 1) // 2, nr})
            for k in pos:
                kinds = (2,) if quick else (1, 2, 7)
                for kind in kinds:
                    out.append((c, ch, k, kind, "i"))
            if quick:
                out.append((c, ch, nr, 7, "f" if i % 2 else "i"))       # one byte short in the last round: a torn frame
            else:
                out.append((c, ch, pos[len(pos) // 2], 2, "f"))
    return out


def torn_item(cell, ch, f, tags):
    """class + signature of KF-C15-TORN-ITEM: the short transfer ended inside an item, its complete items are whole frames (no re-seek), and the
    ONLY failing clause is `file` with exactly the fragment's bytes too many"""
    frag = f["stored1"] % cell.w
    return (tags == ["file"] and frag != 0 and (f["stored1"] // cell.w) % ch == 0
            and f["closed_len"] == f["hdr"] + (f["ret1"] + f["ret2"]) * cell.w + frag)


def record_of(cell, ch, n, unit, ret1_used, lines, ref_lines):
    """-> (record line for `sfmodel stage judge` | None, problem text | None, fields)"""
    per = ch if unit == "f" else 1
    if any(l.startswith(("TIMEOUT", "CRASH", "ABORT")) for l in lines):
        return None, "the run did not complete: %s" % [l for l in lines if l.startswith(("TIMEOUT", "CRASH", "ABORT"))][0], {}
    dumps = [l for l in lines if l.startswith("len=")]
    rets = [l for l in lines if l.startswith("ret=")]
    rdump = [l for l in ref_lines if l.startswith("len=")]
    rest = n - ret1_used
    want_rets = (5 if rest > 0 else 3) + (1 if cell.replace else 0)
    if len(dumps) < 3 or len(rets) < want_rets or not rdump:
        return None, "transcript incomplete: %s" % lines[-3:], {}
    if cell.replace:
        rets = rets[1:]
    ret1 = int(L.kvs(rets[0])["ret"]) * per
    pos1 = int(L.kvs(rets[1])["ret"])
    if rest > 0:
        ret2 = int(L.kvs(rets[2])["ret"]) * per
        pos2 = int(L.kvs(rets[3])["ret"])
    else:
        ret2, pos2 = 0, pos1
    len0 = int(L.kvs(dumps[0])["len"])
    len1 = int(L.kvs(dumps[1])["len"])
    closed = dumps[-1].split("hex=")[1].strip() if "hex=" in dumps[-1] else ""
    ref = rdump[-1].split("hex=")[1].strip() if "hex=" in rdump[-1] else ""
    hdr = int(L.kvs(rdump[-1])["len"]) - n * cell.w
    f = dict(ret1=ret1, pos1=pos1, stored1=len1 - len0, asked2=rest, ret2=ret2, pos2=pos2, hdr=hdr, closed_len=len(closed) // 2)
    rec = "w=%d ch=%d n=%d hdr=%d ret1=%d pos1=%d stored1=%d asked2=%d ret2=%d pos2=%d probe=%d exact=%d closed=%s ref=%s" % (
        cell.w, ch, n, hdr, ret1, pos1, len1 - len0, rest, ret2, pos2, 1 if cell.exact else 0, 1 if cell.exact else 0, closed or "-", ref or "-")
    return rec, None, f


CLAUSE_TEXT = {
    "count": "the long call returned %(ret1)d items but %(stored1)d bytes reached the device during it",
    "position": "the long call returned %(ret1)d items and the write position is frame %(pos1)d",
    "resume": "the re-submitted rest (%(asked2)d items) returned %(ret2)d, position %(pos1)d -> %(pos2)d",
    "file": "the closed file (%(closed_len)d bytes) is not the fault-free file of the %(acc)d items the two calls accepted",
}


def campaign(ctx, quick, only=None):
    """-> (problems [(name, clauses, text, script)], correspondence [(name, k, impl, model, script)], stats)"""
    t0 = time.time()
    dispatch = dispatch_of_tree()
    cells = model_cells(ctx)
    cells += extra_cells(cells, dispatch)
    covered = {c.kernel for c in cells}
    stats = {"cells": len(cells), "kernels_in_dispatch": len(dispatch), "dispatch_not_covered": sorted(set(dispatch) - covered),
             "table_rows_not_in_dispatch": sorted(covered - set(dispatch))}
    pl = plan(cells, quick)
    pl = [(c, ch, k, kind, unit, "%s|ch%d|k%d|kind%d|%s" % (c.name(), ch, k, kind, unit)) for (c, ch, k, kind, unit) in pl]
    if only is not None:
        pl = [x for x in pl if x[5] == only]
    refs = {}
    for (c, ch, k, kind, unit, nm) in pl:
        refs["ref|%s|ch%d" % (c.name(), ch)] = ref_script(c, ch, call_items(c, ch))
    impl = ctx.batch(list(refs.items()), clean=True, op_timeout=10, retry_timeouts=True)
    jobs, meta = [], {}
    layout_unknown, off_table = [], set()
    for (c, ch, k, kind, unit, nm) in pl:
        n = call_items(c, ch)
        rc = round_callbacks(c, n, impl.get("ref|%s|ch%d" % (c.name(), ch), []))
        if rc is None or k > len(rc):
            layout_unknown.append(nm)        # the fault-free call's write callbacks do not add up to the call (or there are fewer rounds than planned)
            continue
        if [b for (_, b) in rc] != [x * c.w for x in rounds_of(c, n)]:
            off_table.add("%s|ch%d" % (c.name(), ch))
        r1 = expected_ret1(c, ch, [b for (_, b) in rc], k, kind)
        sc = script_of(c, ch, n, k, kind, unit, r1, at=rc[k - 1][0])
        jobs.append((nm, sc))
        meta[nm] = [c, ch, n, k, kind, unit, r1, sc, rc[k - 1][0]]
    stats["scripts_dropped_because_the_fault_free_trace_is_not_understood"] = len(layout_unknown)
    stats["cells_whose_rounds_differ_from_the_Lean_staging_table(whole-frame rounding of float32.c / double64.c)"] = sorted(off_table)
    impl.update(ctx.batch(jobs, clean=True, op_timeout=10, retry_timeouts=True))
    # a cell whose first call did not return what the staging table predicts is re-run with the value it did return (the re-submission
    # must start where the library said it stopped); the verdict is about that second run
    again = []
    for nm, m in meta.items():
        c, ch, n, k, kind, unit, r1, sc, at = m
        rl = [l for l in impl.get(nm, []) if l.startswith("ret=")][1 if c.replace else 0:]
        if rl:
            got = int(L.kvs(rl[0]).get("ret", "0")) * (ch if unit == "f" else 1)
            if got != r1 and 0 <= got <= n and got % ch == 0:
                m[6], m[7] = got, script_of(c, ch, n, k, kind, unit, got, at=at)
                again.append((nm, m[7]))
    if again:
        impl.update(ctx.batch(again, clean=True, op_timeout=10, retry_timeouts=True))
    stats["scripts"] = len(jobs)
    stats["re_run_with_the_returned_count"] = len(again)

    recs, fields, probs = [], {}, []
    fired = 0
    # KF-C15-TORN-ITEM is waived only while its witness still fails on this tree
    kf_torn = next((k for k in ctx.known if k.get("id") == "KF-C15-TORN-ITEM" and k.get("status") == "known"), None)
    if kf_torn is not None and not ctx.witness_still_fails(kf_torn):
        kf_torn = None
    for nm, (c, ch, n, k, kind, unit, r1, sc, at) in meta.items():
        lines = impl.get(nm, [])
        ctx.count(len(lines), "stage:%s:%s" % (c.kernel, "swap" if c.enc.endswith("be") else "host"))
        dm = [l for l in lines if l.startswith("calls=")]
        if dm and int(L.kvs(dm[-1]).get("fired", 0)) > 0:
            fired += 1
        rec, prob, f = record_of(c, ch, n, unit, r1, lines, impl.get("ref|%s|ch%d" % (c.name(), ch), []))
        if prob:
            probs.append((nm, ["run"], prob, sc))
            continue
        recs.append("%s %s" % (nm.replace(" ", "_"), rec))
        fields[nm] = f
    stats["scripts_in_which_the_fault_fired"] = fired
    if recs:
        p = subprocess.run([ctx.sfmodel(), "stage", "judge"], input="\n".join(recs) + "\n", capture_output=True, text=True, timeout=900)
        if p.returncode != 0:
            raise RuntimeError("sfmodel stage judge failed: " + p.stderr[-2000:])
        verdicts = {}
        for line in p.stdout.split("\n"):
            t = line.split()
            if len(t) >= 2:
                verdicts[t[0]] = t[1:]
        for nm in fields:
            v = verdicts.get(nm)
            if v is None:
                raise RuntimeError("sfmodel stage judge gave no verdict for %s" % nm)
            if v[0] == "ok":
                continue
            tags = L.kvs(" ".join(v)).get("clause", "?").split(",")
            if kf_torn is not None and torn_item(meta[nm][0], meta[nm][1], fields[nm], tags):
                stats["known_finding_hits(KF-C15-TORN-ITEM)"] = stats.get("known_finding_hits(KF-C15-TORN-ITEM)", 0) + 1
                ctx.known_finding(kf_torn)
                continue
            f = dict(fields[nm], acc=fields[nm]["ret1"] + fields[nm]["ret2"])
            text = "; ".join(CLAUSE_TEXT.get(t, t) % f for t in tags)
            probs.append((nm, tags, text, meta[nm][7]))
    stats["records_judged_by_Sf.StageLoop.judge"] = len(recs)

    # ---- the modelled cells on Sf.Faults (writeLoop / writeTail under the same schedule)
    mjobs = [(nm, m[7]) for nm, m in meta.items() if m[0].modelled and "%s|ch%d" % (m[0].name(), m[1]) not in off_table]
    if quick and only is None:
        # the driver costs 65 ms per long script: ONE script per cell here (the round rotates with the cell), all of them in the thorough tier
        per = {}
        for (nm, sc) in mjobs:
            per.setdefault(nm.split("|")[0], []).append((nm, sc))
        mjobs = [v[i % len(v)] for i, (cn, v) in enumerate(sorted(per.items()))]
    corr = []
    if mjobs:
        inp = "".join("== %s\n%s" % (n, s) for (n, s) in mjobs)
        p = subprocess.run([ctx.sfmodel(), "faults"], input=inp, capture_output=True, text=True, timeout=1800)
        if p.returncode != 0:
            raise RuntimeError("sfmodel faults failed: " + p.stderr[-2000:])
        model, cur = {}, None
        for line in p.stdout.split("\n"):
            if line.startswith("== end"):
                cur = None
            elif line.startswith("== "):
                cur = line[3:]
                model[cur] = []
            elif cur is not None:
                model[cur].append(line.strip())
        for (nm, sc) in mjobs:
            a = L.normalise_l1(sc, impl.get(nm, []))
            b = model.get(nm, [])
            if a != b:
                k = next((j for j, (x, y) in enumerate(zip(a, b)) if x != y), min(len(a), len(b)))
                corr.append((nm, k, a[k] if k < len(a) else "(missing)", b[k] if k < len(b) else "(missing)", sc))
        ctx.coverage["traces_validated_against_impl"] += len(mjobs)
    stats["model_scripts"] = len(mjobs)
    stats["model_disagreements"] = len(corr)
    stats["problems"] = len(probs)
    stats["wall_s"] = round(time.time() - t0, 1)
    return probs, corr, stats


def replay_text(prop, nm, tags, text, sc):
    return ("# %s violated on the implementation's own transcript (staging-loop matrix: ONE short transfer inside the staging loop of a write kernel): %s\n"
            "# cell %s  (kernel@encoding | channels | shortened write callback of the long call | fault kind 1 zero / 2 half / 7 one byte less | i items / f frames)\n"
            "# failing clause(s) of Sf.StageLoop.judge: %s\nstage-cell %s\n--- script\n%s" % (prop, text, nm, ",".join(tags), nm, sc))


def run(ctx, prop):
    """called from vlib/props/c04.py, c05.py, c15.py; returns True when a failing input was reported"""
    quick = ctx.tier == "quick"
    probs, corr, stats = campaign(ctx, quick)
    ctx.notes["staging_loop_matrix"] = stats
    seen = set()
    for (nm, tags, text, sc) in probs:
        key = (nm.split("|")[0], tuple(tags))
        if key in seen or len(seen) >= 4:
            continue
        seen.add(key)
        ctx.violation("stage-" + re.sub(r"[^A-Za-z0-9]+", "-", nm), replay_text(prop, nm, tags, text, sc))
    if corr and not probs:
        nm, k, a, b, sc = corr[0]
        ctx.violation("stage-correspondence-" + re.sub(r"[^A-Za-z0-9]+", "-", nm),
                      "# Sf.Faults.writeLoop and the implementation disagree on the staging-loop matrix: %d of %d scripts; first %s line %d\n# implementation: %s\n# model:          %s\n--- script\n%s"
                      % (len(corr), stats["model_scripts"], nm, k, a[:300], b[:300], sc), no_input=True)
    if probs:
        ctx.sample({"kind": "staging-loop matrix", "cell": probs[0][0], "clauses": probs[0][1], "text": probs[0][2]})
    return bool(probs)


def is_replay(text):
    return "\nstage-cell " in "\n" + text


def replay(ctx, path, text):
    nm = next((l.split(None, 1)[1].strip() for l in text.split("\n") if l.startswith("stage-cell ")), None)
    probs, corr, stats = campaign(ctx, False, only=nm)
    if not stats["scripts"]:
        probs, corr, stats = campaign(ctx, True, only=nm)
    for (n, tags, t, sc) in probs:
        print("staging-loop matrix: %s: %s: %s" % (n, ",".join(tags), t))
    for c in corr:
        print("staging-loop matrix, model differs: %s line %d: implementation %s / model %s" % (c[0], c[1], c[2][:120], c[3][:120]))
    if probs or corr:
        ctx.report(path, no_input=not probs)
    else:
        print("replay: the property holds on this cell now (%d script(s))" % stats["scripts"])
