"""C18 campaigns: PEAK chunk data and the signal-max commands versus the true maxima.

  peak_campaign         files written through every caller type / partition; the PEAK chunk in the file, SFC_GET_SIGNAL_MAX and
                        SFC_GET_MAX_ALL_CHANNELS (write handle and after re-open) against the exact (max |x|, first frame) per
                        channel, and against the Lean model (`sfmodel c18 peak`, bug for bug)
  calc_campaign         SFC_CALC_[NORM_]SIGNAL_MAX / SFC_CALC_[NORM_]MAX_ALL_CHANNELS on every writable format: result == maximum of
                        the sequential reference stream, position and norm flags restored (`sfmodel c18 calc`)
  l1_calc_campaign      RAW/AU/WAV transcripts with CALC/GET commands versus `sfmodel c18 script`
  toggle_rdwr_campaign  SFC_SET_ADD_PEAK_CHUNK on/off and extension of a PEAK file in SFM_RDWR

All comparisons are on bit patterns / exact rationals (struct, fractions.Fraction); no decimal text.
"""
import collections, struct
from fractions import Fraction

from . import formats, readcamp as R, scripts as S, abscheck

LE, BE = 0x10000000, 0x20000000
KF_NARROW = "KF-C18-DOUBLE-NARROW"
KF_STAGING = "KF-C18-STAGING-MISALIGN"
KF_TINY = "KF-C18-PEAK-SUBNORMAL"      # repaired (the portable writers encode exponent field 0): a regression test now, never waived; gen_subnormal_jobs covers the class on every run
KF_CALC_RW = "KF-C18-CALC-RDWR-BLOCK"
TINY = Fraction(1e-30)       # the double constant of src/float32.c:316/351, exactly
TIMESTAMP = 1000000000

# name -> (format word without codec, chunk flavour)
CONTAINERS = collections.OrderedDict([
    ("wav", (0x010000, "riff-le")), ("rifx", (0x010000 | BE, "riff-be")), ("wavex", (0x130000, "riff-le")),
    ("aiff", (0x020000, "iff")), ("caf", (0x180000, "caf")), ("rf64", (0x220000, "riff-le"))])
ENC = {"f32": 0x0006, "f64": 0x0007}
DIG = {"s16": 4, "s32": 8, "f32": 8, "f64": 16}
STAGE = {"f32": 2048, "f64": 1024}           # items of the staging buffer per file encoding
DEAD = ("CRASH", "ABORT", "TIMEOUT")


class Finding:
    def __init__(self, kind, name, text, script, kf=None, job=None, cat=None):
        self.kind, self.name, self.text, self.script, self.kf, self.job, self.cat = kind, name, text, script, kf, job, cat

    def __repr__(self):
        return "Finding(%s kf=%s %s: %s)" % (self.kind, self.kf, self.name, self.text[:300])


# ---------------------------------------------------------------------------------------------------
# bit-pattern arithmetic
# ---------------------------------------------------------------------------------------------------

def b2f32(b):
    return struct.unpack("<f", struct.pack("<I", b & 0xFFFFFFFF))[0]


def b2f64(b):
    return struct.unpack("<d", struct.pack("<Q", b & 0xFFFFFFFFFFFFFFFF))[0]


def f32b(x):
    """binary32 bits of the double x rounded to nearest even (the C cast); overflow -> infinity"""
    try:
        return struct.unpack("<I", struct.pack("<f", x))[0]
    except OverflowError:
        return 0x7F800000 | (0x80000000 if x < 0 else 0)


def f64b(x):
    return struct.unpack("<Q", struct.pack("<d", x))[0]


def widen(b32):
    return f64b(b2f32(b32))


def sx(v, bits):
    v &= (1 << bits) - 1
    return v - (1 << bits) if v >> (bits - 1) else v


def to_file_bits(enc, ty, bits, scale):
    """the value the library stores for caller item `bits` of type ty: f32 bits (enc f32) or f64 bits (enc f64)"""
    if ty == "s16" or ty == "s32":
        k = sx(bits, 16 if ty == "s16" else 32)
        sc = (2.0 ** -15 if ty == "s16" else 2.0 ** -31) if scale else 1.0
        if enc == "f32":
            return f32b(b2f32(f32b(float(k))) * sc)      # (float) k rounds to nearest even, the power-of-two scale is exact
        return f64b(float(k) * sc)
    if ty == "f32":
        return bits if enc == "f32" else widen(bits)
    return f32b(b2f64(bits)) if enc == "f32" else bits


def mag(enc, fb):
    """|x| as an exact rational"""
    x = b2f32(fb) if enc == "f32" else b2f64(fb)
    return Fraction(abs(x))


def representable32(b64):
    x = b2f64(b64)
    return b2f32(f32b(x)) == x


# ---------------------------------------------------------------------------------------------------
# container parsing: the PEAK chunk before the data chunk, by walking the chunk list (audio bytes cannot fake a marker)
# ---------------------------------------------------------------------------------------------------

def find_peak(container, data):
    """returns (chunk bytes from marker to end of chunk, offset) or (None, reason)"""
    flav = CONTAINERS[container][1]
    try:
        if flav.startswith("riff"):
            e = "<" if flav == "riff-le" else ">"
            pos = 12
            while pos + 8 <= len(data):
                cid, size = data[pos:pos + 4], struct.unpack(e + "I", data[pos + 4:pos + 8])[0]
                if cid == b"data":
                    return None, "no PEAK chunk before 'data'"
                if cid == b"PEAK":
                    return data[pos:pos + 8 + size], pos
                pos += 8 + size + (size & 1)
        elif flav == "iff":
            pos = 12
            while pos + 8 <= len(data):
                cid, size = data[pos:pos + 4], struct.unpack(">I", data[pos + 4:pos + 8])[0]
                if cid == b"SSND":
                    return None, "no PEAK chunk before 'SSND'"
                if cid == b"PEAK":
                    return data[pos:pos + 8 + size], pos
                pos += 8 + size + (size & 1)
        else:
            pos = 8
            while pos + 12 <= len(data):
                cid, size = data[pos:pos + 4], struct.unpack(">q", data[pos + 4:pos + 12])[0]
                if cid == b"data":
                    return None, "no peak chunk before 'data'"
                if cid == b"peak":
                    return data[pos:pos + 12 + size], pos
                pos += 12 + size
    except struct.error:
        pass
    return None, "chunk list ends without a data chunk"


def header_region(container, data):
    """bytes before the data chunk marker (chunk walk); whole file if the walk fails"""
    flav = CONTAINERS[container][1]
    try:
        if flav == "caf":
            pos = 8
            while pos + 12 <= len(data):
                if data[pos:pos + 4] == b"data":
                    return data[:pos]
                pos += 12 + struct.unpack(">q", data[pos + 4:pos + 12])[0]
        else:
            e = "<" if flav == "riff-le" else ">"
            stop = b"SSND" if flav == "iff" else b"data"
            pos = 12
            while pos + 8 <= len(data):
                if data[pos:pos + 4] == stop:
                    return data[:pos]
                size = struct.unpack(e + "I", data[pos + 4:pos + 8])[0]
                pos += 8 + size + (size & 1)
    except struct.error:
        pass
    return data


def parse_peak(container, chunk, ch):
    """returns (problems, values f32 bits, positions)"""
    flav = CONTAINERS[container][1]
    probs, vals, poss = [], [], []
    if flav == "caf":
        size = struct.unpack(">q", chunk[4:12])[0]
        if size != 4 + 12 * ch or len(chunk) != 12 + size:
            return ["peak chunk size %d, expected %d" % (size, 4 + 12 * ch)], vals, poss
        if struct.unpack(">I", chunk[12:16])[0] != 0:
            probs.append("peak edit count %d" % struct.unpack(">I", chunk[12:16])[0])
        for c in range(ch):
            v, p = struct.unpack(">Iq", chunk[16 + 12 * c:28 + 12 * c])
            vals.append(v)
            poss.append(p)
        return probs, vals, poss
    e = "<" if flav == "riff-le" else ">"
    size = struct.unpack(e + "I", chunk[4:8])[0]
    if size != 8 + 8 * ch or len(chunk) != 8 + size:
        return ["PEAK chunk size %d, expected %d" % (size, 8 + 8 * ch)], vals, poss
    ver, ts = struct.unpack(e + "II", chunk[8:16])
    if ver != 1:
        probs.append("PEAK version %d" % ver)
    if ts != TIMESTAMP:
        probs.append("PEAK timestamp %d (clock pinned at %d)" % (ts, TIMESTAMP))
    for c in range(ch):
        v, p = struct.unpack(e + "II", chunk[16 + 8 * c:24 + 8 * c])
        vals.append(v)
        poss.append(p)
    return probs, vals, poss


def cmd_doubles(line):
    """(ret, err, [f64 bit patterns]) of a `cmd` transcript line"""
    kv = abscheck.parse_kv(line)
    hx = kv.get("data", "")
    raw = bytes.fromhex(hx) if hx and hx != "null" else b""
    return int(kv.get("ret", "-999")), kv.get("err", "?"), [struct.unpack("<Q", raw[i:i + 8])[0] for i in range(0, len(raw) - 7, 8)]


# ---------------------------------------------------------------------------------------------------
# PEAK jobs
# ---------------------------------------------------------------------------------------------------

class Job:
    """container, enc, ch, scale, calls = [(ty, unit, [caller item bit patterns])] (empty calls allowed), shape/part tags"""

    def __init__(self, name, container, enc, ch, scale, calls, tags):
        self.name, self.container, self.enc, self.ch, self.scale, self.calls, self.tags = name, container, enc, ch, scale, calls, tags

    @property
    def word(self):
        return CONTAINERS[self.container][0] | ENC[self.enc]

    def open_lines(self, h="h0", mode="w", peak_cmds=None):
        ls = ["open %s s0 %s fmt=%08x ch=%d sr=8000" % (h, mode, self.word, self.ch)]
        ls.append("cmd %s 1015 %d null" % (h, self.scale))
        if self.container == "rf64" and peak_cmds is None:
            ls.append("cmd %s 1050 1 null" % h)
        for v in peak_cmds or []:
            ls.append("cmd %s 1050 %d null" % (h, v))
        return ls

    def write_lines(self, h="h0", calls=None):
        ls = []
        for (ty, unit, items) in (self.calls if calls is None else calls):
            cnt = len(items) if unit == "i" else len(items) // self.ch
            ls.append(("w %s %s %s %d %s" % (h, ty, unit, cnt, "".join("%0*x" % (DIG[ty], v) for v in items))).rstrip())
        return ls

    def script(self):
        ch = self.ch
        ls = self.open_lines() + self.write_lines()
        ls += ["cmd h0 1045 %d zero" % (8 * ch), "cmd h0 1044 8 zero", "close h0", "dump s0", "open h1 s0 r fmt=0 ch=0 sr=0",
               "cmd h1 1044 8 zero", "cmd h1 1045 %d zero" % (8 * ch), "close h1"]
        return "\n".join(ls) + "\n"

    def model_line(self, calls=None):
        toks = ["%s:%s" % (ty, "".join("%0*x" % (DIG[ty], v) for v in items)) for (ty, unit, items) in (self.calls if calls is None else calls) if items]
        return " ".join([self.container, self.enc, str(self.ch), str(self.scale)] + toks)

    def file_items(self, calls=None):
        """all items converted to the file type, in file order"""
        out = []
        for (ty, unit, items) in (self.calls if calls is None else calls):
            out += [to_file_bits(self.enc, ty, v, self.scale) for v in items]
        return out

    def in_narrow(self, calls=None):
        return self.enc == "f64" and any(not representable32(b) for b in self.file_items(calls))

    def in_staging(self, calls=None):
        st = STAGE[self.enc]
        return st % self.ch != 0 and any(ty != self.enc and len(items) > st for (ty, unit, items) in (self.calls if calls is None else calls))


def stale_swapped(job, calls=None):
    """a staged call whose last chunk is shorter than one frame, on a file whose data byte order differs from the host's:
    the code then looks at the previous chunk's item after the in-place byte swap. The Lean model does not describe that
    memory; the job lies inside KF-C18-STAGING-MISALIGN."""
    if job.container not in ("rifx", "aiff", "caf"):
        return False
    st = STAGE[job.enc]
    return any(ty != job.enc and len(items) > st and 0 < len(items) % st < job.ch for (ty, unit, items) in (job.calls if calls is None else calls))


def true_peaks(enc, ch, file_items):
    """per channel (max |x| as Fraction, first frame index, file-type bits of |max|); all-zero channel: (0, 0)"""
    res = []
    for c in range(ch):
        best, pos, bb = Fraction(0), 0, 0
        for k in range(c, len(file_items), ch):
            m = mag(enc, file_items[k])
            if m > best:
                best, pos = m, k // ch
                bb = file_items[k] & (0x7FFFFFFF if enc == "f32" else 0x7FFFFFFFFFFFFFFF)
        res.append((best, pos, bb))
    return res


def simulate_library(job, narrow=True, misalign=True, calls=None, start=None):
    """literal re-execution of float32_peak_update / double64_peak_update over the job's calls.
    narrow: the running maximum is a C float (as in the code); misalign: staging chunks restart channel counting.
    Returns per channel (value as double bits, position), or None when a chunk shorter than the channel count makes the
    code look at stale staging memory (not simulated here; the Lean model does)."""
    enc, ch = job.enc, job.ch
    peaks = [(0.0, 0)] * ch if start is None else list(start)
    wc = 0 if start is None else None
    frames_before = 0
    tof = (lambda b: b2f32(b)) if enc == "f32" else (lambda b: b2f64(b))
    rnd = (lambda x: b2f32(f32b(x))) if narrow else (lambda x: x)
    for (ty, unit, items) in (job.calls if calls is None else calls):
        if not items:
            continue
        vals = [abs(tof(to_file_bits(enc, ty, v, job.scale))) for v in items]
        chunk = len(vals) if ty == enc else STAGE[enc]
        total = 0
        while total < len(vals):
            buf = vals[total:total + chunk]
            for c in range(ch):
                first = c if misalign else (c - total) % ch
                if first >= len(buf):
                    if misalign:
                        return None
                    continue
                fmax, position = rnd(buf[first]), first
                for k in range(first, len(buf), ch):
                    if fmax < buf[k]:
                        fmax, position = rnd(buf[k]), k
                if fmax > peaks[c][0]:
                    peaks[c] = (fmax, frames_before + (total // ch if misalign else 0) + ((position // ch) if misalign else (total + position) // ch))
            total += len(buf)
        frames_before += len(vals) // ch
    return [(f64b(v), p) for (v, p) in peaks]


# --- generators ---

def _rand_item(rng, ty, valmode):
    """one caller item; valmode 'exact32': exactly binary32-representable after conversion to double; 'wide': needs more bits"""
    if ty == "s16":
        return S.rand_values(rng, "s16", 1)[0]
    if ty == "s32":
        if valmode == "exact32":
            k = rng.randrange(-(1 << 24) + 1, 1 << 24) << rng.choice([0, 0, 3, 7])
            return k & 0xFFFFFFFF
        v = S.rand_values(rng, "s32", 1)[0]
        if valmode == "wide" and rng.random() < 0.7:
            v |= 1
        return v
    if ty == "f32":
        return S.rand_values(rng, "f32", 1)[0]
    if valmode == "exact32":
        return widen(S.rand_values(rng, "f32", 1)[0])
    r = rng.random()
    if r < 0.25:     # just above a binary32 value: the float running maximum cannot tell them apart
        base = b2f32(S.rand_values(rng, "f32", 1, "unit")[0] & 0xFFFFFFFF)
        return f64b(base) + rng.choice([1, 1 << 20, 1 << 27, 1 << 28, (1 << 28) + 1, (1 << 29) - 1]) if base == base else f64b(0.5)
    if r < 0.3:
        return f64b(rng.choice([1e-50, -1e-50, 2.0 ** -150, 2.0 ** -149, 1.5 * 2.0 ** -149, 1.0 + 2.0 ** -30, 1.0 + 2.0 ** -31, -(1.0 + 2.0 ** -30)]))
    return S.rand_values(rng, "f64", 1)[0]


def _neg(ty, v):
    if ty == "f32":
        return v ^ 0x80000000
    if ty == "f64":
        return v ^ 0x8000000000000000
    bits = 16 if ty == "s16" else 32
    k = sx(v, bits)
    k = -k if k != -(1 << (bits - 1)) else (1 << (bits - 1)) - 1
    return k & ((1 << bits) - 1)


PARTS = ["one", "perframe", "odd", "big"]
SHAPES = ["random", "tie-same", "tie-neg", "first", "last", "bnd-last", "bnd-first", "bnd-both", "negmax", "zeros", "const"]
CALLERS = ["same", "otherfloat", "s32", "s16", "mixed16"]


def gen_job(rng, name, container, enc, ch, caller, scale, shape, part, valmode):
    st = STAGE[enc]
    # ---- partition (frames per call) ----
    if part == "big":
        bigitems = rng.choice([st + ch, st + 1 + rng.randrange(0, 60), 2 * st + rng.randrange(1, 40), 2 * st, st + st // 2, 3 * st + 5])
        bigf = (bigitems + ch - 1) // ch
        if bigf * ch <= st:
            bigf += 1
        sizes = [rng.randrange(0, 4), bigf, rng.randrange(0, 4)]
        if rng.random() < 0.25:
            sizes.append((st + rng.randrange(1, 50)) // ch + 1)
        sizes = [s for s in sizes if s > 0]
    else:
        F = rng.choice([1, 2, 3, 4, 5, 7, 8, 12, 16, 25, 40])
        if part == "one":
            sizes = [F]
        elif part == "perframe":
            sizes = [1] * F
        else:
            sizes, left = [], F
            while left > 0:
                k = min(left, rng.choice([1, 2, 3, 5, 7, 11]))
                sizes.append(k)
                left -= k
    F = sum(sizes)
    # ---- caller type per call ----
    other = "f64" if enc == "f32" else "f32"
    if caller == "mixed16":
        # values are 16-bit integers k rendered in any caller type (k, k<<16 when scaled; the float value otherwise)
        tys = [rng.choice(["s16", "s32", "f32", "f64"]) for _ in sizes]
    else:
        ty = {"same": enc, "otherfloat": other, "s32": "s32", "s16": "s16"}[caller]
        tys = [ty] * len(sizes)
    # ---- values: frame-major table of abstract items ----
    if caller == "mixed16":
        table = [[sx(S.rand_values(rng, "s16", 1)[0], 16) for _ in range(ch)] for _ in range(F)]
        negate = lambda v: -v if v != -32768 else 32767
        key = lambda v: abs(v)
    else:
        table = [[_rand_item(rng, tys[0], valmode) for _ in range(ch)] for _ in range(F)]
        negate = lambda v: _neg(tys[0], v)
        key = lambda v: mag(enc, to_file_bits(enc, tys[0], v, scale))
    zero = 0
    starts = [sum(sizes[:j]) for j in range(len(sizes))]
    if shape == "zeros":
        for f in range(F):
            for c in range(ch):
                if rng.random() < 0.9 or c == 0:
                    table[f][c] = zero if caller == "mixed16" or not tys[0].startswith("f") or rng.random() < 0.7 else negate(zero)
    elif shape == "const":
        for c in range(ch):
            v = table[0][c]
            for f in range(F):
                table[f][c] = v if rng.random() < 0.6 else negate(v)
    elif shape != "random":
        for c in range(ch):
            if rng.random() < 0.15:
                continue
            col = [table[f][c] for f in range(F)]
            fm = max(range(F), key=lambda f: (key(col[f]), -f))
            vmax = col[fm]
            if part == "big" and rng.random() < 0.7:
                # steer the maximum towards a staging-chunk boundary of the big call
                j = max(range(len(sizes)), key=lambda j: sizes[j])
                b = rng.choice([st, st, 2 * st]) + rng.choice([-2 * ch, -ch, -1, 0, 1, ch, 22])
                tgt = starts[j] + max(0, min(sizes[j] - 1, b // ch))
            else:
                tgt = rng.randrange(F)
            if shape == "first":
                tgt = 0
            elif shape == "last":
                tgt = F - 1
            elif shape in ("bnd-last", "bnd-first", "bnd-both") and len(sizes) > 1:
                j = rng.randrange(len(sizes) - 1)
                tgt = starts[j + 1] - 1 if shape != "bnd-first" else starts[j + 1]
            table[fm][c], table[tgt][c] = table[tgt][c], vmax
            if shape == "bnd-both" and tgt + 1 < F:
                table[tgt + 1][c] = vmax if rng.random() < 0.5 else negate(vmax)
            if shape in ("tie-same", "tie-neg"):
                t2 = rng.randrange(F)
                table[t2][c] = vmax if shape == "tie-same" else negate(vmax)
                if rng.random() < 0.3:
                    table[rng.randrange(F)][c] = negate(vmax)
            if shape == "negmax":
                k = sx(vmax, 16) if tys[0] == "s16" else sx(vmax, 32) if tys[0] == "s32" else None
                if caller == "mixed16":
                    table[tgt][c] = -abs(vmax)
                elif k is not None:
                    table[tgt][c] = (-abs(k)) & (0xFFFF if tys[0] == "s16" else 0xFFFFFFFF)
                else:
                    table[tgt][c] = vmax | (0x80000000 if tys[0] == "f32" else 0x8000000000000000)

    def render(ty, v):
        if caller != "mixed16":
            return v
        if ty == "s16":
            return v & 0xFFFF
        if ty == "s32":
            return ((v << 16) if scale else v) & 0xFFFFFFFF
        x = v / 32768.0 if scale else float(v)
        return f32b(x) if ty == "f32" else f64b(x)

    calls = []
    for j, n in enumerate(sizes):
        items = [render(tys[j], table[f][c]) for f in range(starts[j], starts[j] + n) for c in range(ch)]
        calls.append((tys[j], rng.choice("if"), items))
        if part == "odd" and rng.random() < 0.15:
            calls.append((rng.choice(["s16", "s32", "f32", "f64"]), rng.choice("if"), []))      # an empty call changes nothing
    tags = {"container": container, "enc": enc, "ch": ch, "caller": caller, "scale": scale, "shape": shape, "part": part, "valmode": valmode,
            "frames": F}
    return Job(name, container, enc, ch, scale, calls, tags)


def gen_subnormal_jobs(rng, k0):
    """channel maxima whose binary32 has exponent field 0 (the class of the repaired KF-C18-PEAK-SUBNORMAL), always present whatever
    the seed: every container x both encodings; FLOAT files: 2^-149, 2^-148, 2^-127, the largest subnormal, FLT_MIN (the boundary), seeded subnormals, through
    the float and the double caller; DOUBLE files additionally maxima that are no binary32 (ties and near-ties between two subnormals,
    the value just below FLT_MIN that rounds up to it, 2^-150 / 2^-151 that round to 0)."""
    jobs = []
    k = k0
    fixed32 = [1, 2, 3, 0x00400000, 0x007FFFFF, 0x00800000, 0x00000100, 0x00012345, 0x00800001]      # ... FLT_MIN and its successor: the boundary of the class
    for container in CONTAINERS:
        for enc in ("f32", "f64"):
            for variant in range(2):
                ch = 1 + (k % 4)
                F = rng.choice([3, 4, 6])
                caller = enc if variant == 0 or enc == "f64" else "f64"
                maxima = []
                for c in range(ch):
                    m32 = fixed32[(k + c) % len(fixed32)] if rng.random() < 0.6 else rng.randrange(1, 0x00800000)
                    if enc == "f32" or variant == 0:
                        maxima.append(("f32", m32))
                    else:
                        # a double strictly inside the subnormal binary32 range that is no binary32: m32 + frac units of 2^-149
                        frac = rng.choice([0.5, 0.25, 0.75, 2.0 ** -20, 1 - 2.0 ** -20])
                        m32 = rng.choice([m32, 0x007FFFFF, 0, 0]) if rng.random() < 0.5 else m32
                        if m32 == 0:
                            frac = rng.choice([0.5, 0.25, 0.75])          # 2^-150 (tie, to even = 0), 2^-151 (to 0), 1.5 * 2^-150 (to 2^-149)
                        maxima.append(("f64", f64b((m32 + frac) * 2.0 ** -149)))
                table = []
                for f in range(F):
                    row = []
                    for c in range(ch):
                        kind, mx = maxima[c]
                        if kind == "f32":
                            v = rng.randrange(0, mx) if mx > 1 and rng.random() < 0.8 else 0
                            v |= rng.getrandbits(1) << 31
                            row.append(v if caller == "f32" else widen(v))
                        else:
                            v = f64b(b2f64(mx) * rng.choice([0.0, 0.25, 0.5, 0.96875]))
                            row.append(v | (rng.getrandbits(1) << 63))
                    table.append(row)
                for c in range(ch):
                    kind, mx = maxima[c]
                    f = rng.randrange(F)
                    v = mx if kind == "f64" else (mx if caller == "f32" else widen(mx))
                    table[f][c] = v | (rng.getrandbits(1) << (31 if caller == "f32" else 63))
                items = [table[f][c] for f in range(F) for c in range(ch)]
                cut = rng.randrange(0, F + 1) * ch
                calls = [(caller, rng.choice("if"), items[:cut]), (caller, rng.choice("if"), items[cut:])]
                calls = [c for c in calls if c[2]]
                tags = {"container": container, "enc": enc, "ch": ch, "caller": "same" if caller == enc else "otherfloat", "scale": 0,
                        "shape": "subnormal", "part": "odd", "valmode": "subnormal", "frames": F}
                name = "p%04d-%s-%s-c%d-%s-subnormal" % (k, container, enc, ch, caller)
                jobs.append(Job(name, container, enc, ch, 0, calls, tags))
                k += 1
    return jobs


def gen_peak_jobs(rng, n):
    jobs = []
    conts = list(CONTAINERS)
    for k in range(n):
        container = conts[k % 6]
        enc = ["f32", "f64"][(k // 6) % 2]
        ch = 1 + (k // 12 + k) % 6
        caller = CALLERS[(k // 5) % len(CALLERS)] if rng.random() < 0.7 else rng.choice(CALLERS)
        shape = SHAPES[(k // 3) % len(SHAPES)] if rng.random() < 0.7 else rng.choice(SHAPES)
        part = rng.choice(["one", "perframe", "odd", "odd", "big"]) if k % 7 else "big"
        scale = rng.choice([0, 1])
        valmode = "any"
        if enc == "f64":
            valmode = "wide" if (k // 12) % 3 == 2 else "exact32"
        if valmode == "wide" and caller in ("otherfloat", "s16", "mixed16") and rng.random() < 0.6:
            caller = rng.choice(["same", "s32"])
        name = "p%04d-%s-%s-c%d-%s%d-%s-%s-%s" % (k, container, enc, ch, caller, scale, shape, part, valmode)
        jobs.append(gen_job(rng, name, container, enc, ch, caller, scale, shape, part, valmode))
    # every converting writer (host_write_s2f/i2f/d2f, s2d/i2d/f2d) with a call longer than the staging buffer and a channel
    # count that does not divide 2048 / 1024: always present, whatever the seed (the class of the repaired KF-C18-STAGING-MISALIGN)
    k = n
    for enc in ("f32", "f64"):
        for caller in ("otherfloat", "s16", "s32"):
            for ch in (3, 5, 6):
                container = conts[k % 6]
                scale = k % 2
                # the maximum of every channel sits in the last frame, i.e. in the last staging buffer of the long call
                name = "p%04d-%s-%s-c%d-%s%d-%s-%s-%s" % (k, container, enc, ch, caller, scale, "last", "big", "stagefix")
                jobs.append(gen_job(rng, name, container, enc, ch, caller, scale, "last", "big", "exact32" if enc == "f64" else "any"))
                k += 1
    jobs += gen_subnormal_jobs(rng, k)
    from . import c18long          # ONE call longer than the staging buffer, unique maxima behind the first pass (every caller type x 1-6 channels)
    jobs += c18long.jobs(rng, len(jobs))
    return jobs


# --- evaluation ---

def hx32(b):
    return "%08x" % b


def hx64(b):
    return "%016x" % b


def observe_peak_job(job, lines, script=None, wh="h0"):
    """parse the transcript of Job.script() (or a variant of it); returns (obs dict or None, problems list of (cat, text))"""
    sl = (script or job.script()).strip().split("\n")
    probs = []
    dead = [l for l in lines if l.startswith(DEAD)]
    if dead or len(lines) < len(sl):
        return None, [("crash", "transcript ends early (%d of %d lines): %s" % (len(lines), len(sl), dead[0] if dead else (lines[-1] if lines else "")))]
    obs = {}
    ch = job.ch
    for k, (op, out) in enumerate(zip(sl, lines)):
        t = op.split()
        if t[0] == "open" and "open=ok" not in out:
            return None, [("open", "line %d `%s` -> %s" % (k, op, out))]
        if t[0] == "w":
            kv = abscheck.parse_kv(out)
            if kv.get("ret") != t[4] or kv.get("err") != "0":
                probs.append(("write", "line %d write of %s returned %s err=%s" % (k, t[4], kv.get("ret"), kv.get("err"))))
        if t[0] == "cmd" and t[2] == "1050":
            kv = abscheck.parse_kv(out)
            obs.setdefault("addpeak", []).append(int(kv.get("ret", -1)))
        if t[0] == "cmd" and t[2] in ("1044", "1045"):
            ret, err, ds = cmd_doubles(out)
            obs[("w" if t[1] == wh else "r") + t[2]] = (ret, err, ds)
        if t[0] == "dump":
            obs["file"] = bytes.fromhex(out.split("hex=")[1]) if "hex=" in out else b""
        if t[0] == "close" and out.strip() != "ret=0":
            probs.append(("close", "line %d close returned %s" % (k, out)))
    chunk, where = find_peak(job.container, obs.get("file", b""))
    obs["chunk"] = chunk
    if chunk is None:
        probs.append(("chunk", where))
    else:
        p, vals, poss = parse_peak(job.container, chunk, ch)
        probs += [("chunk", x) for x in p]
        obs["vals"], obs["poss"] = vals, poss
    return obs, probs


def check_peak_job(job, obs, calls=None):
    """compare an observation with the true maxima; returns list of (cat, text); cat 'peak' = value/position data"""
    ch, enc = job.ch, job.enc
    truth = true_peaks(enc, ch, job.file_items(calls))
    probs = []
    exp_d, exp_r = [], []
    for c, (m, pos, bb) in enumerate(truth):
        # the maximum as a double (exact: the file type is binary32 or binary64)
        d = widen(bb) if enc == "f32" else bb
        exp_d.append(d)
        # the chunk field is a binary32 (PEAK chunk definition): a DOUBLE maximum is stored rounded to nearest even.
        # Since the repair of KF-C18-PEAK-SUBNORMAL float32_le_write / float32_be_write encode exponent field 0: a maximum whose
        # binary32 is subnormal is stored as that subnormal (one that rounds to 0 is stored as 0).
        r32 = f32b(b2f64(d))
        st32 = r32
        exp_r.append(widen(st32))
        if "vals" in obs and len(obs["vals"]) == ch:
            if obs["vals"][c] != st32:
                sub = 0 < (r32 & 0x7FFFFFFF) < 0x00800000
                probs.append(("peak", "channel %d: PEAK value %s (=%r), the binary32 of the true max |x| is %s (max=%r, binary64 %s)%s"
                              % (c, hx32(obs["vals"][c]), b2f32(obs["vals"][c]), hx32(st32), float(m), hx64(d),
                                 " -- a SUBNORMAL binary32 (exponent field 0; the class of the repaired KF-C18-PEAK-SUBNORMAL)" if sub else "")))
            if obs["poss"][c] != pos:
                probs.append(("peak", "channel %d: PEAK position %d, first frame holding the maximum is %d" % (c, obs["poss"][c], pos)))
    for side in "wr":
        # write handle: the exact maximum; after re-open: what the chunk holds (the binary32, widened)
        exp = exp_d if side == "w" else exp_r
        sig = max(exp, key=lambda b: b2f64(b))
        g = obs.get(side + "1045")
        if g is None:
            continue
        ret, err, ds = g
        if ret != 1 or err != "0":
            probs.append(("cmdret", "%s handle: SFC_GET_MAX_ALL_CHANNELS returned %d err=%s" % ("write" if side == "w" else "read", ret, err)))
        elif ds != exp:
            probs.append(("peak", "%s handle: SFC_GET_MAX_ALL_CHANNELS = [%s], expected [%s]" % ("write" if side == "w" else "read", ",".join(map(hx64, ds)), ",".join(map(hx64, exp)))))
        ret, err, ds = obs.get(side + "1044")
        if ret != 1 or err != "0":
            probs.append(("cmdret", "%s handle: SFC_GET_SIGNAL_MAX returned %d err=%s" % ("write" if side == "w" else "read", ret, err)))
        elif ds != [sig]:
            probs.append(("peak", "%s handle: SFC_GET_SIGNAL_MAX = %s, expected %s" % ("write" if side == "w" else "read", ",".join(map(hx64, ds)), hx64(sig))))
    return probs


def classify(job, obs, calls=None):
    """known-finding class of a value/position mismatch: the id, or None. The signature must be reproduced by the literal
    re-execution of the code with exactly the defect(s) of the class switched on."""
    # KF-C18-DOUBLE-NARROW and KF-C18-STAGING-MISALIGN are repaired: nothing in those classes is waived any more
    return None, ""
    inn, ins = job.in_narrow(calls), job.in_staging(calls)
    got = list(zip(obs["vals"], obs["poss"]))
    gotw = obs.get("w1045", (0, "", None))[2]
    for (n, m, kf) in ((True, False, KF_NARROW), (False, True, KF_STAGING), (True, True, KF_STAGING)):
        if (n and not inn) or (m and not ins):
            continue
        if n and job.enc == "f32":
            continue
        sim = simulate_library(job, narrow=n or job.enc == "f32", misalign=m, calls=calls)
        if sim is None:
            return KF_STAGING, "a staging chunk shorter than one frame (stale staging memory is looked at)"
        # the header writer's early return for |x| < 1e-30 (cat "peak-tiny") is applied on top
        if [(f32b(b2f64(v)) if not 0 < Fraction(b2f32(f32b(b2f64(v)))) < TINY else 0, p) for v, p in sim] == got and gotw == [v for v, p in sim]:
            return kf, "reproduced by the code's algorithm with %s" % ("+".join(x for x, on in (("float running maximum on doubles", n and job.enc == "f64"), ("per-chunk channel restart", m)) if on))
    return None, "in class (%s) but the observed data is not what the class's defect produces" % ", ".join(x for x, on in ((KF_NARROW, inn), (KF_STAGING, ins)) if on)


def model_peaks(ctx, jobs_lines):
    out = ctx.run_model(["c18", "peak"], "".join(l + "\n" for l in jobs_lines), timeout=1800)
    res = out.split("\n")
    if res and res[-1] == "":
        res.pop()
    if len(res) != len(jobs_lines):
        raise RuntimeError("sfmodel c18 peak: %d output lines for %d jobs" % (len(res), len(jobs_lines)))
    return res


def compare_model(job, obs, mline):
    """model line `peaks=<f64>:<pos>,... chunk=<hex>` versus the observation; list of texts"""
    probs = []
    kv = abscheck.parse_kv(mline)
    if "peaks" not in kv or "chunk" not in kv:
        return ["model output not understood: %s" % mline[:200]]
    mp = [(int(x.split(":")[0], 16), int(x.split(":")[1])) for x in kv["peaks"].split(",") if x]
    if obs.get("chunk") is None:
        probs.append("no PEAK chunk in the file; model chunk=%s" % kv["chunk"])
    elif obs["chunk"].hex() != kv["chunk"]:
        probs.append("PEAK chunk bytes: implementation %s model %s" % (obs["chunk"].hex(), kv["chunk"]))
    mp_w = mp
    # after re-open the values come from the chunk: the binary32 of the maximum, exact since the repair of KF-C18-PEAK-SUBNORMAL (Sf.PeakExact.wrF32)
    mp_r = [(widen(f32b(b2f64(v))), p) for v, p in mp]
    for side in "wr":
        mp = mp_w if side == "w" else mp_r
        g = obs.get(side + "1045")
        if g and g[2] != [v for v, p in mp]:
            probs.append("%s handle SFC_GET_MAX_ALL_CHANNELS: implementation [%s] model [%s]" % ("write" if side == "w" else "read", ",".join(map(hx64, g[2])), ",".join(hx64(v) for v, p in mp)))
        g = obs.get(side + "1044")
        msig = max([v for v, p in mp], key=b2f64) if mp else 0
        if g and g[2] != [msig]:
            probs.append("%s handle SFC_GET_SIGNAL_MAX: implementation %s model %s" % ("write" if side == "w" else "read", ",".join(map(hx64, g[2])), hx64(msig)))
    mp = mp_w
    if "poss" in obs and obs["poss"] != [p for v, p in mp]:
        probs.append("PEAK positions: implementation %s model %s" % (obs["poss"], [p for v, p in mp]))
    return probs


def shrink_peak(ctx, job, still):
    """fewer calls / frames while `still(calls)` holds (non-KF truth findings only); returns calls"""
    calls = [c for c in job.calls if c[2]]
    budget = 40
    changed = True
    while changed and budget > 0:
        changed = False
        for j in range(len(calls)):
            cand = calls[:j] + calls[j + 1:]
            budget -= 1
            if cand and still(cand):
                calls, changed = cand, True
                break
        if changed:
            continue
        for j, (ty, unit, items) in enumerate(calls):
            nf = len(items) // job.ch
            if nf < 2:
                continue
            for keep in (items[:(nf // 2) * job.ch], items[(nf // 2) * job.ch:]):
                cand = calls[:j] + [(ty, unit, keep)] + calls[j + 1:]
                budget -= 1
                if still(cand):
                    calls, changed = cand, True
                    break
            if changed:
                break
    return calls


def peak_campaign(ctx, quick=True, njobs=None, model=True):
    rng = ctx.rng
    n = njobs or (720 if quick else 4000)
    jobs = gen_peak_jobs(rng, n)
    scripts = [(j.name, j.script()) for j in jobs]
    impl = ctx.batch(scripts, clean=True, workers=4)
    mlines = model_peaks(ctx, [j.model_line() for j in jobs]) if model else [None] * len(jobs)
    findings, stats = [], collections.Counter()
    for job, ml in zip(jobs, mlines):
        script = job.script()
        stats["jobs"] += 1
        stats["ops"] += script.count("\n")
        stats["items"] += sum(len(c[2]) for c in job.calls)
        for k in ("container", "enc", "ch", "caller", "shape", "part", "valmode", "scale"):
            stats["%s:%s" % (k, job.tags[k])] += 1
        inn, ins = job.in_narrow(), job.in_staging()
        stats["class:narrow"] += inn
        stats["class:staging"] += ins
        stats["class:none"] += not (inn or ins)
        ctx.count(1, "peak:%s:%s:%d:%s:%s:%s" % (job.container, job.enc, job.ch, job.tags["caller"], job.tags["shape"], job.tags["part"]))
        obs, probs = observe_peak_job(job, impl.get(job.name, []))
        if obs is None:
            findings.append(Finding("crash" if probs[0][0] == "crash" else "truth", job.name, probs[0][1], script, job=job, cat=probs[0][0]))
            stats["dead"] += 1
            continue
        probs += check_peak_job(job, obs)
        hard = [p for p in probs if p[0] != "peak"]
        soft = [p for p in probs if p[0] == "peak"]
        if job.tags.get("shape") == "subnormal":
            stats["subnormal_maxima_channels"] += job.ch
        if hard:
            findings.append(Finding("truth", job.name, "; ".join(t for _, t in hard[:4]), script, job=job, cat=hard[0][0]))
        if soft:
            kf, why = classify(job, obs)
            calls = None
            if kf is None and not hard:
                def still(calls):
                    lines, rc, err = ctx.script(Job(job.name, job.container, job.enc, job.ch, job.scale, calls, job.tags).script())
                    o, p = observe_peak_job(Job(job.name, job.container, job.enc, job.ch, job.scale, calls, job.tags), lines)
                    return o is not None and any(c == "peak" for c, _ in check_peak_job(job, o, calls)) and classify(job, o, calls)[0] is None
                try:
                    calls = shrink_peak(ctx, job, still)
                except Exception:
                    calls = None
            text = "; ".join(t for _, t in soft[:6]) + (" [%s]" % why if why else "")
            fscript = script
            if calls is not None and len(calls) < len(job.calls) or (calls and sum(len(c[2]) for c in calls) < sum(len(c[2]) for c in job.calls)):
                sj = Job(job.name, job.container, job.enc, job.ch, job.scale, calls, job.tags)
                lines, rc, err = ctx.script(sj.script())
                o, p = observe_peak_job(sj, lines)
                if o is not None:
                    sp = [t for c, t in check_peak_job(sj, o) if c == "peak"]
                    if sp:
                        text, fscript = "; ".join(sp[:6]) + " (shrunk from %d calls / %d frames)" % (len(job.calls), job.tags["frames"]), sj.script()
            findings.append(Finding("truth", job.name, text, fscript, kf=kf, job=job, cat="peak"))
            stats["truth-mismatch:%s" % (kf or "unclassified")] += 1
        if False and ml is not None and stale_swapped(job):      # (the repaired writers never look at stale staging memory)
            stats["model_skipped_stale_swapped"] += 1
        elif ml is not None:
            cp = compare_model(job, obs, ml)
            if cp:
                findings.append(Finding("corr", job.name, "; ".join(cp[:4]) + "  [model job: %s]" % (job.model_line()[:400]), script, job=job, cat="corr"))
                stats["corr-mismatch"] += 1
            stats["model_jobs"] += 1
    stats["distinct_tags"] = len([t for t in ctx.distinct if t.startswith("peak:")])
    return findings, stats


# ---------------------------------------------------------------------------------------------------
# SFC_CALC_* on every writable format
# ---------------------------------------------------------------------------------------------------

CALC_CMDS = ["1040", "1041", "1042", "1043"]


def rw_block(f):
    """formats whose codec seek refuses the mode-less rewind of the CALC commands on an SFM_RDWR handle"""
    return (f.major == 0x05 and f.codec == 0x03) or f.major == 0x11
CALC_NORM = {"1040": 0, "1041": 1, "1042": 0, "1043": 1}
PAD = 4200       # frames of slack in the reference read (block codecs pad the last block; ALAC: 4096)


def _open_r(h, f, ch, sr=8000):
    return ("open %s s0 r fmt=%08x ch=%d sr=%d" % (h, f.word, ch, sr)) if f.major == 0x04 else ("open %s s0 r fmt=0 ch=0 sr=0" % h)


def calc_write_script(rng, f, ch, n):
    wty = "s16" if f.codec not in (0x06, 0x07) else rng.choice(["f32", "f64", "s16"])
    lines = ["open h0 s0 w fmt=%08x ch=%d sr=8000" % (f.word, ch)]
    left = n
    while left > 0:
        k = min(left, rng.choice([1, 3, 64, 505, 1024, left, left]))
        unit = rng.choice("if")
        lines.append(S.w_line("h0", wty, unit, k if unit == "f" else k * ch, S.rand_values(rng, wty, k * ch, "unit")))
        left -= k
    lines += ["close h0", "dump s0"]
    for norm in (0, 1):
        h = "h%d" % (norm + 1)
        lines += [_open_r(h, f, ch), "cmd %s 1012 %d null" % (h, norm), "r %s f64 i %d" % (h, (n + PAD) * ch), "r %s f64 i %d" % (h, ch), "close %s" % h]
    return "\n".join(lines) + "\n"


def parse_calc_write(script, lines, ch):
    """-> (info, problem text or None); info: frames, seekable, filehex, ref[0], ref[1] (lists of f64 bit patterns)"""
    sl = script.strip().split("\n")
    dead = [l for l in lines if l.startswith(DEAD)]
    if dead or len(lines) < len(sl):
        return None, "crash:transcript ends early (%d of %d lines): %s" % (len(lines), len(sl), dead[0] if dead else (lines[-1] if lines else ""))
    info = {"ref": {}}
    norm = None
    for k, (op, out) in enumerate(zip(sl, lines)):
        t = op.split()
        if t[0] == "open" and "open=ok" not in out:
            return None, "open:line %d `%s` -> %s" % (k, op[:70], out)
        if t[0] == "w":
            kv = abscheck.parse_kv(out)
            if kv.get("ret") != t[4]:
                return None, "write:line %d write of %s returned %s err=%s" % (k, t[4], kv.get("ret"), kv.get("err"))
        if t[0] == "dump":
            info["filehex"] = out.split("hex=")[1] if "hex=" in out else ""
        if t[0] == "open" and t[3] == "r":
            kv = abscheck.parse_kv(out)
            info["frames"], info["seekable"] = int(kv.get("frames", -1)), kv.get("seekable") == "1"
        if t[0] == "cmd" and t[2] == "1012":
            norm = int(t[3])
        if t[0] == "r" and sl[k + 1].startswith("r "):
            kv = abscheck.parse_kv(out)
            ret = int(kv.get("ret", -1))
            kv2 = abscheck.parse_kv(lines[k + 1])
            if ret != info["frames"] * ch or kv2.get("ret") != "0":
                return None, "frames:open reports %d frames of %d channels, one sequential read delivered %d items, the next %s" % (info["frames"], ch, ret, kv2.get("ret"))
            hx = kv.get("data", "")
            info["ref"][norm] = [int(hx[i:i + 16], 16) for i in range(0, 16 * ret, 16)]
    return info, None


def stream_max(ref, ch):
    """(overall max bits, per-channel max bits) of |v| over a stream of f64 bit patterns (exact: magnitudes compare like the
    unsigned bit patterns of finite doubles)"""
    per = [0] * ch
    for k, b in enumerate(ref):
        m = b & 0x7FFFFFFFFFFFFFFF
        if m > per[k % ch]:
            per[k % ch] = m
    return (max(per) if per else 0), per


def calc_test_script(rng, f, ch, F, filehex, mode="r"):
    """returns (script, meta): labelled ops on the test handle h0 and a control handle h1"""
    p = rng.choice([0, F, rng.randrange(0, F + 1), rng.randrange(0, F + 1)])
    nd, nf = rng.choice([0, 1]), rng.choice([0, 1])
    k = rng.choice([1, 3, 7])
    ops = [("store", "store s0 " + filehex)]
    if mode == "r":
        ops.append(("open", _open_r("h0", f, ch)))
        ops.append(("seekp", "seek h0 %d 0" % p))
    else:
        # control: the stream an rw handle delivers at all (separate store; SDS e.g. reads zeros through an rw handle)
        ops += [("cstore", "store s1 " + filehex), ("copen", "open h1 s1 rw fmt=%08x ch=%d sr=8000" % (f.word, ch)), ("csetnd", "cmd h1 1012 %d null" % nd),
                ("cread", "r h1 f64 i %d" % ((F + 1) * ch)), ("cseek0", "seek h1 0 0"), ("cread2", "r h1 f64 i %d" % ((F + 1) * ch)), ("cclose", "close h1")]
        ops.append(("open", "open h0 s0 rw fmt=%08x ch=%d sr=8000" % (f.word, ch)))
        ops.append(("seekp", "seek h0 %d 16" % p))
    ops += [("setnd", "cmd h0 1012 %d null" % nd), ("setnf", "cmd h0 1013 %d null" % nf)]
    order = list(CALC_CMDS)
    rng.shuffle(order)
    probes = [("pos", "seek h0 0 1"), ("nd", "cmd h0 1010 0 null"), ("nf", "cmd h0 1011 0 null")]
    if mode == "rw":
        probes = [("pos", "seek h0 0 17"), ("wpos", "seek h0 0 33"), ("nd", "cmd h0 1010 0 null"), ("nf", "cmd h0 1011 0 null")]
    for c in order:
        ops += [("pre-%s-%s" % (c, a), b) for a, b in probes]
        ops.append(("calc-" + c, "cmd h0 %s %d zero" % (c, 8 if c in ("1040", "1041") else 8 * ch)))
        ops += [("post-%s-%s" % (c, a), b) for a, b in probes]
    ops += [("read", "r h0 f64 i %d" % (k * ch)), ("close", "close h0")]
    if mode == "r":
        ops += [("copen", _open_r("h1", f, ch)), ("cseek", "seek h1 %d 0" % p), ("csetnd", "cmd h1 1012 %d null" % nd), ("cread", "r h1 f64 i %d" % (k * ch)),
                ("cclose", "close h1")]
    meta = {"p": p, "nd": nd, "nf": nf, "k": k, "labels": [a for a, b in ops], "order": order, "mode": mode}
    return "\n".join(b for a, b in ops) + "\n", meta


def check_calc_test(meta, lines, ch, F, ref, name):
    """-> (problems [(cat, text)], results {cmd: [bits]})"""
    labels = meta["labels"]
    dead = [l for l in lines if l.startswith(DEAD)]
    if dead or len(lines) < len(labels):
        return [("crash", "transcript ends early (%d of %d lines): %s" % (len(lines), len(labels), dead[0] if dead else (lines[-1] if lines else "")))], {}
    L = dict(zip(labels, lines))
    probs, results = [], {}
    if "open=ok" not in L["open"]:
        return [("open-" + meta["mode"], "open failed: " + L["open"])], {}
    if meta["mode"] == "rw":
        kc = abscheck.parse_kv(L["cread"])
        want = ref[meta["nd"]]
        if "open=ok" not in L["copen"] or kc.get("ret") != str(len(want)) or kc.get("data", "")[:16 * len(want)] != "".join(map(hx64, want)):
            return [("rw-stream", "a plain sequential read through an rw handle does not deliver the file's stream: %s" % L["cread"][:120])], {}
    note = ""
    if meta["mode"] == "rw":
        k2 = abscheck.parse_kv(L["cread2"])
        if (k2.get("ret"), k2.get("data")) != (kc.get("ret"), kc.get("data")):
            note = (" [control rw handle, no CALC command: `sf_seek (sf, 0, SEEK_SET)` without a mode flag -> `%s`, the following read gives ret=%s instead of the stream: "
                    "the command's rewind is refused by this codec in SFM_RDWR, so it scans only from the current read position]" % (L["cseek0"], k2.get("ret")))
    for c in meta["order"]:
        ret, err, ds = cmd_doubles(L["calc-" + c])
        results[c] = ds
        sig, per = stream_max(ref[CALC_NORM[c]], ch)
        want = [sig] if c in ("1040", "1041") else per
        if ret != 0 or err != "0":
            probs.append(("calc-ret", "cmd %s returned %d err=%s" % (c, ret, err)))
        if ds != want:
            probs.append(("calc-value", "cmd %s (%s) = [%s], maximum of |v| over the sequential norm=%d stream is [%s]"
                          % (c, {"1040": "SFC_CALC_SIGNAL_MAX", "1041": "SFC_CALC_NORM_SIGNAL_MAX", "1042": "SFC_CALC_MAX_ALL_CHANNELS", "1043": "SFC_CALC_NORM_MAX_ALL_CHANNELS"}[c],
                             ",".join(map(hx64, ds)), CALC_NORM[c], ",".join(map(hx64, want)))))
        for a in (["pos", "nd", "nf"] + (["wpos"] if meta["mode"] == "rw" else [])):
            pre, post = L["pre-%s-%s" % (c, a)], L["post-%s-%s" % (c, a)]
            kp, kq = abscheck.parse_kv(pre), abscheck.parse_kv(post)
            if kp.get("ret") != kq.get("ret"):
                what = {"pos": "read position (zero-offset SEEK_CUR)", "wpos": "write position", "nd": "SFC_GET_NORM_DOUBLE", "nf": "SFC_GET_NORM_FLOAT"}[a]
                probs.append(("calc-restore", "cmd %s changed the %s: before `%s` after `%s` (handle positioned with `%s` -> %s)"
                              % (c, what, pre, post, "seek %d" % meta["p"], L["seekp"])))
    # the read after the commands: same as on a control handle that never ran them (r mode) / the reference slice (rw mode)
    kv = abscheck.parse_kv(L["read"])
    if meta["mode"] == "r":
        kc = abscheck.parse_kv(L["cread"])
        if (kv.get("ret"), kv.get("data")) != (kc.get("ret"), kc.get("data")):
            probs.append(("calc-restore", "read of %d frames after the commands: `%s`, control handle (seek %d, no command): `%s`" % (meta["k"], L["read"][:200], meta["p"], L["cread"][:200])))
        slice_ = ref[meta["nd"]][meta["p"] * ch:(meta["p"] + meta["k"]) * ch]
        got = kc.get("data", "")
        if abscheck.parse_kv(L["cseek"]).get("ret") == str(meta["p"]) and (kc.get("ret") != str(len(slice_)) or got[:16 * len(slice_)] != "".join(map(hx64, slice_))):
            probs.append(("control-seek", "control handle: seek %d then read differs from the sequential stream (a seek defect, not C18's)" % meta["p"]))
    else:
        slice_ = ref[meta["nd"]][meta["p"] * ch:(meta["p"] + meta["k"]) * ch]
        if abscheck.parse_kv(L["seekp"]).get("ret") == str(meta["p"]) and (kv.get("ret") != str(len(slice_)) or kv.get("data", "")[:16 * len(slice_)] != "".join(map(hx64, slice_))):
            probs.append(("calc-restore", "rw handle: read of %d frames at %d after the commands: `%s`, sequential stream has [%s]" % (meta["k"], meta["p"], L["read"][:200], "".join(map(hx64, slice_))[:200])))
    if L["close"].strip() != "ret=0":
        probs.append(("close", "close returned " + L["close"]))
    if note:
        probs = [(c + "-rwseek" if c.startswith("calc-") else c, t + note) for c, t in probs]
    return probs, results


def model_calc(ctx, jobs):
    """jobs: list of (ch, [f64 bits]) -> list of (sig bits, [per-channel bits])"""
    inp = "".join("%d %s\n" % (ch, "".join(map(hx64, ref))) for ch, ref in jobs)
    out = ctx.run_model(["c18", "calc"], inp, timeout=1800).split("\n")
    if out and out[-1] == "":
        out.pop()
    if len(out) != len(jobs):
        raise RuntimeError("sfmodel c18 calc: %d output lines for %d jobs" % (len(out), len(jobs)))
    res = []
    for l in out:
        kv = abscheck.parse_kv(l)
        res.append((int(kv["sig"], 16), [int(x, 16) for x in kv["all"].split(",") if x]))
    return res


def calc_lengths(rng, f, ch):
    big = 1024 // ch + rng.choice([1, 7, 300]) + (rng.choice([0, 1024]) if rng.random() < 0.3 else 0)
    return [0, 1, rng.choice([40, 50, 57]), big, big, rng.choice(R.pick_lengths(rng, f))]


def calc_campaign(ctx, quick=True, model=True, route_skip=(0x16,)):
    rng = ctx.rng
    fs = [f for f in formats.writable_formats(ctx) if f.major not in route_skip]
    jobs = []
    for i, f in enumerate(fs):
        chs = sorted(set(min(c, f.maxch) for c in (1, 2, 3)))
        if quick:
            chs = [chs[(i + rng.randrange(3)) % len(chs)]]
        for ch in chs:
            jobs.append((f, ch, rng.choice(calc_lengths(rng, f, ch))))
    ws = [("cw%04d-%s-c%d-n%d" % (i, f.name, ch, n), calc_write_script(rng, f, ch, n)) for i, (f, ch, n) in enumerate(jobs)]
    out = ctx.batch(ws, clean=True, workers=4)
    findings, stats, tests = [], collections.Counter(), []
    for (name, script), (f, ch, n) in zip(ws, jobs):
        stats["files"] += 1
        info, prob = parse_calc_write(script, out.get(name, []), ch)
        if prob:
            cat, text = prob.split(":", 1)
            stats["unwritable:" + cat] += 1
            if cat == "crash":
                findings.append(Finding("crash", name, text, script, cat="crash"))
            else:
                stats.setdefault("skipped", [])
                stats["skipped"].append("%s: %s" % (name, text[:160]))
            continue
        if not info["seekable"]:
            stats["not-seekable"] += 1
            continue
        F = info["frames"]
        modes = ["r"]
        # PAF/PCM_24 and SDS in rw mode are the class of KF-C18-CALC-RDWR-BLOCK: always covered, so that the verdict does not depend on the seed
        if rw_block(f) or (f.granular and rng.random() < (0.25 if quick else 0.6)):
            modes.append("rw")
        for mode in modes:
            t, meta = calc_test_script(rng, f, ch, F, info["filehex"], mode)
            tests.append(("%s-%s" % (name, mode), f, ch, F, info, t, meta))
    out2 = ctx.batch([(t[0], t[5]) for t in tests], clean=True, workers=4)
    mjobs, mwho = [], []
    for (name, f, ch, F, info, t, meta) in tests:
        stats["jobs"] += 1
        stats["ops"] += t.count("\n")
        stats["mode:" + meta["mode"]] += 1
        stats["ch:%d" % ch] += 1
        stats["frames:%s" % ("0" if F == 0 else "1" if F == 1 else "<=1024items" if F * ch <= 1024 else ">1024items")] += 1
        ctx.count(1, "calc:%s:%d:%s" % (f.name, ch, meta["mode"]))
        probs, results = check_calc_test(meta, out2.get(name, []), ch, F, info["ref"], name)
        # the script without the store line is not runnable: keep it whole
        for cat in sorted(set(c for c, _ in probs)):
            texts = [x for c, x in probs if c == cat]
            if cat == "control-seek":
                stats["control-seek-differs"] += 1
                stats.setdefault("control_seek_formats", [])
                stats["control_seek_formats"].append(name)
                continue
            if cat == "open-rw":
                stats["rw-open-refused"] += 1
                continue
            if cat == "rw-stream":
                stats["rw-stream-differs"] += 1
                stats.setdefault("rw_stream_formats", [])
                stats["rw_stream_formats"].append(name)
                continue
            kind = "crash" if cat == "crash" else "truth"
            kf = None       # KF-C18-CALC-RDWR-BLOCK is repaired: PAF24 / SDS rw handles are judged like every other format
            findings.append(Finding(kind, name, "%s ch=%d frames=%d: " % (f.name, ch, F) + "; ".join(texts[:4]), t, kf=kf, cat=cat))
            stats["finding:" + cat] += 1
        if False:
            stats["model_skipped_rw_block"] += 1      # the scan does not start at frame 0 there (KF-C18-CALC-RDWR-BLOCK): no stream to hand to the model
        elif results and model:
            for norm in (0, 1):
                mjobs.append((ch, info["ref"][norm]))
                mwho.append((name, norm, results, t, f, ch, F))
    if model:
        for (sig, per), (name, norm, results, t, f, ch, F) in zip(model_calc(ctx, mjobs), mwho):
            stats["model_jobs"] += 1
            a, b = ("1040", "1042") if norm == 0 else ("1041", "1043")
            if results.get(a) != [sig] or results.get(b) != per:
                findings.append(Finding("corr", name, "%s ch=%d frames=%d norm=%d: implementation %s=[%s] %s=[%s]; model sig=%s all=[%s]"
                                        % (f.name, ch, F, norm, a, ",".join(map(hx64, results.get(a, []))), b, ",".join(map(hx64, results.get(b, []))), hx64(sig), ",".join(map(hx64, per))), t, cat="corr"))
                stats["corr-mismatch"] += 1
    stats["distinct_tags"] = len([t for t in ctx.distinct if t.startswith("calc:")])
    return findings, stats


# ---------------------------------------------------------------------------------------------------
# SFC_SET_ADD_PEAK_CHUNK and extension in SFM_RDWR
# ---------------------------------------------------------------------------------------------------

def _k16_calls(rng, ch, scale, frames, lo, hi, force=None):
    """calls over 16-bit integers k in [lo, hi] (either sign) rendered in random caller types; force: {channel: k} placed once"""
    table = [[rng.choice([-1, 1]) * rng.randrange(lo, hi + 1) for _ in range(ch)] for _ in range(frames)]
    for c, k in (force or {}).items():
        table[rng.randrange(frames)][c] = k

    def render(ty, v):
        if ty == "s16":
            return v & 0xFFFF
        if ty == "s32":
            return ((v << 16) if scale else v) & 0xFFFFFFFF
        x = v / 32768.0 if scale else float(v)
        return f32b(x) if ty == "f32" else f64b(x)
    calls, f = [], 0
    while f < frames:
        n = min(frames - f, rng.choice([1, 2, 3, 5, frames]))
        ty = rng.choice(["s16", "s32", "f32", "f64"])
        calls.append((ty, rng.choice("if"), [render(ty, table[g][c]) for g in range(f, f + n) for c in range(ch)]))
        f += n
    return calls, table


def toggle_rdwr_campaign(ctx, quick=True, model=True):
    rng = ctx.rng
    findings, stats = [], collections.Counter()
    jobs = []          # (name, variant, job, script, extra)
    conts = ["wav", "aiff", "caf", "wavex", "rifx"]
    reps = 4 if quick else 16
    k = 0
    for rep in range(reps):
        for container in conts:
            for enc in ("f32", "f64"):
                for variant in ("off", "offon", "late0", "late1", "rdwr-smaller", "rdwr-equal", "rdwr-larger"):
                    ch = 1 + (k % 3) if rng.random() < 0.8 else rng.choice([4, 5, 6])
                    scale = rng.choice([0, 1])
                    k += 1
                    name = "t%03d-%s-%s-c%d-%s" % (k, container, enc, ch, variant)
                    FA = rng.choice([1, 2, 5, 9, 20])
                    callsA, tabA = _k16_calls(rng, ch, scale, FA, 0, 20000)
                    job = Job(name, container, enc, ch, scale, callsA, {"variant": variant, "frames": FA})
                    def tail(h):
                        return ["cmd %s 1045 %d zero" % (h, 8 * ch), "cmd %s 1044 8 zero" % h, "close %s" % h, "dump s0", "open h9 s0 r fmt=0 ch=0 sr=0",
                                "cmd h9 1044 8 zero", "cmd h9 1045 %d zero" % (8 * ch), "close h9"]
                    if variant == "off":
                        ls = job.open_lines(peak_cmds=[0]) + job.write_lines() + tail("h0")
                        jobs.append((name, variant, job, "\n".join(ls) + "\n", None))
                    elif variant == "offon":
                        ls = job.open_lines(peak_cmds=[0, 1]) + job.write_lines() + tail("h0")
                        jobs.append((name, variant, job, "\n".join(ls) + "\n", None))
                    elif variant in ("late0", "late1"):
                        wl = job.write_lines()
                        ls = job.open_lines(peak_cmds=[]) + wl[:1] + ["cmd h0 1050 %s null" % variant[-1]] + wl[1:] + tail("h0")
                        jobs.append((name, variant, job, "\n".join(ls) + "\n", None))
                    else:
                        mx = {c: max(abs(tabA[f][c]) for f in range(FA)) for c in range(ch)}
                        FB = rng.choice([1, 3, 8])
                        if variant == "rdwr-smaller":
                            callsB, _ = _k16_calls(rng, ch, scale, FB, 0, max(min(mx.values()) - 1, 0))
                        elif variant == "rdwr-equal":
                            callsB, _ = _k16_calls(rng, ch, scale, FB, 0, max(min(mx.values()) - 1, 0), {c: rng.choice([-1, 1]) * mx[c] for c in range(ch)})
                        else:
                            callsB, _ = _k16_calls(rng, ch, scale, FB, 0, 20000, {c: rng.choice([-1, 1]) * rng.randrange(20001, 32768) for c in range(ch) if c == 0 or rng.random() < 0.7})
                        ls = (job.open_lines(peak_cmds=[]) + job.write_lines() + ["close h0", "open h1 s0 rw fmt=%08x ch=%d sr=8000" % (job.word, ch), "cmd h1 1015 %d null" % scale,
                              "seek h1 0 33"] + job.write_lines("h1", callsB) + tail("h1"))
                        jobs.append((name, variant, job, "\n".join(ls) + "\n", callsB))
    out = ctx.batch([(n, sc) for (n, v, j, sc, e) in jobs], clean=True, workers=4)
    mjobs = []
    for (name, variant, job, script, callsB) in jobs:
        stats["jobs"] += 1
        stats["ops"] += script.count("\n")
        stats["variant:" + variant] += 1
        stats["container:" + job.container] += 1
        ctx.count(1, "toggle:%s:%s:%d:%s" % (job.container, job.enc, job.ch, variant))
        lines = out.get(name, [])
        sl = script.strip().split("\n")
        if variant == "off":
            dead = [l for l in lines if l.startswith(DEAD)]
            if dead or len(lines) < len(sl):
                findings.append(Finding("crash", name, "transcript ends early: %s" % (dead[0] if dead else lines[-1:]), script, cat="crash"))
                continue
            probs = []
            for op, o in zip(sl, lines):
                t = op.split()
                # the command answers with its argument (`return datasize`): 0 here
                if t[0] == "cmd" and t[2] == "1050" and not o.startswith("ret=0 err=0"):
                    probs.append("SFC_SET_ADD_PEAK_CHUNK(SF_FALSE) before the first write returned `%s`" % o)
                if t[0] == "cmd" and t[2] in ("1044", "1045"):
                    ret, err, ds = cmd_doubles(o)
                    if ret != 0 or any(ds):
                        probs.append("PEAK switched off, `%s` -> `%s` (expected ret=0, buffer untouched)" % (op, o))
                if t[0] == "w" and abscheck.parse_kv(o).get("ret") != t[4]:
                    probs.append("`%s...` -> %s" % (op[:30], o))
                if t[0] == "dump":
                    data = bytes.fromhex(o.split("hex=")[1])
                    hdr = header_region(job.container, data)
                    if len(hdr) == len(data):
                        probs.append("no data chunk found by the chunk walk")
                    if b"PEAK" in hdr or b"peak" in hdr:
                        probs.append("PEAK switched off but the header region (%d bytes before the data chunk) holds a PEAK marker: %s" % (len(hdr), hdr.hex()))
            if probs:
                findings.append(Finding("truth", name, "; ".join(probs[:4]), script, cat="toggle-off"))
            continue
        calls = job.calls + (callsB or [])
        obs, probs = observe_peak_job(job, lines, script=script, wh="h1" if callsB is not None else "h0")
        if obs is None:
            findings.append(Finding("crash" if probs[0][0] == "crash" else "truth", name, probs[0][1], script, cat=probs[0][0]))
            continue
        ap = obs.get("addpeak", [])
        if variant == "offon" and ap != [0, 1]:
            probs.append(("toggle", "SFC_SET_ADD_PEAK_CHUNK off, on before the first write returned %s" % ap))
        if variant.startswith("late") and ap != [0]:
            probs.append(("toggle", "SFC_SET_ADD_PEAK_CHUNK after the first write returned %s (expected SF_FALSE)" % ap))
        probs += check_peak_job(job, obs, calls)
        if probs:
            cats = sorted(set(c for c, _ in probs))
            kf = None
            if cats == ["peak"] and callsB is None:
                kf = classify(job, obs, calls)[0]
            findings.append(Finding("truth", name, "%s: " % variant + "; ".join(t for _, t in probs[:6]), script, kf=kf, cat="rdwr-extend" if callsB is not None else "toggle"))
            stats["finding:" + ("rdwr-extend" if callsB is not None else "toggle")] += 1
        if callsB is None and model:
            mjobs.append((job, obs, script))
    if model and mjobs:
        for (job, obs, script), ml in zip(mjobs, model_peaks(ctx, [j.model_line() for j, o, sc in mjobs])):
            stats["model_jobs"] += 1
            cp = compare_model(job, obs, ml)
            if cp:
                findings.append(Finding("corr", job.name, "; ".join(cp[:4]) + "  [model job: %s]" % job.model_line()[:400], script, cat="corr"))
    stats["distinct_tags"] = len([t for t in ctx.distinct if t.startswith("toggle:")])
    return findings, stats


# ---------------------------------------------------------------------------------------------------
# L1 correspondence: RAW/AU/WAV transcripts with CALC/GET commands versus `sfmodel c18 script`
# ---------------------------------------------------------------------------------------------------

def gen_l1_calc_script(rng, fe):
    name, fmt, codec = fe
    ch = rng.choice([1, 1, 2, 2, 3, 5])
    F = rng.choice([0, 1, 2, 7, 30, 100, 1024 // ch + 3, 700])
    wty = rng.choice(["s16", "s32", "f32", "f64"])
    lines = ["open h0 s0 w fmt=%08x ch=%d sr=8000" % (fmt, ch)]
    left = F
    while left > 0:
        k = min(left, rng.choice([1, 3, 64, 333, left, left]))
        unit = rng.choice("if")
        lines.append(S.w_line("h0", wty, unit, k if unit == "f" else k * ch, S.rand_values(rng, wty, k * ch, "unit")))
        left -= k
    lines.append("close h0")
    mode = "r" if rng.random() < 0.75 else "rw"
    if mode == "r" and name != "raw":
        lines.append("open h1 s0 r fmt=0 ch=0 sr=0")
    else:
        lines.append("open h1 s0 %s fmt=%08x ch=%d sr=8000" % (mode, fmt, ch))
    for _ in range(rng.randrange(6, 22)):
        r = rng.random()
        if r < 0.35:
            c = rng.choice(["1040", "1041", "1042", "1043", "1044", "1045"])
            size = 8 if c in ("1040", "1041", "1044") else 8 * ch
            if rng.random() < 0.08:
                size = rng.choice([0, 4, 8 * ch + 8, 8])      # wrong sizes are refused
            lines.append("cmd h1 %s %d zero" % (c, size))
        elif r < 0.5:
            lines.append("cmd h1 %s %d null" % (rng.choice(["1012", "1013"]), rng.choice([0, 1])))
        elif r < 0.65:
            wh = rng.choice([0, 0, 1, 2])
            q = rng.choice([0, 0, 0x10, 0x20]) if mode == "rw" else rng.choice([0, 0, 0, 0x10])
            off = rng.choice([0, 1, 2, 5, F // 2, F, -1, -F // 2]) if wh != 1 else rng.choice([0, 1, -1, 3])
            lines.append("seek h1 %d %d" % (off, wh | q))
        elif r < 0.85:
            unit = rng.choice("if")
            n = rng.choice([1, 2, 5, 17, F + 1])
            lines.append("r h1 %s %s %d" % (rng.choice(["s16", "s32", "f32", "f64"]), unit, n if unit == "f" else n * ch))
        else:
            lines += ["seek h1 0 1", "cmd h1 1010 0 null", "cmd h1 1011 0 null"]
    lines += ["seek h1 0 1", "close h1"]
    return "\n".join(lines) + "\n"


def l1_calc_campaign(ctx, quick=True, model=True, nscripts=None):
    rng = ctx.rng
    fmts = S.l1_formats()
    n = nscripts or (240 if quick else 1500)
    scripts = []
    for k in range(n):
        fe = fmts[(k * 7 + rng.randrange(len(fmts))) % len(fmts)]
        scripts.append(("l1c%04d-%s-%08x" % (k, fe[0], fe[1]), gen_l1_calc_script(rng, fe)))
    impl = ctx.batch(scripts, clean=True, workers=4)
    inp = "".join("== %s\n%s" % (nm, t) for nm, t in scripts)
    out = ctx.run_model(["c18", "script"], inp, timeout=3600)
    mod, cur = {}, None
    for line in out.split("\n"):
        if line.startswith("== end"):
            cur = None
        elif line.startswith("== "):
            cur = line[3:]
            mod[cur] = []
        elif cur is not None:
            mod[cur].append(line)
    findings, stats = [], collections.Counter()
    for nm, t in scripts:
        i, m = impl.get(nm, []), mod.get(nm, [])
        stats["jobs"] += 1
        pre = S.modelled_prefix(m)
        stats["ops"] += pre
        sl = t.strip().split("\n")
        stats["calc_get_cmds_compared"] += sum(1 for l in sl[:pre] if l.startswith("cmd h1 10") and l.split()[2] in ("1040", "1041", "1042", "1043", "1044", "1045"))
        if "unmodelled" in m:
            stats["partly_unmodelled"] += 1
        if nm not in mod:
            raise RuntimeError("sfmodel c18 script: no output for %s" % nm)
        ctx.count(1, "l1calc:%s" % nm.split("-", 1)[1])
        dead = [l for l in i if l.startswith(DEAD)]
        if dead:
            findings.append(Finding("crash", nm, "implementation died: " + dead[0], t, cat="crash"))
            continue
        d = S.first_diff(i, m)
        if d is not None:
            findings.append(Finding("corr", nm, "line %d `%s`: implementation `%s` model `%s`" % (d, sl[d][:80] if d < len(sl) else "?", (i[d] if d < len(i) else "<missing>")[:300],
                                                                                           (m[d] if d < len(m) else "<missing>")[:300]), "\n".join(sl[:d + 1]) + "\n", cat="corr"))
            stats["corr-mismatch"] += 1
    stats["distinct_tags"] = len([t for t in ctx.distinct if t.startswith("l1calc:")])
    return findings, stats
