"""C16: sf_close when the I/O underneath it fails -- for EVERY codec and container.

The history class the C16 campaign lacked: every scenario so far closed on healthy I/O.  sf_close runs the codec's close hook (flush of
the last block, ALAC: header rewrite + copy of the spool file + removal of it), the container's close hook (tailer, header rewrite) and
psf_fclose; each of them does I/O and each early return in them sits in front of a release.  Enumeration, per (container, codec) the
library writes (one endianness each) and per mode w / rw:

  K  := number of I/O callbacks sf_close makes in the fault-free run (measured: `fault at=0`, close, `iostat`)
  virtual I/O:  for every i in 1..K (all of them up to 14, then spread) x kind in {zero-transfer, short, seek fails, everything fails},
                persistent from callback i and single-shot at i;
  descriptors:  route path / fd close_desc=1 / fd close_desc=0 with (a) RLIMIT_FSIZE lowered before the close, before the last write,
                and from the start (write () fails with EFBIG: also hits the codec's temporary file), (b) the descriptor closed behind
                the library's back before sf_close (EBADF from every system call).

After the close: `ledger peek` (handle gone, live blocks, descriptors) compared with the ledger model's `close 0`, and `ledger end`
(heap blocks, LeakSanitizer, descriptors, TMPDIR) as the property predicate.  The return value of sf_close is NOT judged here (it may
report the failure or not).
"""
import re

from . import formats

KINDS = (1, 2, 3, 8)


def data_line(hn, ch, frames, salt=0):
    n = ch * frames
    return "w %s s16 i %d %s" % (hn, n, "".join("%04x" % (((k + salt) * 2654435761 >> 7) & 0xFFFF) for k in range(n)))


def frames_for(f):
    # more than one block of every block codec, more than one ALAC packet (4096 frames) would be slow under ASan for 90 formats: ALAC gets it
    if f.codec in (0x70, 0x71, 0x72, 0x73):
        return 4200
    if f.codec in (0x12, 0x13, 0x20, 0x30, 0x31, 0x32, 0x22, 0x23, 0x24):
        return 700
    return 90


def pick_formats(fmts):
    seen, out = set(), []
    for f in fmts:
        key = (f.major, f.codec)
        if key in seen:
            continue
        seen.add(key)
        out.append(f)
    return out


def probe_script(f, ch, mode):
    return ("open h0 s0 %s fmt=%08x ch=%d sr=8000\n%s\nfault at=0 kind=0\nclose h0\niostat\n" % (mode, f.word, ch, data_line("h0", ch, frames_for(f))))


def measure_k(ctx, L, fs):
    jobs = []
    for f in fs:
        if f.major == 0x16:
            continue
        ch = 2 if f.maxch >= 2 else 1
        for mode in ("w", "rw"):
            jobs.append(("%s|%s" % (f.name, mode), probe_script(f, ch, mode)))
    res = ctx.batch(jobs, env=L.LEAK_ENV, clean=True)
    K = {}
    for (nm, _) in jobs:
        ls = res.get(nm, [])
        if not ls or not ls[0].startswith("open=ok"):
            continue
        m = re.search(r"calls=(\d+)", ls[-1]) if ls[-1].startswith("calls=") else None
        if m:
            K[nm] = int(m.group(1))
    return K


def points(k, quick, salt):
    if k <= 14:
        pts = list(range(1, k + 1))
    else:
        pts = sorted(set(list(range(1, 9)) + [k, k - 1, k // 2] + [1 + (salt * 7 + j * (k // 6)) % k for j in range(6)]))
    return pts


def scenarios(ctx, L, fmts):
    """-> list of L.Sc"""
    quick = ctx.tier == "quick"
    fs = pick_formats(fmts)
    K = measure_k(ctx, L, fs)
    out = []
    n = 0
    plain_seen = set()
    for fi, f in enumerate(fs):
        ch = 2 if f.maxch >= 2 else 1
        fr = frames_for(f)
        # sample-granular codecs have no close hook of their own: the quick tier enumerates one of them per container completely and
        # thins the others; every codec with a close path of its own is always enumerated completely
        plain = f.codec in formats.SAMPLE_GRANULAR and f.codec not in (0x50, 0x51)
        full = not quick or not plain or f.major not in plain_seen
        if plain:
            plain_seen.add(f.major)
        if f.major != 0x16:
            for mode in ("w", "rw"):
                k = K.get("%s|%s" % (f.name, mode))
                if not k:
                    continue
                for i in points(k, quick, ctx.seed + fi):
                    for kind in KINDS:
                        for single in (0, 1):
                            if kind == 8 and single:
                                continue
                            n += 1
                            if quick and mode == "rw" and (n + ctx.seed) % 3:
                                continue        # the quick tier thins the read/write mode (same hooks as w, plus the reader's state)
                            if quick and single and kind != 1:
                                continue        # single-shot: the zero-transfer kind only (the others recover the same way)
                            if not full and (n + ctx.seed) % 4:
                                continue
                            sc = L.Sc("cf-%s-%s-%d-%d-%d" % (f.name, mode, i, kind, single), "close-fault")
                            sc.open("h0", "s0", mode, f.word, ch, "vio")
                            sc.op(data_line("h0", ch, fr), "write 1")
                            sc.peek("h0")
                            sc.op("fault at=%d kind=%d%s" % (i, kind, " single=1" if single else ""))
                            sc.op("close h0", "close 0")
                            sc.handles.pop("h0", None)
                            sc.peek("h0")
                            sc.op("fault at=0 kind=0")
                            sc.end()
                            sc.cls.add("close-fault:%s:%d" % (f.name, kind))
                            out.append(sc)
        # genuine OS errors on the descriptor routes
        routes = ["path"] if f.major == 0x16 else ["path", "fd1", "fd0"]
        ext = "sd2" if f.major == 0x16 else "x"
        for ri, route in enumerate(routes):
            for what in ("fsize-close", "fsize-lastwrite", "fsize-start", "closefd"):
                n += 1
                if not full and (n + ctx.seed) % 4:
                    continue
                sc = L.Sc("cf-%s-%s-%s" % (f.name, route, what), "close-oserror")
                if what == "fsize-start":
                    sc.op("ledger fsize 16")
                sc.open("h0", "s0", "w", f.word, ch, route, ext=ext)
                sc.op(data_line("h0", ch, fr), "write 1")
                sc.peek("h0")
                if what == "fsize-lastwrite":
                    sc.op("ledger fsize 16")
                    sc.op(data_line("h0", ch, fr, salt=3), "write 1")
                    sc.peek("h0")
                elif what == "fsize-close":
                    sc.op("ledger fsize 16")
                elif what == "closefd":
                    sc.op("ledger closefd h0")
                sc.op("close h0", "close 0")
                sc.handles.pop("h0", None)
                sc.peek("h0")
                sc.op("ledger fsize off")
                sc.end()
                sc.cls.add("close-oserror:%s:%s" % (f.name, what))
                out.append(sc)
    ctx.notes["close_fault"] = {"formats": len(fs), "callbacks_of_close(K)": {"min": min(K.values()) if K else 0, "max": max(K.values()) if K else 0,
                                                                               "alac-w": K.get("caf-alac_16|w")},
                                "scenarios": len(out)}
    return out
