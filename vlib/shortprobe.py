"""C04 (PVF tiny file) -- the type detection on files SHORTER than its 12-byte probe, against `Sf.Small2.guessProbe` (`sfmodel probe`).

Since the repair of KF-PVF-TINY-FILE guess_file_type looks at what a short file has, with zeros behind it.  The stream takes every
marker the function tests (as byte strings, with the don't-care bytes of the masked tests varied), cuts / zero-extends / garbage-
extends it to every length 1..11 and opens the file through sf_open_virtual (no file name: no extension to fall back on).
  * model `fmt=<major>` of a container this build has  =>  the container's own reader decides: the open succeeds or fails with an
    error OTHER than "unrecognised format" (err=1);
  * model `zero` (the function returns 0)                =>  open=NULL err=1;
  * model `none` (a test behind the HTK test decides)    =>  not judged, only required not to crash.
Any crash / ASan report is a violation with the file as the failing input; a difference from the model is a correspondence failure.
The 11-byte and shorter PVF headers the writer can produce ("PVF1\\nC R 8\\n" with one-digit C and R, cut at every length) must
open exactly when the text line is complete.
"""
from . import abscheck

MARKERS = [b"RIFF\0\0\0\0WAVE", b"RIFX\0\0\0\0WAVE", b"FORM\0\0\0\0AIFF", b"FORM\0\0\0\0AIFC", b"FORM\0\0\0\08SVX", b"FORM\0\0\0\016SV", b"FORM",
           b".snd", b"dns.", b"fap ", b" paf", b"NIST", b"Creative", b"\x64\xa3\x00\x00", b"\x64\xa3\x07\x00", b"\x00\x00\xa3\x64", b"\x00\x07\xa3\x64",
           b"riff", b"\0\0\x03\xe8\0\0\0\1\0\0\0\1", b"\0\0\0\0\1\0\0\0\1\0\0\0", b"MATLAB 5", b"PVF1", b"Extended Ins", b"caff\0\0\0\0desc", b"OggS",
           b"ALawSoundFil", b"DiamondWare ", b"LM89", b"53\0\0", b"\xf0\x7e\x00\x01", b"\xf0\x7e\x7f\x01", b"\x01\x04\0\0", b"\x01\x04\xff\xff",
           b"CAT \0\0\0\0REX2", b"\x30\x26\xb2\x75\x8e\x66\xcf\x11", b"fLaC", b"2BIT", b"RF64\0\0\0\0WAVE", b"ID3\2", b"SOUND SA", b"SY80", b"ajkg",
           b"\0\0\0\0\0\0\0\0\0\2\0\0", b"\xff\xfb\x90\x00", b"PVF1\n1 1 8\n", b"PVF1\n2 9 8\n", b"PVF1\n9 9 8\n", b"PVF1\n1 1 8", b"PVF1\n11 8\n"]
# majors the model may name whose reader is compiled in (the experimental DWD / TXW / REX2 codes 0x40x0000 end in "unimplemented", not err=1 either)
UNRECOGNISED = "1"


def files(rng):
    seen = set()
    for m in MARKERS:
        for n in range(1, 12):
            for tail in (b"\0" * 12, bytes(rng.randrange(1, 256) for _ in range(12)), b"\xff" * 12):
                f = (m + tail)[:n] if len(m) < n else m[:n]
                if f not in seen:
                    seen.add(f)
                    yield f


def run(ctx, found=False):
    fl = list(files(ctx.rng))
    model = ctx.run_model(["probe"], "".join(f.hex() + "\n" for f in fl), timeout=300).split("\n")
    scripts = [("p%d" % i, "store s0 %s\nopen h0 s0 r\n" % f.hex()) for i, f in enumerate(fl)]
    out = ctx.batch(scripts, workers=3)
    stats = {"files": 0, "model_fmt": 0, "model_zero": 0, "model_none": 0, "opened": 0}
    bad = None
    for i, f in enumerate(fl):
        lines = [l for l in out.get("p%d" % i, []) if l.startswith(ctx.TRANSCRIPT_PREFIXES)]
        m = model[i].strip() if i < len(model) else ""
        last = lines[-1] if lines else "(no transcript)"
        stats["files"] += 1
        ctx.count(1, ("shortprobe", m, len(f)))
        if any(l.startswith(("CRASH", "ABORT", "TIMEOUT")) for l in lines) or not lines:
            ctx.violation("shortprobe-crash-%s" % f.hex(), "# C04 / C03: opening a %d-byte file dies: %s\n--- script\nstore s0 %s\nopen h0 s0 r\n" % (len(f), last, f.hex()))
            return True
        kv = abscheck.parse_kv(last)
        ok = last.startswith("open=ok")
        stats["opened"] += ok
        if m.startswith("fmt="):
            stats["model_fmt"] += 1
            if not ok and kv.get("err") == UNRECOGNISED and bad is None:
                bad = (f, m, last, "the model's type detection names a container, the library answers 'unrecognised format'")
        elif m == "zero":
            stats["model_zero"] += 1
            if (ok or kv.get("err") != UNRECOGNISED) and bad is None:
                bad = (f, m, last, "the model's type detection returns 0, the library went on to a container")
        else:
            stats["model_none"] += 1
    ctx.notes["short_probe"] = stats
    ctx.coverage["traces_validated_against_impl"] += stats["files"]
    if bad and not found:
        f, m, last, why = bad
        ctx.violation("shortprobe-%s" % f.hex(), "# correspondence stream 'Sf.Small2.guessProbe vs guess_file_type on files shorter than 12 bytes' no longer agrees: %s\n# file %s (%d bytes): model %s, implementation %s\nobserved-last %s\n--- script\nstore s0 %s\nopen h0 s0 r\n"
                      % (why, f.hex(), len(f), m, last, last, f.hex()), no_input=True)
        return True
    return False
