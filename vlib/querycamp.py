"""C05 / C06 (read handles) and C08 (read/write handles): INTERLEAVED NON-AUDIO CALLS DO NOT MOVE THE AUDIO POSITION.

Why this exists (round 5, seed C06-caf-chunkdata-zero-noseekback): every query that touches the file — sf_get_chunk_data (seeks to
the chunk and back), SFC_CALC_* (reads the whole file and seeks back), string / metadata getters, sf_current_byterate, … — has to
leave the descriptor where the codec expects it.  `sf_seek (.., 0, SEEK_CUR)` still reports the right frame when it does not;
only the audio the NEXT read delivers (or the place the next write lands) shows it.  The read campaign never called anything
between two reads, and its files carried no chunks.

What is enumerated
  files     for every writable format x channel counts: a file written by the library; in the chunk-carrying containers (WAV, WAVEX,
            RF64, AIFF, CAF — every encoding incl. the block codecs and ALAC) it carries a string set before the audio, custom chunks
            of length 0, 3 (odd) and 8, a duplicate id, and (every other file) a string set after the audio (a chunk behind the audio)
  history   one sequential reference read per caller type through separate handles; then on ONE read handle, for each query Q
            of the rotation:   [seek]  read  Q  read (NO seek in between)  position probe
  queries   full chunk iteration with data (every chunk incl. the zero-length one, the container's own and the LAST one), the same
            with a zero-length buffer, iteration by id, iterator + get_chunk_size / get_chunk_data with buffers 0 / short / full,
            next-after-last, sf_get_string, every SFC_GET_* metadata getter (getmeta), SFC_GET_CURRENT_SF_INFO, SFC_CALC_SIGNAL_MAX /
            NORM / MAX_ALL_CHANNELS / NORM_MAX_ALL_CHANNELS, SFC_GET_SIGNAL_MAX / GET_MAX_ALL_CHANNELS, SFC_GET_LOG_INFO,
            SFC_GET_EMBED_FILE_INFO, SFC_RAW_DATA_NEEDS_ENDSWAP, SFC_GET_CUE_COUNT, sf_current_byterate, sf_error / sf_strerror
  rdwr      sample-granular lossless encodings of the chunk-carrying containers: write Q write (no seek) Q' read, read back
THE PREDICATE is Lean: `Sf.Abs.check` — a query line is `Op.other`, which leaves the abstract state untouched (theorems
Sf.C06Query.accepts_strip_queries, read_query_read: a history is accepted iff the history without its queries is), so the read after
the query is judged against frames rpos, rpos+1, … of the reference stream.
"""
import re
from . import scripts as S, readcamp as R, formats, geometry as G, chunks as C, abslean, absreplay, rdwrtail

CHUNKY = {0x01: b"data", 0x13: b"data", 0x22: b"data", 0x02: b"SSND", 0x18: b"data"}
CUSTOM = [(b"empt", b""), (b"odd1", b"\x01\x02\x03"), (b"full", bytes(range(8))), (b"odd1", b"\x09"), (b"last", b"")]


def queries(h, ch, major):
    """the rotation: (name, [script lines])"""
    Q = [("info", ["info %s" % h]),
         ("getstr", ["getstr %s 1" % h, "getstr %s 5" % h]),
         ("getmeta", ["getmeta %s" % h]),
         ("calc-max", ["cmd %s 1040 8 zero" % h]),
         ("calc-norm-max", ["cmd %s 1041 8 zero" % h]),
         ("calc-max-all", ["cmd %s 1042 %d zero" % (h, 8 * ch)]),
         ("calc-norm-max-all", ["cmd %s 1043 %d zero" % (h, 8 * ch)]),
         ("get-max", ["cmd %s 1044 8 zero" % h, "cmd %s 1045 %d zero" % (h, 8 * ch)]),
         ("log-info", ["cmd %s 1001 2048 zero" % h]),
         ("embed-info", ["cmd %s 10b0 16 zero" % h]),
         ("endswap", ["cmd %s 1110 0 null" % h]),
         ("cue-count", ["cmd %s 10cd 4 zero" % h]),
         ("bitrate-mode", ["cmd %s 1304 0 null" % h, "cmd %s 1501 4 zero" % h]),
         ("byterate", ["byterate %s" % h]),
         ("error", ["strerror %s" % h])]
    if major in CHUNKY:
        own = CHUNKY[major].hex()
        Q += [("chunks-all", ["chunkall %s null" % h]),
              ("chunks-all-zero-buffer", ["chunkall %s null 0" % h]),
              ("chunks-all-short-buffer", ["chunkall %s null 2" % h]),
              ("chunks-empty-id", ["chunkall %s %s" % (h, b"empt".hex())]),
              ("chunks-dup-id", ["chunkall %s %s" % (h, b"odd1".hex())]),
              ("chunks-last-custom", ["chunkall %s %s" % (h, b"last".hex())]),
              ("chunks-own-last", ["chunkall %s %s" % (h, own)]),
              ("chunks-unknown-id", ["chunkall %s 7a7a7a51" % h]),
              ("iter-empty", ["chunkiter %s %s" % (h, b"empt".hex()), "chunkdata %s" % h, "chunkdata %s 0" % h, "chunkdata %s 4" % h, "chunknext %s" % h]),
              ("iter-full", ["chunkiter %s %s" % (h, b"full".hex()), "chunkdata %s 0" % h, "chunkdata %s 3" % h, "chunkdata %s" % h, "chunknext %s" % h, "chunknext %s" % h]),
              ("iter-null-first", ["chunkiter %s null" % h, "chunkdata %s 0" % h, "chunkdata %s" % h])]
    return Q


def decorate(script, major, late_string):
    """puts a string and the custom chunks in front of the audio of a readcamp.write_phase script, optionally a string behind it"""
    sl = script.strip().split("\n")
    pre = ["setstr h0 1 %s" % b"a title".hex()] + ["setchunk h0 %s %s" % (i.hex(), d.hex()) for (i, d) in CUSTOM]
    ic = next(i for i, l in enumerate(sl) if l.startswith("close h0"))
    late = ["setstr h0 5 %s" % b"set after the audio".hex()] if late_string else []
    return "\n".join(sl[:1] + pre + sl[1:ic] + late + sl[ic:]) + "\n"


def test_script(rng, f, ch, F, filehex, rot, nq):
    L = ["store s0 " + filehex]
    raw = f.major == 0x04
    op = lambda h: ("open %s s0 r fmt=%08x ch=%d sr=8000" % (h, f.word, ch)) if raw else "open %s s0 r" % h
    bw = R.raw_bw(f, ch)
    if bw and F > 0:
        L += [op("h1"), "rraw h1 %d" % (F * bw), "close h1"]
    L.append(op("h0"))
    Q = queries("h0", ch, f.major)
    if f.codec in (0x40, 0x41, 0x42):
        # DWVW can only rewind: SFC_CALC_* cannot return to the position it started from.  C18 states the commands for "all seekable
        # encodings" and owns that case; here they are left out for this codec.
        Q = [q for q in Q if not q[0].startswith("calc")]
    b = R.block_hint(f)
    reads = [(ty, u) for ty in R.TYS for u in "if"]
    if F > 0:
        # the first call on the handle is a query (nothing has been read yet: the descriptor is where the open left it)
        L += Q[(rot + nq) % len(Q)][1] + ["r h0 %s f 2" % R.TYS[rot % 4], "seek h0 0 1"]
    for j in range(nq):
        name, lines = Q[(rot + j) % len(Q)]
        if j % 2 == 0 and F > 0:
            L.append("seek h0 %d 0" % rng.choice([0, 1, F // 2, max(F - 3, 0), b - 1 if 1 < b <= F else 0, rng.randrange(0, F + 1)]))
        ty, u = reads[(rot + j) % 8]
        k = rng.choice([1, 2, 3, 10])
        if j % 4 == 2:
            pass                                     # the query right after the seek (also: at frame 0, at the last frame)
        elif bw and (rot + j) % 9 == 8:
            L.append("rraw h0 %d" % (k * bw))
        else:
            L.append("r h0 %s %s %d" % (ty, u, k if u == "f" else k * ch))
        L += lines
        ty, u = reads[(rot + 3 * j + 1) % 8]
        k = rng.choice([1, 2, 7, b + 1 if b > 1 else 5, 70])
        if bw and (rot + j) % 7 == 6:
            L.append("rraw h0 %d" % (k * bw))
        else:
            L.append("r h0 %s %s %d" % (ty, u, k if u == "f" else k * ch))
        L.append("seek h0 0 1")
    L.append("close h0")
    return "\n".join(L) + "\n"


def pairs_of(script, lines, start):
    """(script line, transcript text) pairs from script line `start` on; a chunkall op prints several lines: they are joined (the
    predicate does not look inside a query's answer)"""
    sl = [l for l in script.split("\n") if l.strip()]
    sp = C.split_ops(script, lines)
    out = []
    for k, (opt, ls) in enumerate(sp):
        if k >= len(sl) or opt[0] == "<trailing>":
            break
        if k < start:
            continue
        if not ls or any(l.startswith(abslean.DEAD) for l in ls):
            break
        out.append((sl[k], " | ".join(ls) if len(ls) > 1 else ls[0]))
    return out, sp


def rdwr_script(rng, f, ch, ty, lowzero, late_string, rot):
    H = rdwrtail.Hist(rng, f, ch, ty, lowzero, "vio", False)
    H.open("w")
    H.op("setstr %s 1 %s" % (H.h, b"a title".hex()))
    for (i, d) in CUSTOM:
        H.op("setchunk %s %s %s" % (H.h, i.hex(), d.hex()))
    H.write(rng.choice([12, 15, 31]), unit="f")
    if late_string:
        H.op("setstr %s 5 %s" % (H.h, b"set after the audio".hex()))
    H.close()
    H.open("rw")
    Q = [q for q in queries(H.h, ch, f.major) if not q[0].startswith("calc")] + [("calc-max", ["cmd %s 1040 8 zero" % H.h])]
    for j in range(6):
        qa, qb = Q[(rot + 2 * j) % len(Q)], Q[(rot + 2 * j + 1) % len(Q)]
        p = 1 + j % 4
        H.seek(p, 0x20)
        H.seek(H.F - 4, 0x10)
        H.write(1, unit="if"[j % 2])
        H.L += qa[1]
        H.write(2, unit="if"[(j + 1) % 2])          # no seek since the query: must land at p + 1
        H.L += qb[1]
        H.read((ty, "f"), 2)                         # read pointer untouched by writes and queries
        H.L += qa[1]
        H.read((ty, "i"), 1)
        H.probes()
        H.readback(p, 4)
    rdwrtail.finish(H)
    return H


def run(ctx, prop, parts=("r", "rw")):
    rng = ctx.rng
    quick = ctx.tier == "quick"
    fs = [f for f in formats.writable_formats(ctx) if f.major != 0x16]
    jobs = []
    k = 0
    for f in (fs if "r" in parts else []):
        chunky = f.major in CHUNKY
        for ch in sorted(set(min(c, f.maxch) for c in (1, 2))):
            k += 1
            if quick and not chunky and k % 4:
                continue
            if quick and chunky and ch == 2 and k % 2:
                continue
            b = R.block_hint(f)
            n = rng.choice([b + 3, 2 * b + 1, 100, 257] if b > 1 else [40, 100, 257])
            jobs.append((f, ch, n, chunky and k % 2 == 0))
    ws = []
    for i, (f, ch, n, late) in enumerate(jobs):
        s = R.write_phase(rng, f, ch, n)
        ws.append(("q-%s-c%d-%d" % (f.name, ch, i), decorate(s, f.major, late) if f.major in CHUNKY else s))
    out = ctx.batch(ws, clean=True)
    tests = []
    st = ctx.notes.setdefault("query_campaign", {"files": 0, "histories": 0, "query_lines": 0, "query_kinds": 0, "rdwr_histories": 0, "unusable_files": 0})
    for (name, script), (f, ch, n, late) in zip(ws, jobs):
        lines = out.get(name, [])
        st["files"] += 1
        info = R.parse_write_phase(lines, script, ch)
        if info["problems"] or any(info.get("ref_ret", {}).get(ty) != info.get("frames", -1) * ch for ty in R.TYS):
            st["unusable_files"] += 1      # the all-format read campaign reports files that cannot be written / read back
            continue
        F = info["frames"]
        rot = rng.randrange(64)
        tests.append((name, f, ch, F, info, test_script(rng, f, ch, F, info["filehex"], rot, 8 if quick else 25)))
    out2 = ctx.batch([(t[0], t[5]) for t in tests])
    judge = abslean.Judge(ctx)
    meta = {}
    kinds = set()
    for (name, f, ch, F, info, t) in tests:
        sl = t.strip().split("\n")
        start = R.test_start(sl)
        lines = [l for l in out2.get(name, []) if l.startswith(ctx.TRANSCRIPT_PREFIXES + ("c ", "end ", "meta ", "pos="))]
        prs, sp = pairs_of(t, lines, start)
        rawref = None
        bw = R.raw_bw(f, ch)
        for (opt, ls) in sp[:start]:
            if opt[0] == "rraw" and opt[1] == "h1" and ls:
                m = re.search(r"ret=(-?\d+) .*data=([0-9a-f]*)", ls[0])
                if m and int(m.group(1)) == F * (bw or 0) and F > 0:
                    rawref = m.group(2)[:2 * int(m.group(1))]
        refs = {ty: "".join(items) for ty, items in info["ref"].items() if len(items) == F * ch}
        geom = abslean.geom_line(ch, F, "r", seekable=info.get("seekable", True), bw=bw or 0)
        judge.add(name, geom, refs, rawref, prs)
        meta[name] = (geom, start, len(prs), len(sl) - start)
        st["histories"] += 1
        for l in sl[start:]:
            t0 = l.split()
            if t0[0] not in ("r", "rraw", "seek", "close", "open"):
                st["query_lines"] += 1
                kinds.add(t0[0] + (":" + t0[2] if t0[0] == "cmd" else ""))
    # read/write handles
    rw = []
    if "rw" in parts:
        fr = [f for f in fs if f.major in CHUNKY and f.granular and G.lossless_types(f) and R.raw_bw(f, 1) and f.codec not in (0x50, 0x51)]
        for i, f in enumerate(fr):
            if quick and i % 2:
                continue
            loss = G.lossless_types(f)
            ty = sorted(loss)[i % len(loss)]
            ch = 1 + (i % 2 if f.maxch > 1 else 0)
            H = rdwr_script(rng, f, ch, ty, loss[ty], i % 3 == 0, rng.randrange(32))
            rw.append(("qrw-%s-%d" % (f.name, i), f, ch, ty, H))
        out3 = ctx.batch([(n_, H.text()) for (n_, f, ch, ty, H) in rw])
        for (n_, f, ch, ty, H) in rw:
            lines = [l for l in out3.get(n_, []) if l.startswith(ctx.TRANSCRIPT_PREFIXES + ("c ", "end ", "meta ", "pos="))]
            prs, sp = pairs_of(H.text(), lines, 0)
            geom = rdwrtail.geom_of(f, ch, ty, "vio", False)
            judge.add(n_, geom, {}, None, prs)
            meta[n_] = (geom, 0, len(prs), len(H.L))
            st["rdwr_histories"] += 1
    verdicts = judge.run()
    st["query_kinds"] = len(kinds)
    found = False
    reported = set()
    from .props._handle_common import CATS
    allowed = CATS.get(prop, {"data", "position", "seek", "count", "short", "eof", "frames", "crash"})
    items = [(name, f, ch, t) for (name, f, ch, F, info, t) in tests] + [(n_, f, ch, H.text()) for (n_, f, ch, ty, H) in rw]
    for (name, f, ch, text) in items:
        v = verdicts[name]
        geom, start, njudged, nlines = meta[name]
        ctx.count(nlines, tag="query:" + f.name)
        prob = None
        if v.status == "skip":
            continue
        if v.first() is not None:
            # the first failing clause this property speaks about (a position moved by a query may show first as a short count —
            # C05's clause — and on the next line as a wrong position probe or wrong data — C06's)
            for (k, tag, tx) in v.fails:
                if abslean.TAG_CAT.get(tag, tag) in allowed or name.startswith("qrw-"):
                    first = v.first()
                    prob = (start + k, tag, "Lean predicate Sf.Abs.check: clause `%s` fails: %s%s" % (tag, tx.strip(),
                            "" if first[0] == k else " (first failing line of the history: %d, clause `%s`)" % (start + first[0], first[1])))
                    break
        elif njudged < nlines:
            prob = (start + njudged, None, "transcript ends early (the call did not return / the process died)")
            if "crash" not in allowed and not name.startswith("qrw-"):
                prob = None
        if not prob:
            continue
        from . import handlecheck as HC
        kf = HC.known_class(f, ch, prob[2], abslean.TAG_CAT.get(prob[1], "crash"), text, prob[0])
        if kf:
            ent = next((e for e in ctx.known if e["id"] == kf and e.get("status") == "known"), None)
            if ent is not None and ctx.witness_still_fails(ent) is not False:
                ctx.known_finding(ent)
                continue
        key = f.name.split("-")[0]
        if key in reported or len(reported) >= 4:
            continue
        reported.add(key)
        found = True
        line, tag, why = prob
        sl = text.strip().split("\n")
        if tag and not name.startswith("qrw-"):
            F = int(re.search(r"frames=(\d+)", geom).group(1))
            body = absreplay.read_test_replay(text, line, geom, ch, F, clause=tag)
        elif tag:
            body = absreplay.plain_replay(text, line, geom, 0, clause=tag)
        else:
            body = "--- script\n" + "\n".join(sl[:line + 1]) + "\n"
        ctx.violation("%s-query-%s" % (prop.lower(), name),
                      "# %s violated on the implementation's own transcript: a non-audio call between two audio calls moved the audio position\n"
                      "# format %s, %d channel(s)\n# at script line %d: %s\n# the calls in front of it: %s\n# %s\n%s"
                      % (prop, f.name, ch, line, sl[line][:100] if line < len(sl) else "", " ; ".join(x[:40] for x in sl[max(0, line - 4):line]), why, body))
    return found
