"""Short transfers on REAL descriptors (C07, C14; round 8, gap worker gape).

The operating system may transfer fewer bytes than a read () / write () call asks for, or interrupt the call (EINTR); psf_fread /
psf_fwrite (src/file_io.c) loop until everything arrived.  Those loops never make a second pass in any other campaign: the fault
injection of the harness sits in the virtual-I/O callbacks (which have no loop), and a regular file takes any request whole.
harness/shortio.c interposes `read` / `write` and shortens / interrupts calls on descriptors >= 3 on a schedule (`shortio w|r <cap> <n>`,
`shortio weintr|reintr <n>`, `shortio skip <k>`); every job here moves ONE call's worth of data that is larger than the cap.

Write side (C07, C14): the same samples, written with the same calls through the same route,
      run one   = nothing armed,          run split = a schedule armed,
are ONE RECORD of the write-side predicate `Sf.AbsWrite.judge` (lean/SfModel/AbsWrite.lean, `sfmodel abs-write`): every call returns
what it was asked (clause `write`), sf_close returns 0, and the closed bytes are identical (clause `partition`: "how the OS split a
transfer" is one more way of splitting the writes, and the statement of C07 lets the bytes depend on the samples only).  The model of the
retry loop and the theorem behind the expectation are lean/SfModel/ShortIo.lean / lean/SfProps/C07ShortIo.lean (`fwrite_complete`: whatever
positive amounts the OS takes per call, the descriptor receives exactly the caller's buffer; `fwrite_calls`: how many calls that takes --
compared here with the harness's own count of write () calls, `wcalls` of `shortio stat`).
For C14 the unarmed run is also compared with the virtual-I/O route (containers that record the file name excepted) and the read side runs:
the closed file read back through path / fd with `shortio r` armed must give the transcript of the virtual-I/O route.
"""
import collections, re
from . import writecamp as W, abswrite, formats, scripts as S, readcamp as R

NAME_MAJORS = {0x06, 0x21}        # SVX, MPC2K: the header records the file name
SKIP_MAJORS = {0x16}              # SD2: resource fork beside the file
ROUTES = ["path", "fd1", "fd0"]
#             kind, cap, n, skip
SCHEDULES = [("w", 1, 1, 0), ("w", 7, 3, 0), ("w", 64, -1, 0), ("w", 1000, 1, 1), ("w", 3, 2, 2), ("weintr", 0, 2, 0), ("weintr", 0, 1, 1),
             ("w", 4096, -1, 0), ("w", 13, 5, 1),
             # an interruption in the MIDDLE of one psf_fwrite / psf_fread: capped calls first, then EINTR (kind "we": `shortio weintr 2 <after>` next to `shortio w <cap> <n>`)
             ("we", 7, -1, 0), ("we", 64, 3, 1), ("we", 1, 2, 0)]
WE_EINTR, WE_AFTER = 2, 1


def arm_lines(sched):
    kind, cap, n, skip = sched
    L = ["shortio off"]
    if skip:
        L.append("shortio skip %d" % skip)
    if kind in ("we", "re"):
        L.append("shortio %s %d %d" % ("weintr" if kind == "we" else "reintr", WE_EINTR, WE_AFTER))
        L.append("shortio %s %d %d" % (kind[0], cap, n))
    else:
        L.append("shortio %s %d %d" % (kind, cap, n) if kind in ("w", "r") else "shortio %s %d" % (kind, n))
    return L


def pick_jobs(ctx, quick):
    rng = ctx.rng
    fs = [f for f in formats.writable_formats(ctx) if f.major not in SKIP_MAJORS and f.codec not in (0x70, 0x71, 0x72, 0x73)]
    gran = [f for f in fs if f.granular]
    rest = [f for f in fs if not f.granular]
    # every container once with a sample-granular encoding, then a rotation; a few block codecs (their writers call psf_fwrite once per block)
    first = {}
    for f in gran:
        first.setdefault(f.major, f)
    pick = list(first.values()) + rng.sample(gran, min(len(gran), 14 if quick else 120)) + rng.sample(rest, min(len(rest), 4 if quick else 40))
    jobs, seen = [], set()
    for f in pick:
        if f.word in seen:
            continue
        seen.add(f.word)
        ch = min(f.maxch, rng.choice([1, 2, 2, 3]))
        ty = "s16" if f.codec not in (0x06, 0x07) else rng.choice(["f32", "f64"])
        n = rng.choice([700, 1500, 3001]) if f.granular else rng.choice([300, 700])
        sr = 8000
        vals = W.gen_values(rng, ty, n * ch, unit=True)
        jobs.append(W.Job(f, ch, sr, n, ty, vals, 0))
    return jobs


def write_script(j, store, route, sched, two_calls):
    ext = {0x06: "svx", 0x21: "mpc"}.get(j.fmt.major, "dat")
    L = arm_lines(sched) if sched else ["shortio off"]
    L.append("open h0 %s w fmt=%08x ch=%d sr=%d frames=0%s" % (store, j.fmt.word, j.ch, j.sr, "" if route == "vio" else " route=%s ext=%s" % (route, ext)))
    if two_calls:
        k = j.n // 3
        L.append(S.w_line("h0", j.ty, "f", k, j.vals[:k * j.ch]))
        L.append(S.w_line("h0", j.ty, "i", (j.n - k) * j.ch, j.vals[k * j.ch:]))
    else:
        L.append(S.w_line("h0", j.ty, "f", j.n, j.vals))
    L += ["close h0", "shortio stat", "shortio off", "dump %s" % store]
    return L


def read_back(j, h, store):
    return [j.open_r(h, store), "info %s" % h] + j.read_all(h) + ["close %s" % h]


def read_script(j, filehex, route, sched):
    L = ["store s0 " + filehex] + (arm_lines(sched) if sched else ["shortio off"])
    op = j.open_r("h1", "s0") + ("" if route == "vio" else " route=%s" % route)
    ch, n = j.ch, j.n
    L += [op, "r h1 %s i %d" % (j.ty, (n + 8) * ch), "seek h1 0 0", "r h1 %s f %d" % (j.ty, max(n // 2, 1)), "r h1 s16 i %d" % ((n + 1) * ch),
          "close h1", "shortio stat", "shortio off"]
    return L


def strip_route(lines):
    return [re.sub(r" fd_open=\d", "", l) for l in lines if not l.startswith(("ok shortio", "calls="))]


def campaign(ctx, prop, quick=None):
    rng = ctx.rng
    quick = (ctx.tier == "quick") if quick is None else quick
    stats = collections.Counter()
    jobs = pick_jobs(ctx, quick)
    scripts, plan = [], []
    for i, j in enumerate(jobs):
        route = ROUTES[i % len(ROUTES)]
        sched = SCHEDULES[(i + ctx.seed) % len(SCHEDULES)]
        two = (i % 3 == 1)
        one = write_script(j, "s0", route, None, two) + read_back(j, "h1", "s0")
        split = write_script(j, "s0", route, sched, two)       # the same store = the same file name (SVX / MPC2K record it in the header)
        vio = write_script(j, "s0", "vio", None, two)
        plan.append(dict(j=j, i=i, route=route, sched=sched, one="\n".join(one) + "\n", split="\n".join(split) + "\n", vio="\n".join(vio) + "\n"))
        scripts += [("one|%d" % i, plan[-1]["one"]), ("split|%d" % i, plan[-1]["split"]), ("vio|%d" % i, plan[-1]["vio"])]
    out = ctx.batch(scripts, clean=True, op_timeout=30)
    texts = []
    for p in plan:
        j, i = p["j"], p["i"]
        p["l1"], p["l2"], p["lv"] = out.get("one|%d" % i, []), out.get("split|%d" % i, []), out.get("vio|%d" % i, [])
        p["name"] = "shortio-%s-%s-%s" % (j.name(i), p["route"], "%s%d_%d_%d" % p["sched"])
        if not p["l1"] or len(p["l1"]) < 2 or "open=ok" not in p["l1"][1]:
            stats["not_writable_through_route"] += 1
            p["skip"] = True
            continue
        text, n = abswrite.record_text(p["name"], abswrite.job_geom(j), [("one", p["one"], p["l1"]), ("split", p["split"], p["l2"])])
        texts.append((p["name"], text))
    verdicts = abswrite.run_driver(ctx.sfmodel(), texts) if texts else {}
    findings = []
    rjobs = []
    for p in plan:
        if p.get("skip"):
            continue
        j = p["j"]
        stats["write_records"] += 1
        stats["ops"] += len(p["one"].split("\n")) + len(p["split"].split("\n"))
        st = next((l for l in p["l2"] if l.startswith("calls=")), "")
        m = re.search(r"wcalls=(\d+) wshort=(\d+) weintr=(\d+)", st)
        if m:
            stats["write_calls_seen"] += int(m.group(1))
            stats["write_calls_shortened"] += int(m.group(2))
            stats["write_calls_interrupted"] += int(m.group(3))
            if int(m.group(2)) + int(m.group(3)) > 0:
                stats["records_with_a_second_pass"] += 1
                ctx.distinct.add("shortio:w:%s:%s" % (formats.MAJOR_NAME.get(j.fmt.major), p["sched"][0]))
        v = verdicts.get(p["name"])
        replay = ("abs-write " + abswrite.job_geom(j) + "\nabs-write-clauses %s\n--- run one\n%s--- run split\n%s")
        if v is None:
            continue
        for (tag, run, idx, detail) in v.fails[:2]:
            cat = abswrite.TAG_CAT.get(tag, tag)
            text = ("short transfers on a real descriptor (route %s, schedule `%s`): Lean predicate Sf.AbsWrite.judge, clause `%s` (run %d = %s, index %d): %s %s"
                    % (p["route"], " ; ".join(arm_lines(p["sched"])[1:]), tag, run, "nothing armed" if run == 1 else "schedule armed", idx, abswrite.describe(tag, run, idx, detail), st))
            findings.append(dict(name=p["name"], j=j, cat=cat, tag=tag, text=text, side="w", replay=replay % (tag, p["one"], p["split"])))
        # C14: the unarmed route run against the virtual-I/O route
        d1 = next((l for l in p["l1"] if l.startswith("len=")), None)
        dv = next((l for l in p["lv"] if l.startswith("len=")), None)
        if j.fmt.major not in NAME_MAJORS and d1 and dv and d1 != dv:
            findings.append(dict(name=p["name"], j=j, cat="routes", tag="route-bytes", side="w",
                                 text="the closed file written through route %s differs from the one written through virtual I/O (nothing armed)" % p["route"],
                                 replay="--- script\n" + p["one"]))
        if d1 and "hex=" in d1 and j.fmt.granular:
            rjobs.append((p, d1.split("hex=")[1]))
    # ---- read side ----
    rscripts = []
    for (p, hx) in rjobs:
        i = p["i"]
        kind, cap, n, skip = p["sched"]
        rs = ("reintr", 0, n, skip) if kind == "weintr" else ("re", cap, n, skip) if kind == "we" else ("r", cap, n, skip)
        p["rsched"] = rs
        p["r_ref"] = "\n".join(read_script(p["j"], hx, "vio", None)) + "\n"
        p["r_arm"] = "\n".join(read_script(p["j"], hx, p["route"], rs)) + "\n"
        rscripts += [("rref|%d" % i, p["r_ref"]), ("rarm|%d" % i, p["r_arm"])]
    rout = ctx.batch(rscripts, clean=True, op_timeout=30)
    for (p, hx) in rjobs:
        i, j = p["i"], p["j"]
        a, b = strip_route(rout.get("rref|%d" % i, [])), strip_route(rout.get("rarm|%d" % i, []))
        st = next((l for l in rout.get("rarm|%d" % i, []) if l.startswith("calls=")), "")
        m = re.search(r"rcalls=(\d+) rshort=(\d+) reintr=(\d+)", st)
        stats["read_histories"] += 1
        stats["ops"] += len(p["r_arm"].split("\n"))
        if m:
            stats["read_calls_seen"] += int(m.group(1))
            stats["read_calls_shortened"] += int(m.group(2))
            stats["read_calls_interrupted"] += int(m.group(3))
            if int(m.group(2)) + int(m.group(3)) > 0:
                ctx.distinct.add("shortio:r:%s" % formats.MAJOR_NAME.get(j.fmt.major))
        if a != b:
            k = next((x for x in range(min(len(a), len(b))) if a[x] != b[x]), min(len(a), len(b)))
            findings.append(dict(name=p["name"], j=j, cat="routes-read", tag="route-read", side="r",
                                 text="reading the same bytes through route %s with short / interrupted read () calls (`%s`) differs from the virtual-I/O route at transcript line %d:\n#   vio : %s\n#   %s: %s  [%s]"
                                 % (p["route"], " ; ".join(arm_lines(p["rsched"])[1:]), k, (a[k] if k < len(a) else "(missing)")[:200], p["route"], (b[k] if k < len(b) else "(missing)")[:200], st),
                                 replay="# reference (virtual I/O):\n# " + "\n# ".join(x[:150] for x in a[:8]) + "\n--- script\n" + p["r_arm"]))
    # ---- correspondence: the retry loop of lean/SfModel/ShortIo.lean against the harness's own count of write () / read () calls.  A header-less RAW file
    #      written / read with ONE call makes ONE psf_fwrite / psf_fread of known size, so the number of calls is a function of the schedule alone ----
    cj = []
    for k, (kind, cap, n, skip) in enumerate([s for s in SCHEDULES if s[0] in ("w", "we")] + [("w", 5, 4, 0), ("w", 100, 1, 0)]):
        nbytes = [1400, 600, 4096 + 7][k % 3]
        vals = [(7 * x + k) & 0xFF for x in range(nbytes)]
        hx = "".join("%02x" % v for v in vals)
        for e in (0, 2):
            after = (k % 3) if (kind == "we" and e) else 0
            arm = ["shortio off"] + (["shortio skip %d" % skip] if skip else []) + (["shortio weintr %d %d" % (e, after)] if e else []) + ["shortio w %d %d" % (cap, n)]
            sc = arm + ["open h0 s0 w fmt=00040005 ch=1 sr=8000 route=%s" % ROUTES[k % 3], "wraw h0 %d %s" % (nbytes, hx), "shortio stat", "close h0", "shortio off", "dump s0"]
            rarm = [a.replace("shortio w ", "shortio r ").replace("weintr", "reintr") for a in arm]
            rs = ["store s0 " + hx] + rarm + ["open h1 s0 r fmt=00040005 ch=1 sr=8000 route=%s" % ROUTES[k % 3], "shortio off"] + rarm[1:] + ["rraw h1 %d" % nbytes, "shortio stat", "close h1", "shortio off"]
            cj.append(dict(name="calls|%d|%d" % (k, e), w="\n".join(sc) + "\n", r="\n".join(rs) + "\n", hx=hx,
                           req="%d skip=%d after=%d eintr=%d cap=%d n=%d" % (nbytes, skip, after, e, cap, n), nbytes=nbytes))
    cout = ctx.batch([(c["name"] + "|w", c["w"]) for c in cj] + [(c["name"] + "|r", c["r"]) for c in cj], clean=True, op_timeout=20)
    model = ctx.run_model(["shortio"], "".join("w %s\nr %s have=%d\n" % (c["req"], c["req"].replace("%d " % c["nbytes"], "%d " % c["nbytes"], 1), c["nbytes"]) for c in cj)).strip().split("\n")
    for i, c in enumerate(cj):
        for side, mline in (("w", model[2 * i]), ("r", model[2 * i + 1])):
            ln = cout.get(c["name"] + "|" + side, [])
            st = next((l for l in ln if l.startswith("calls=")), "")
            m = re.search(r"wcalls=(\d+) .*rcalls=(\d+)", st)
            mm = re.match(r"calls=(\d+) bytes=(\d+)", mline)
            stats["call_count_cases"] += 1
            got = int(m.group(1 if side == "w" else 2)) if m else -1
            data_ok = (("hex=" + c["hx"]) in " ".join(ln)) if side == "w" else (("data=" + c["hx"]) in " ".join(ln))
            if not mm or got != int(mm.group(1)) or not data_ok:
                stats["call_count_disagreements"] += 1
                findings.append(dict(name=c["name"], j=None, cat="corr", tag="calls", side=side,
                                     text="psf_%s retry loop: model (lean/SfModel/ShortIo.lean) says `%s` for `%s`, the harness counted %d calls; bytes %s"
                                     % ("fwrite" if side == "w" else "fread", mline, c["req"], got, "arrived" if data_ok else "DIFFER"),
                                     replay="--- script\n" + c[side], data_ok=data_ok))
    return findings, stats, plan


C07_CATS = {"partition", "write", "close", "crash", "open"}


def run(ctx, prop):
    findings, stats, plan = campaign(ctx, prop)
    ctx.count(stats["ops"], tag="shortio")
    reported = collections.Counter()
    corr = [f for f in findings if f["cat"] == "corr"]
    findings = [f for f in findings if f["cat"] != "corr"]
    for f in corr:
        if prop == "C07" and f["side"] != "w":
            stats["failures_of_other_properties"] += 1      # a read-side defect leaves the written bytes alone: C14's business
            continue
        if not f["data_ok"] and stats["failures"] < 2:          # the bytes themselves are wrong: a failing input
            stats["failures"] += 1
            ctx.violation("%s-%s-bytes" % (prop.lower(), f["name"]), "# %s short transfers on a real descriptor: the bytes of a one-call header-less file differ\n# %s\n%s" % (prop, f["text"], f["replay"]))
    ctx.coverage["traces_validated_against_impl"] += stats["call_count_cases"]
    for f in findings:
        # clauses of other statements (C04 `frames` on header-less RAW / DWVW ...) are the business of their own checks
        if (prop == "C07" and (f["side"] != "w" or f["cat"] not in C07_CATS)) or (prop == "C14" and f["cat"] not in C07_CATS | {"routes", "routes-read"}):
            stats["failures_of_other_properties"] += 1
            continue
        stats["failures"] += 1
        key = (f["side"], f["cat"])
        reported[key] += 1
        if reported[key] > 2:
            continue
        j = f["j"]
        head = ("# %s: %s\n# format %s, %d channel(s), %d frames of %s\n# %s\n" % (
            prop, "the bytes of a written file do not depend on how the operating system split a transfer" if f["side"] == "w" and prop == "C07"
            else "the descriptor routes give the results of the virtual-I/O route also when read () / write () transfer less than asked",
            j.fmt.name, j.ch, j.n, j.ty, f["text"]))
        ctx.violation("%s-%s-%s" % (prop.lower(), f["name"], f["cat"]), head + f["replay"])
    corr = [f for f in corr if not (prop == "C07" and f["side"] != "w")]
    if corr and all(f["data_ok"] for f in corr) and not stats["failures"] and not ctx.violations:
        f = corr[0]
        ctx.violation("%s-shortio-correspondence" % prop.lower(), "# correspondence stream 'retry loop of psf_fread / psf_fwrite vs lean/SfModel/ShortIo.lean' no longer agrees on %d of %d cases; no failing input found\n# %s\n%s"
                      % (len(corr), stats["call_count_cases"], f["text"], f["replay"]), no_input=True)
    ctx.coverage.setdefault("short_transfers", {}).update(dict(stats))
    if plan:
        p = plan[len(plan) // 2]
        ctx.sample({"kind": "short transfers on a real descriptor", "name": p.get("name"), "schedule": arm_lines(p["sched"]),
                    "armed_run_transcript": [l[:140] for l in p.get("l2", [])[:8]]})
    return stats
