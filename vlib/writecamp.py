"""All-format write campaign: one set of samples written (1) in one call and (2) split over mixed calls with header
updates and crash-point snapshots; then re-opened. Serves C01 (round trip), C04 (closed file describes what was
written), C07 (bytes independent of partition), C11 (snapshots are valid files)."""
import collections
from . import scripts as S, kernels as K, abscheck, formats, geometry as G

DIG = K.TY_DIGITS


def gen_values(rng, ty, n, lowzero=0, unit=False):
    vals = S.rand_values(rng, ty, n, "unit" if unit else "mixed")
    if ty in ("s16", "s32") and lowzero:
        mask = ((1 << (16 if ty == "s16" else 32)) - 1) ^ ((1 << lowzero) - 1)
        vals = [v & mask for v in vals]
    return vals


def partition(rng, n):
    """split n frames into call sizes"""
    out = []
    left = n
    while left > 0:
        k = min(left, rng.choice([1, 1, 2, 3, 5, 7, 64, 159, 160, 161, 505, 1023, 2048, 2731, left]))
        out.append(k)
        left -= k
    return out


class Job:
    def __init__(self, fmt, ch, sr, n, ty, vals, lowzero):
        self.fmt, self.ch, self.sr, self.n, self.ty, self.vals, self.lowzero = fmt, ch, sr, n, ty, vals, lowzero
        self.B = G.block_frames(fmt, ch, sr)
        self.pad = G.pad_frames(fmt, ch)
        self.parts = []
        self.snaps = []      # (store index, frames written so far)
        self.garbage = 0     # the stale SF_INFO.frames passed at open (same in the single and split scripts)

    def name(self, i):
        return "%s-c%d-r%d-n%d-%s-%d" % (self.fmt.name, self.ch, self.sr, self.n, self.ty, i)

    def open_r(self, h, store):
        if self.fmt.major == 0x04:
            return "open %s %s r fmt=%08x ch=%d sr=%d" % (h, store, self.fmt.word, self.ch, self.sr)
        return "open %s %s r" % (h, store)

    def read_all(self, h, extra=0):
        want = (self.n + self.B + self.pad + 8 + extra) * self.ch
        return ["r %s %s i %d" % (h, self.ty, want), "r %s %s i %d" % (h, self.ty, self.ch)]

    def script_single(self, rng, garbage=None):
        ch = self.ch
        g = self.garbage if garbage is None else garbage
        L = ["open h0 s0 w fmt=%08x ch=%d sr=%d frames=%d" % (self.fmt.word, ch, self.sr, g)]
        if self.n > 0:
            L.append(S.w_line("h0", self.ty, "f", self.n, self.vals))
        L += ["close h0", "dump s0", self.open_r("h1", "s0"), "info h1"] + self.read_all("h1") + ["close h1"]
        return "\n".join(L) + "\n"

    def script_split(self, rng, updates=True):
        ch = self.ch
        self.parts = partition(rng, self.n)
        auto = updates and rng.random() < 0.25
        L = ["open h0 s1 w fmt=%08x ch=%d sr=%d frames=%d" % (self.fmt.word, ch, self.sr, self.garbage)]
        if auto:
            L.append("cmd h0 1061 1 null")
        done = 0
        self.snaps = []
        snap_store = 2
        # late auto: the first writes happen with auto update off; then SFC_SET_UPDATE_HEADER_AUTO is switched on and an explicit
        # SFC_UPDATE_HEADER_NOW follows before the next write (the frames written so far are in no header yet at that moment)
        late_auto = updates and not auto and len(self.parts) >= 2 and rng.random() < 0.2
        for pi, k in enumerate(self.parts):
            unit = rng.choice("if")
            seg = self.vals[done * ch:(done + k) * ch]
            L.append(S.w_line("h0", self.ty, unit, k if unit == "f" else k * ch, seg))
            done += k
            if late_auto and pi == 0:
                L += ["cmd h0 1061 1 null", "cmd h0 1060 0 null", "copy s%d s1" % snap_store]
                self.snaps.append((snap_store, done))
                snap_store += 1
                auto = True
                continue
            if updates and snap_store < 10 and (auto or rng.random() < 0.4):
                if not auto:
                    L.append("cmd h0 1060 0 null")
                L.append("copy s%d s1" % snap_store)
                self.snaps.append((snap_store, done))
                snap_store += 1
        L += ["close h0", "dump s1"]
        for (st, nf) in self.snaps:
            h = "h%d" % (st % 8)
            L += [self.open_r(h, "s%d" % st), "info %s" % h, "r %s %s i %d" % (h, self.ty, (nf + 8) * ch), "close %s" % h]
        return "\n".join(L) + "\n"


def make_jobs(ctx, stride=1, channels=(1, 2, 3), skip_major=(0x16,)):
    rng = ctx.rng
    fs = [f for f in formats.writable_formats(ctx) if f.major not in skip_major]
    jobs = []
    for f in fs:
        loss = G.lossless_types(f)
        for ch in sorted(set(min(c, f.maxch) for c in channels)):
            sr = rng.choice([8000, 8000, 11025, 44100, 48000, 1, 65535, 96000])
            if rng.random() < 0.2:
                sr = rng.choice([65536, 2 ** 30 - 1, 2 ** 30, 2 ** 30 + 1, 2 ** 31 - 1])      # the property quantifies over [1, 2^31-1]
            if f.major in (0x10, 0x11) and rng.random() < 0.5:
                # sample-period containers (HTK 100 ns, SDS 1 ns in 21 bits): the rate clause is EXACT (`periodQuant`), so the rates where
                # the period is 1..3 units (HTK 3.2 .. 10 MHz: 6 MHz reads back as 10 MHz), where it is 0 (above the unit) and where it
                # does not fit SDS's field (below 477 Hz) are asked for as well
                sr = rng.choice([3200000, 3333334, 5000000, 5000001, 6000000, 9999999, 10000000, 10000001, 476, 477, 250] if f.major == 0x10
                                else [3200000, 6000000, 320000000, 500000001, 600000000, 10 ** 9, 10 ** 9 + 1, 476, 477, 250, 4000])
            if f.major == 0x08 and rng.random() < 0.5:
                # VOC: the time-constant fields (type 1: 10^6 / sr in 8 bits, type 8: 128 * 10^6 / sr in 16 bits) -- the rate clause is EXACT
                # (`rateOkG`), so the rates around the breakpoints of the divisor are asked for: divisor 255 / 256 (3906 / 3907 Hz), 65535 / 65536
                # (1953 / 1954 Hz), 1 / 2 / 0 (500000, 500001, 10^6, 10^6 + 1; 64 * 10^6 (+ 1), 128 * 10^6 (+ 1)), and where truncation and rounding differ
                sr = rng.choice([1953, 1954, 3906, 3907, 3921, 3922, 7999, 22050, 44100, 333333, 333334, 500000, 500001, 1000000, 1000001,
                                 64000000, 64000001, 128000000, 128000001])
            if f.major == 0x0A and rng.random() < 0.5:
                # IRCAM: binary32 field -- ties to even at 2^24 + 1 / + 3, 2^25 + 2 / + 6, the cap from 2^31 - 64 on
                sr = rng.choice([2 ** 24 - 1, 2 ** 24, 2 ** 24 + 1, 2 ** 24 + 3, 2 ** 25 + 2, 2 ** 25 + 6, 2 ** 30 + 63, 2 ** 30 + 64, 2 ** 30 + 65,
                                 2 ** 31 - 193, 2 ** 31 - 192, 2 ** 31 - 65, 2 ** 31 - 64, 2 ** 31 - 1])
            B = G.block_frames(f, ch, sr)
            n = rng.choice([0, 1, 2, 3, max(B - 1, 0), B, B + 1, 2 * B + 1, 3 * B - 1, 4 * B + 2, 100, 257, 1000, 2731])
            n = min(n, 6000)
            if loss:
                ty = rng.choice(sorted(loss))
                lowzero = loss[ty]
            else:
                ty, lowzero = rng.choice(["s16", "s16", "s32", "f32", "f64"]), 0
            unit = (not loss) or f.codec in (0x10, 0x11)
            vals = gen_values(rng, ty, n * ch, lowzero, unit=unit and ty in ("f32", "f64"))
            j = Job(f, ch, sr, n, ty, vals, lowzero if loss else None)
            j.garbage = rng.choice([0, 0, 7, 12345, 1 << 40])
            jobs.append(j)
    if stride > 1:
        jobs = jobs[rng.randrange(stride)::stride]
    # encodings whose block size is derived from samplerate * channels (IMA / MS ADPCM in the RIFF family): the product overflows an int
    # from 2^30 Hz stereo on, and two sites (codec init and the fmt chunk writer) must agree on the result -- always exercised
    for f in fs:
        if f.codec in (0x12, 0x13) and f.major in (0x01, 0x0B, 0x13, 0x22) and f.maxch >= 2:
            for sr in (2 ** 30, 2 ** 31 - 1):
                B = G.block_frames(f, 2, 8000)
                n = rng.choice([B + 1, 2 * B + 1, 2041, 2036])
                ty = rng.choice(["s16", "s32"])
                j = Job(f, 2, sr, n, ty, gen_values(rng, ty, n * 2, 0), None)
                j.garbage = 0
                jobs.append(j)
    # PEAK-carrying files: every caller type through the converting writers, 2 channels, one call longer than every staging buffer
    # (the per-channel PEAK position must not depend on how the samples were split over calls)
    pk = [f for f in fs if f.codec in (0x06, 0x07) and f.major in (0x01, 0x02, 0x13, 0x18)]
    for f in pk:
        for ty in ("s16", "s32", "f32", "f64"):
            n = 2731
            # small values everywhere, one unique maximum per channel placed late in the call (beyond the first staging buffers)
            import struct as _st
            small = [rng.randrange(-1000, 1000) for _ in range(n * 2)]
            small[2 * rng.randrange(1400, 2000)] = 30000
            small[2 * rng.randrange(2100, 2700) + 1] = -31000
            if ty == "s16":
                vals = [v & 0xFFFF for v in small]
            elif ty == "s32":
                vals = [(v << 16) & 0xFFFFFFFF for v in small]
            elif ty == "f32":
                vals = [_st.unpack("<I", _st.pack("<f", v / 32768.0))[0] for v in small]
            else:
                vals = [_st.unpack("<Q", _st.pack("<d", v / 32768.0))[0] for v in small]
            j = Job(f, 2, 8000, n, ty, vals, None)
            j.garbage = 0
            jobs.append(j)
    return jobs


def focused_jobs(ctx, word, nmax=3):
    """failing-input search after a broken correspondence: the (container, encoding, endianness) of the disagreeing script, every lossless caller
    type, 1-2 channels, lengths beyond every internal staging buffer (2048/2730/4096/8192 items), written in one call and split"""
    rng = ctx.rng
    fs = [f for f in formats.writable_formats(ctx) if f.word == word] or [f for f in formats.writable_formats(ctx) if (f.word & 0x0FFFFFFF) == (word & 0x0FFFFFFF)]
    jobs = []
    for f in fs[:nmax]:
        loss = G.lossless_types(f)
        tys = sorted(loss) if loss else ["s16", "s32", "f32", "f64"]
        for ty in tys:
            for ch in sorted(set(min(c, f.maxch) for c in (1, 2))):
                for n in (2049 // ch + 1, 2731, 4097, 8193):
                    lowzero = loss[ty] if loss else 0
                    unit = (not loss) or f.codec in (0x10, 0x11)
                    vals = gen_values(rng, ty, n * ch, lowzero, unit=unit and ty in ("f32", "f64"))
                    j = Job(f, ch, 8000, n, ty, vals, lowzero if loss else None)
                    j.garbage = 0
                    jobs.append(j)
    return jobs


def run_jobs(ctx, jobs, updates=True):
    """returns list of result dicts with everything the property predicates need"""
    rng = ctx.rng
    s1 = [(j.name(i) + "-one", j.script_single(rng)) for i, j in enumerate(jobs)]
    s2 = [(j.name(i) + "-split", j.script_split(rng, updates)) for i, j in enumerate(jobs)]
    # same samples, same calls, another stale frames value at open: the bytes must not change (C04)
    s3 = [(j.name(i) + "-stale", j.script_single(rng, garbage=99999 if j.garbage != 99999 else 3)) for i, j in enumerate(jobs)]
    out = ctx.batch(s1 + s2 + s3, clean=True)
    res = []
    for i, j in enumerate(jobs):
        a, b, c = out.get(s1[i][0], []), out.get(s2[i][0], []), out.get(s3[i][0], [])
        r = analyse(j, s1[i][1], a, s2[i][1], b)
        d1 = next((l for l in a if l.startswith("len=") and "hex=" in l), None)
        d3 = next((l for l in c if l.startswith("len=") and "hex=" in l), None)
        r["script3"] = s3[i][1]
        r["lines1"], r["lines2"], r["lines3"] = a, b, c      # the transcripts: input of the Lean predicate (vlib/abswrite.py)
        if d1 is not None and d3 is not None and d1 != d3:
            h1, h3 = d1.split("hex=")[1], d3.split("hex=")[1]
            d = next((k for k in range(0, min(len(h1), len(h3)), 2) if h1[k:k + 2] != h3[k:k + 2]), min(len(h1), len(h3)))
            r["problems"].append(("stale", "the stale SF_INFO.frames value passed at open (%d vs %d) changes the closed file: first difference at byte offset %d (%s vs %s)"
                                  % (j.garbage, 99999 if j.garbage != 99999 else 3, d // 2, h1[d:d + 8], h3[d:d + 8]), 3, None))
        res.append(r)
    return res


def _dead(lines):
    return [l for l in lines if l.startswith(("CRASH", "ABORT", "TIMEOUT"))]


def analyse(j, script1, a, script2, b):
    r = {"job": j, "script1": script1, "script2": script2, "problems": []}   # problems: (prop-cat, text, which-script, line)

    def P(cat, text, which=1, line=None):
        r["problems"].append((cat, text, which, line))

    sl1, sl2 = script1.strip().split("\n"), script2.strip().split("\n")
    if _dead(a) or len(a) < len(sl1):
        P("crash", "single-call script died or ended early: %s" % (_dead(a) or a[-1:]), 1, len(a) - 1)
        return r
    if _dead(b) or len(b) < len(sl2):
        P("crash", "split script died or ended early: %s" % (_dead(b) or b[-1:]), 2, len(b) - 1)
        return r
    ch, n = j.ch, j.n
    # ---- single-call run ----
    k = 0
    if "open=NULL" in a[0]:
        P("open", "a format sf_format_check accepts could not be opened for writing: %s" % a[0], 1, 0)
        return r
    k = 1
    if n > 0:
        kv = abscheck.parse_kv(a[k])
        if int(kv.get("ret", -1)) != n:
            P("write", "writef of %d frames returned %s" % (n, kv.get("ret")), 1, k)
        k += 1
    if a[k].strip() != "ret=0":
        P("close", "sf_close returned %s" % a[k], 1, k)
    k += 1
    dump1 = a[k]
    if "hex=" not in dump1:
        P("crash", "unexpected transcript line where the file dump should be: %s" % dump1[:80], 1, k)
        return r
    k += 1
    if "open=NULL" in a[k]:
        P("reopen", "the closed file cannot be re-opened: %s" % a[k], 1, k)
        return r
    kv = abscheck.parse_kv(a[k])
    F = int(kv.get("frames", -1))
    r["F"] = F
    got_fmt = int(kv.get("fmt", "0"), 16)
    if int(kv.get("ch", -1)) != ch:
        P("info", "re-open reports %s channels, %d were requested" % (kv.get("ch"), ch), 1, k)
    if (got_fmt & 0x0FFFFFFF) != (j.fmt.word & 0x0FFFFFFF) and j.fmt.major != 0x04:
        P("info", "re-open reports format %08x, written as %08x" % (got_fmt, j.fmt.word), 1, k)
    if not G.rate_ok(j.fmt, j.sr, int(kv.get("sr", -1)), ch):      # the exact clause on the whole geometry (`rateOkG`)
        P("rate", "re-open reports sample rate %s, requested %d" % (kv.get("sr"), j.sr), 1, k)
    if not (n <= F < n + j.B + j.pad):
        P("frames", "re-open reports %d frames; %d were written (block length %d, pad allowance %d): want N <= F < N + B" % (F, n, j.B, j.pad), 1, k)
    k += 2
    kv = abscheck.parse_kv(a[k])
    ret = int(kv.get("ret", -1))
    items = abscheck.split_items(kv.get("data", ""), j.ty)
    if ret != F * ch:
        P("eof", "reading to the end delivered %d items, the header promises %d frames x %d channels" % (ret, F, ch), 1, k)
    kv2 = abscheck.parse_kv(a[k + 1])
    if int(kv2.get("ret", -1)) != 0:
        P("eof", "a further read after the end returned %s" % kv2.get("ret"), 1, k + 1)
    r["readback"] = items[:max(ret, 0)]
    if j.lowzero is not None:
        want = [("%0*x" % (DIG[j.ty], v)) for v in j.vals]
        gotv = items[:n * ch]
        if gotv != want:
            d = next((i for i in range(len(want)) if i >= len(gotv) or gotv[i] != want[i]), 0)
            P("roundtrip", "lossless pair (%s through %s): item %d (frame %d) read back as %s, written %s"
              % (j.ty, j.fmt.name, d, d // ch, gotv[d] if d < len(gotv) else None, want[d]), 1, k)
    # ---- split run ----
    if "open=NULL" in b[0]:
        P("open", "second open for writing failed: %s" % b[0], 2, 0)
        return r
    dump2 = next((l for l in b if l.startswith("len=") and "hex=" in l), None)
    wl = [(x, y) for x, y in zip(sl2, b) if x.startswith("w ")]
    for (op, outl) in wl:
        t = op.split()
        if int(abscheck.parse_kv(outl).get("ret", -1)) != int(t[4]):
            P("write", "write of %s (%s) returned %s" % (t[4], t[3], abscheck.parse_kv(outl).get("ret")), 2, None)
            break
    if dump2 is not None and dump1.split("hex=")[1] != dump2.split("hex=")[1]:
        h1, h2 = dump1.split("hex=")[1], dump2.split("hex=")[1]
        d = next((i for i in range(0, min(len(h1), len(h2)), 2) if h1[i:i + 2] != h2[i:i + 2]), min(len(h1), len(h2)))
        # are all differing bytes inside the PEAK chunk? (its content is the subject of C18; two C18 findings make it depend on the split)
        only_peak = False
        if len(h1) == len(h2):
            b1 = bytes.fromhex(h1)
            pk = max(b1.find(b"PEAK"), b1.find(b"peak"))
            if pk >= 0:
                lo, hi = pk, pk + 32 + 12 * j.ch
                only_peak = all(lo <= i // 2 < hi for i in range(0, len(h1), 2) if h1[i:i + 2] != h2[i:i + 2])
        r["partition_only_peak"] = only_peak
        P("partition", "%sfile bytes differ between one call and the split %s (with%s header updates): first difference at byte offset %d (%s vs %s), lengths %d / %d"
          % ("[only PEAK chunk bytes] " if only_peak else "", j.parts[:12], "" if j.snaps else "out", d // 2, h1[d:d + 8], h2[d:d + 8], len(h1) // 2, len(h2) // 2), 2, None)
    # ---- snapshots ----
    pos = sl2.index("dump s1") + 1
    for (st, nf) in j.snaps:
        o = b[pos]
        if "open=NULL" in o:
            P("snapshot", "crash-point image after %d frames cannot be opened: %s" % (nf, o), 2, pos)
            pos += 4
            continue
        kv = abscheck.parse_kv(o)
        Fs = int(kv.get("frames", -1))
        want_f = (nf // j.B) * j.B
        if int(kv.get("ch", -1)) != ch or ((int(kv.get("fmt", "0"), 16) & 0x0FFFFFFF) != (j.fmt.word & 0x0FFFFFFF) and j.fmt.major != 0x04):
            P("snapshot", "crash-point image after %d frames reports other parameters: %s" % (nf, o), 2, pos)
        if not (want_f <= Fs <= nf + j.pad):
            P("snapshot", "crash-point image after %d frames reports %d frames (block length %d: want %d..%d)" % (nf, Fs, j.B, want_f, nf + j.pad), 2, pos)
        kvr = abscheck.parse_kv(b[pos + 2])
        got = abscheck.split_items(kvr.get("data", ""), j.ty)[:max(int(kvr.get("ret", 0)), 0)]
        ref = r["readback"][:len(got)]
        m = min(len(got), want_f * ch)
        if got[:m] != ref[:m]:
            P("snapshot", "crash-point image after %d frames reads back differently from the finished file" % nf, 2, pos + 2)
        if len(got) < want_f * ch:
            P("snapshot", "crash-point image after %d frames delivers only %d items (want at least %d)" % (nf, len(got), want_f * ch), 2, pos + 2)
        pos += 4
    return r
