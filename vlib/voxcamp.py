"""OKI/VOX ADPCM campaign (C05 / C06 / C07, frames clause of C04): the held sample of vox_adpcm.c (repair of KF-VOX-ODD).

Two samples are packed per byte; a call with an odd item count leaves half a byte over, which the codec holds until the next
call (a writer: in front of the next call's samples, codec_close encodes a last odd sample with the encoder's zero sample; a
reader: delivered first by the next call).  Every job here cuts ONE vector of shorts into write calls of all four caller types
at odd and even positions -- inside a call, across the 512-sample pieces of vox_write_block, across the 4096-item staging of
the int / float / double callers, an odd total -- and reads the file back in pieces that end inside a byte, at the last byte
and behind the end.  Its twin writes the same shorts in one call and reads them in one call.

  correspondence   every transcript line of both against `sfmodel block` (lean/SfModel/Oki.lean: writeBlock / closeCarry / readBlock)
  C05              each write returns its count; each read returns min (request, frames left) -- never more (ASan guards the
                   buffers) --, 0 behind the end
  C06              the concatenated deliveries are the twin's one sequential read
  C07              job and twin leave the same bytes
  C04 (frames)     N <= F < N + 2, F = 2 * bytes; the sequential read delivers F
  C05 / C06        the file is byte-identical after the read handle is closed (a held sample is flushed by WRITE handles only)

It needs no harness additions; the machinery (Job, analyse, run_model) is vlib/blockcamp.py's.
"""
import collections, struct
from . import blockcamp as B

TYS = ["s16", "s32", "f32", "f64"]
CATS = {
    "C05": {"count", "position", "eof", "crash", "open", "readonly"},
    "C06": {"stream", "position", "crash", "open", "readonly"},
    "C07": {"partition", "crash", "open"},
    "C04": {"frames", "eof", "crash", "open"},
}
CUTS = [1, 1, 1, 2, 3, 5, 7, 255, 256, 257, 511, 512, 513, 1023, 1025, 4095, 4096, 4097, 8191, 8193]


def widen(rng, ty, shorts, flags):
    """caller items of type ty that vox_write_<ty> turns into exactly these shorts"""
    if ty == "s16":
        return [v & 0xFFFF for v in shorts]
    if ty == "s32":
        return [((v & 0xFFFF) << 16) | (rng.randrange(0, 65536) if rng is not None else 0) for v in shorts]     # the low half is dropped (>> 16)
    norm = flags.get("normF" if ty == "f32" else "normD", 1)
    # normalisation on: psf_lrint (0x7FFF * (x / 32767)) = x (error < 0.01); off: the value itself
    vals = [(x / 32767.0) if norm else float(x) for x in shorts]
    if ty == "f32":
        return [struct.unpack("<I", struct.pack("<f", x))[0] for x in vals]
    return [struct.unpack("<Q", struct.pack("<d", x))[0] for x in vals]


def signal(rng, n, kind):
    if kind == 0:
        return [((i * 37) % 4001 - 2000) * 8 for i in range(n)]
    if kind == 1:
        return [rng.randrange(-32768, 32768) for _ in range(n)]
    v, out = 0, []
    for _ in range(n):
        v = max(-32768, min(32767, v + rng.randrange(-900, 901)))
        out.append(v)
    return out


def build(vox, name, rng, shorts, parts, rparts, rty, flags, units=None):
    """(job, twin): `parts` = [(type, count)] write calls, `rparts` = read counts (one caller type: rty)"""
    n = len(shorts)
    calls, at = [], 0
    for i, (ty, k) in enumerate(parts):
        unit = units[i] if units else "if"[(at + i) % 2]
        calls.append((ty, unit, k, widen(rng, ty, shorts[at:at + k], flags)))
        at += k
    assert at == n
    F = 2 * ((n + 1) // 2)
    rops = [("r", rty, "if"[i % 2], k) for i, k in enumerate(rparts)]
    j = B.Job(name, vox, 1, 8000, flags, calls, rops, "partition")
    j.partread = True
    t = B.Job(name + "-twin", vox, 1, 8000, flags, [("s16", "i", n, [v & 0xFFFF for v in shorts])] if n else [],
              [("r", rty, "i", F + 7), ("r", rty, "i", 3)], "twin")
    j.twin = t.name
    j.readtwin = t.name
    j.expect_frames = t.expect_frames = F
    return j, t


ANCHORS = [
    # tag, write calls, read counts
    ("odd-131", [("s16", 1), ("s16", 3), ("s16", 1)], [1, 3, 2, 1, 1]),
    ("odd-one", [("s16", 1)], [1, 1, 1]),
    ("odd-total-types", [("s16", 1), ("s32", 1), ("f32", 1), ("f64", 1), ("s32", 1)], [1, 1, 1, 1, 1, 1, 1]),
    ("odd-pieces", [("s16", 1), ("s16", 1023), ("s16", 513), ("s16", 511), ("s16", 1)], [511, 513, 1, 1023, 1, 3]),
    ("odd-staging", [("s32", 1), ("f64", 4097), ("f32", 4095), ("s32", 8193), ("f64", 1)], [4095, 4097, 1, 8193, 3, 5]),
    ("odd-types", [("f32", 3), ("s32", 5), ("f64", 7), ("s16", 9), ("f32", 1)], [3, 5, 7, 9, 2, 1]),
    ("even-only", [("s16", 2), ("s32", 512), ("f32", 4096), ("f64", 2)], [2, 512, 4096, 2, 2]),
    ("odd-then-end", [("s16", 7)], [5, 5, 5]),             # a request that ends inside the last byte, then one that is cut by the end
    ("odd-last-byte", [("s16", 6)], [5, 1, 1]),
    ("odd-read-then-close", [("s16", 6)], [1]),          # the read handle is closed while it holds a sample
    ("odd-read-then-close-b", [("s32", 700)], [513, 2]),
]


def make_jobs(ctx, njobs):
    rng = ctx.rng
    vox = next(c for c in B.codecs(ctx) if c.kind == "vox")
    jobs = []
    for i, (tag, parts, rparts) in enumerate(ANCHORS):
        n = sum(k for (_, k) in parts)
        for rty in (TYS if n < 100 else [TYS[i % 4]]):
            j, t = build(vox, "vox-%s-%s-%d" % (tag, rty, len(jobs)), rng, signal(rng, n, i % 3), parts, rparts, rty, {})
            jobs += [j, t]
    while len(jobs) < njobs:
        r = rng.random()
        n = rng.choice([0, 1, 2, 3, 4, 5, 511, 512, 513, 1023, 1024, 1025, 4095, 4097]) if r < 0.4 else rng.randrange(0, 600) if r < 0.8 else rng.randrange(600, 9000)
        flags = {}
        if rng.random() < 0.3:
            flags = {"normF": rng.choice([0, 1]), "normD": rng.choice([0, 1])}
        parts, left = [], n
        while left > 0:
            k = min(left, rng.choice(CUTS + [left, left]))
            parts.append((rng.choice(TYS), k))
            left -= k
        F = 2 * ((n + 1) // 2)
        rparts, left = [], F
        while left > 0:
            k = min(left + rng.choice([0, 0, 0, 1, 4]), rng.choice(CUTS + [left, left + 2]))
            rparts.append(k)
            left -= k
        rparts += [rng.choice([1, 2, 3]), 1]
        if rng.random() < 0.25:
            rparts = rparts[:rng.randrange(1, len(rparts))]        # close in the middle of the file (maybe with a sample held)
        j, t = build(vox, "vox-n%d-%d" % (n, len(jobs)), rng, signal(rng, n, rng.randrange(3)), parts, rparts, rng.choice(TYS), flags,
                     units=[rng.choice("if") for _ in parts])
        jobs += [j, t]
    return jobs


def campaign(ctx, njobs):
    jobs = make_jobs(ctx, njobs)
    hs = {j.name: j.harness_script() + "dump s0\n" for j in jobs}        # second dump: after the read handle is closed
    impl = ctx.batch([(j.name, hs[j.name]) for j in jobs], workers=4, clean=True)
    ms = []
    for j in jobs:
        lines = impl.get(j.name, [])
        dump = next((l for l in lines if l.startswith("len=") and "hex=" in l), None)
        ms.append((j.name, j.model_script(dump.split("hex=")[1] if dump is not None else None)))
    model = B.run_model(ctx, ms)
    stats = collections.Counter()
    probs, infos = [], {}
    for j in jobs:
        lines = impl.get(j.name, [])
        p, info = B.analyse(j, hs[j.name][:-len("dump s0\n")], lines, model.get(j.name, []), None)
        infos[j.name] = info
        probs += p
        # a read handle leaves the file alone (codec_close flushes a held sample on WRITE handles only)
        dumps = [l for l in lines if l.startswith("len=") and "hex=" in l]
        if len(dumps) == 2 and dumps[0] != dumps[1]:
            x, y = dumps[0].split("hex=")[1], dumps[1].split("hex=")[1]
            d = next((i for i in range(0, min(len(x), len(y)), 2) if x[i:i + 2] != y[i:i + 2]), min(len(x), len(y)))
            pr = B.Problem(j, "pred", "readonly", "reading the file and closing the read handle changed its bytes (the two `dump` lines): byte %d of %d was %s, is %s (length now %d)"
                           % (d // 2, len(x) // 2, x[d:d + 2] or "<none>", y[d:d + 2] or "<none>", len(y) // 2), None)
            pr.expect = dumps[0].strip()
            probs.append(pr)
        stats["jobs"] += 1
        stats["ops"] += len(j.calls) + len(j.rops) + 3
        stats["frames"] += j.n
        stats["odd_write_calls"] += sum(1 for cl in j.calls if len(cl[3]) % 2)
        stats["odd_read_calls"] += sum(1 for op in j.rops if op[0] == "r" and op[3] % 2)
        stats["odd_totals"] += j.n % 2
        ctx.distinct.add("vox:n%d" % min(j.n, 20))
        ctx.distinct.add("vox:calls%d:%s" % (min(len(j.calls), 8), j.cat))
        # C04: the frame count at re-open
        if "frames" in info and info["frames"] != j.expect_frames:
            probs.append(B.Problem(j, "pred", "frames", "%d frames written, the file re-opens with %d (two samples per byte: %d expected)"
                                   % (j.n, info["frames"], j.expect_frames), None))
    byname = {j.name: j for j in jobs}
    for j in jobs:
        if not j.twin:
            continue
        ia, ib = infos.get(j.name, {}), infos.get(j.twin, {})
        # C07: the same samples, other cuts
        if "datahex" in ia and "datahex" in ib:
            stats["twins"] += 1
            a, b = ia["datahex"], ib["datahex"]
            if a != b:
                d = next((i for i in range(0, min(len(a), len(b)), 2) if a[i:i + 2] != b[i:i + 2]), min(len(a), len(b)))
                pr = B.Problem(j, "pred", "partition", "the same %d samples written in %d calls and in one call give files that differ from byte %d (lengths %d / %d): …%s / …%s"
                               % (j.n, len(j.calls), d // 2, len(a) // 2, len(b) // 2, a[max(0, d - 4):d + 12], b[max(0, d - 4):d + 12]), None)
                pr.twin_script = hs[j.twin]
                probs.append(pr)
        # C05 / C06: the read calls against the twin's one sequential read
        ra = [x for x in ia.get("reads", []) if x[1][0] == "r"]
        rb = [x for x in ib.get("reads", []) if x[1][0] == "r"]
        if ra and rb and "frames" in ia:
            stats["read_twins"] += 1
            F = ia["frames"]
            ref = rb[0][3][:max(rb[0][2], 0)]
            pos = 0
            for (k, t, ret, data) in ra:
                req = int(t[4])
                exp = min(req, max(F - pos, 0))
                if ret != exp:
                    pr = B.Problem(j, "pred", "eof" if pos >= F else "position",
                                   "read of %d items at frame %d of %d returned %d (expected %d)" % (req, pos, F, ret, exp), k)
                    pr.expect = "ret=%d err=0" % exp
                    probs.append(pr)
                    break
                if data[:exp] != ref[pos:pos + exp]:
                    d = next((i for i in range(exp) if pos + i >= len(ref) or data[i] != ref[pos + i]), 0)
                    pr = B.Problem(j, "pred", "stream", "read at frame %d: item %d is %s, one sequential read of the same file delivers %s there"
                                   % (pos, d, data[d] if d < len(data) else "<none>", ref[pos + d] if pos + d < len(ref) else "<none>"), k)
                    pr.twin_script = hs[j.twin]
                    probs.append(pr)
                    break
                pos += exp
    for p in probs:
        p.impl_lines = impl.get(p.job.name, [])
    return probs, stats, hs, jobs


def replay_head(p, script):
    """`expect-last` (what a library that honours the contract answers on the last line) where that is known, else `observed-last`
    (the violating answer: the violation persists while the tree still gives it) -- what `bin/check Cxx --replay f` judges"""
    last = script.strip().split("\n")[-1].split()
    if getattr(p, "expect", None):
        return "expect-last %s\n" % p.expect
    if p.cat == "count" and last[:1] == ["w"]:
        return "expect-last ret=%s err=0\n" % last[4]
    if p.line is not None and not getattr(p, "twin_script", None) and p.line < len(p.impl_lines) and p.cat != "crash":
        return "observed-last %s\n" % p.impl_lines[p.line].strip()
    return ""


def run(ctx, prop, njobs):
    """called from the property's run(); returns True if a failing input was reported"""
    probs, stats, hs, jobs = campaign(ctx, njobs)
    ctx.count(stats["ops"])
    ctx.coverage["traces_validated_against_impl"] += stats["jobs"]
    ctx.notes["vox"] = dict(stats)
    found = False
    reported = set()
    for p in [p for p in probs if p.kind == "pred" and p.cat in CATS[prop]]:
        if p.cat in reported or len(reported) >= 3:
            continue
        reported.add(p.cat)
        found = True
        j = p.job
        script = hs[j.name]
        if p.line is not None and not getattr(p, "twin_script", None):
            script = "\n".join(script.strip().split("\n")[:p.line + 1]) + "\n"
        if getattr(p, "twin_script", None):
            script = hs[j.name] + "# --- the same samples, one write call, one read call:\n" + p.twin_script
        ctx.violation("%s-vox-%s" % (prop.lower(), p.cat),
                      "# %s violated on the implementation's own transcript (OKI/VOX campaign, %s)\n# %s: %d frames in %d write calls\n# %s\n%s--- script\n%s"
                      % (prop, p.cat, j.name, j.n, len(j.calls), p.text, replay_head(p, script), script))
    corr = [p for p in probs if p.kind == "corr"]
    if corr and not found:
        p = corr[0]
        j = p.job
        sl = hs[j.name].strip().split("\n")
        ctx.violation("%s-vox-correspondence" % prop.lower(),
                      "# correspondence stream 'OKI/VOX model (Sf.Oki: writeBlock / closeCarry / readBlock) vs implementation' no longer agrees: %d differences in %d jobs\n"
                      "# first: %s (%s), script line %d: %s\n# %s\n# implementation: %s\n# model: %s\n"
                      "# the %s predicates on the implementation's transcripts found no failing input\n--- script\n%s"
                      % (len(corr), stats["jobs"], j.name, p.cat, p.line or 0, sl[p.line or 0][:100], p.text[:400], (p.impl or "")[:300], (p.model or "")[:300], prop,
                         "\n".join(sl[:(p.line or 0) + 1]) + "\n"), no_input=True)
        found = True
    ctx.sample({"kind": "OKI/VOX job (%s)" % prop, "jobs": stats["jobs"], "example": B.jobs_example(hs)})
    ctx.coverage["rule"] = (ctx.coverage.get("rule", "") + " | vox: one vector of shorts cut into write calls of all four caller types at odd and even positions (anchors: 1+3+1, one sample, "
                            "odd totals, cuts across the 512-sample pieces and the 4096-item staging; random totals 0..9000) and read back in odd / even pieces up to and behind the end, "
                            "against its one-call twin and against Sf.Oki (sampled, not exhaustive)")
    return found
