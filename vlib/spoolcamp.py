"""C19, memory-store world: handles that keep a SECOND file of their own while they are open (the ALAC writer's spool file
<TMPDIR>/…-alac.tmp, reached by name) -- two or three writers of one encoding live at the same time, each writing MORE than one
codec block before any of them closes, all through SF_VIRTUAL_IO (psf->file.name is empty for every one of them).

The all-format campaign of vlib/props/c19.py caps a workload at 1500 frames: an ALAC packet has 4096, so no handle ever touched its
spool file before its own sf_close, and a close both fills and empties the spool in one call -- the handles never had spooled data at
the same time.  Here every write call crosses a packet boundary of its handle, calls of the handles alternate (round-robin, bursts,
and the order in which all handles are written first and closed in the opposite order), and the closed bytes and the read-back are
compared with the solo run like everything else in campaign B.
"""
from . import scripts as S, worldcamp as WC


def workload_text(rng, f, ch, b):
    sr = rng.choice([8000, 44100])
    ty = rng.choice(["s16", "s32"])
    n = 2 * b + rng.choice([1, 57, 300, b - 1])
    L = ["open h0 s0 w fmt=%08x ch=%d sr=%d" % (f.word, ch, sr)]
    left = n
    while left > 0:
        k = min(left, rng.choice([b // 2 + 3, b - 1, b, b + 1, b + b // 3]))
        unit = rng.choice("if")
        L.append(S.w_line("h0", ty, unit, k if unit == "f" else k * ch, WC.values_for(rng, f, ty, k * ch)))
        left -= k
    L += ["close h0", "dump s0 sum", "open h0 s0 r", "info h0", "r h0 s32 f %d q" % (n + 16), "close h0"]
    return "\n".join(L) + "\n"


def groups(ctx, fs, Workload, Group, is_big=lambda f, b: b >= 1024):
    """twins / triplets of every encoding whose codec block is large (ALAC 16 / 20 / 24 / 32), three merges each"""
    rng = ctx.rng
    out = []
    gi = 0
    for f in fs:
        b = WC.block_hint(f)
        if not is_big(f, b):
            continue
        ch = min(f.maxch, rng.choice([1, 2]))
        m = rng.choice([2, 3])
        chunk = [Workload(f, ch, workload_text(rng, f, ch, b), "spool") for _ in range(m)]
        lens = [len(w.lines) for w in chunk]
        # nested: every handle opened and written before the first close, closed in the opposite order
        nw = [sum(1 for l in w.lines if l.startswith(("open h0 s0 w", "w "))) for w in chunk]
        nested = [k for k in range(m) for _ in range(nw[k])] + [k for k in reversed(range(m)) for _ in range(lens[k] - nw[k])]
        for how, order in (("roundrobin", WC.merge_order(rng, lens, "roundrobin")), ("bursts", WC.merge_order(rng, lens, "bursts")), ("nested", nested)):
            out.append(Group("spool%d-%s-%s" % (gi, f.name, how), chunk, order, how))
        gi += 1
    return out
