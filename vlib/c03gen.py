"""C03: constants of the tree under test, extracted by compiling/running against its own headers
(`sfh c03consts`, `sfh table errors`), rendered as lean/SfModel/Generated/C03Consts.lean."""


def parse_consts(text):
    d = {}
    for line in text.split("\n"):
        p = line.split()
        if len(p) == 2:
            d[p[0]] = int(p[1])
    return d


def parse_errtable(text):
    """lines 'k hexmsg' -> {k: message length}"""
    d = {}
    pending = None
    for line in text.split("\n"):
        p = line.split()
        if pending is not None and len(p) == 1:
            d[pending] = 0 if p[0] == "null" else len(p[0]) // 2
            pending = None
        elif len(p) == 2 and p[0].lstrip("-").isdigit():
            d[int(p[0])] = 0 if p[1] == "null" else len(p[1]) // 2
        elif len(p) > 2 and p[0].lstrip("-").isdigit() and "Not a valid error number" in line:
            pending = int(p[0])   # sf_error_number printed its complaint on stdout; the message follows
    return d


def lean_consts(c, errlens):
    mx = c["SFE_MAX_ERROR"]
    lens = [errlens.get(k, 0) for k in range(0, mx + 1)]
    bad = min(errlens.get(-1, 0), errlens.get(mx + 1, 0))
    rows = [", ".join(str(x) for x in lens[j:j + 32]) for j in range(0, len(lens), 32)]
    return """/- GENERATED on every check run from the tree under test (sfh c03consts / sfh table errors), not edited by hand. -/
import SfModel.OpenGate
import SfModel.ReadWrap
namespace Sf.Generated.C03

def openErrs : Sf.OpenGate.Errs :=
  {{ unrecognised := {SF_ERR_UNRECOGNISED_FORMAT}, badOpenMode := {SFE_BAD_OPEN_MODE}, badSfInfoPtr := {SFE_BAD_SF_INFO_PTR},
    rawBadFormat := {SFE_RAW_BAD_FORMAT}, badOffset := {SFE_BAD_OFFSET}, noEmbeddedRdwr := {SFE_NO_EMBEDDED_RDWR},
    zeroMajor := {SFE_ZERO_MAJOR_FORMAT}, zeroMinor := {SFE_ZERO_MINOR_FORMAT}, badOpenFormat := {SFE_BAD_OPEN_FORMAT},
    noEmbedSupport := {SFE_NO_EMBED_SUPPORT}, badModeRw := {SFE_BAD_MODE_RW}, badSfInfo := {SFE_BAD_SF_INFO}, internal := {SFE_INTERNAL} }}

def rwErrs : Sf.ReadWrap.Errs :=
  {{ negativeRwLen := {SFE_NEGATIVE_RW_LEN}, notReadMode := {SFE_NOT_READMODE}, badReadAlign := {SFE_BAD_READ_ALIGN},
    unimplemented := {SFE_UNIMPLEMENTED}, badSeek := {SFE_BAD_SEEK}, notSeekable := {SFE_NOT_SEEKABLE},
    wrongSeek := {SFE_WRONG_SEEK}, ambiguousSeek := {SFE_AMBIGUOUS_SEEK}, seekFailed := {SFE_SEEK_FAILED} }}

/-- the masks and container codes the gate model has as literals, as this tree defines them -/
def maxChannels : Int := {SF_MAX_CHANNELS}
def typeMask : Nat := {SF_FORMAT_TYPEMASK}
def subMask : Nat := {SF_FORMAT_SUBMASK}
def embedContainers : List Nat := [{SF_FORMAT_WAV}, {SF_FORMAT_WAVEX}, {SF_FORMAT_AIFF}, {SF_FORMAT_AU}, {SF_FORMAT_MPEG}, {SF_FORMAT_FLAC}]
def rawContainer : Nat := {SF_FORMAT_RAW}
def modes : List Int := [{SFM_READ}, {SFM_WRITE}, {SFM_RDWR}]

/-- SFE_MAX_ERROR -/
def maxError : Nat := {mx}
/-- strlen (sf_error_number (k)) for k = 0 … SFE_MAX_ERROR, from the running library -/
def errMsgLens : List Nat :=
  [{rows}]
/-- strlen of what sf_error_number returns outside 0 … SFE_MAX_ERROR (probed at -1 and MAX+1) -/
def badErrnumLen : Nat := {bad}

end Sf.Generated.C03
""".format(mx=mx, rows=",\n   ".join(rows), bad=bad, **c)
