"""Generic handle machine campaign (C05 / C06 / C07 / C08; C01 / C04 come with it): whole call HISTORIES on the containers
instantiated in lean/SfModel/HandleGInst*.lean, byte for byte.

`Sf.HandleG` (lean/SfModel/HandleG.lean) is `Sf.Handle`'s step function with the container as a parameter (header writer,
`calc_length` block, position restore rule, tailer, format check, header parser, RDWR rule).  Every job here is a seeded history

    open w | rw  ->  writes through the 4 caller types, item and frame variants / seeks / reads / SFC_UPDATE_HEADER_NOW /
    SFC_SET_UPDATE_HEADER_AUTO / SFC_FILE_TRUNCATE / flag commands  ->  close  ->  dump  ->  re-open r  ->  reads / seeks …
    ->  close  ->  dump  ->  re-open rw  ->  …  ->  close  ->  dump

on one (container, encoding, byte order, channel count); the implementation's transcript (`sfh batch`) is compared with the
model's (`sfmodel handleg`, lean/Driver/HandleG.lean, the same script language) LINE BY LINE including the `dump` lines = the
store bytes.  This is what vlib/handlecheck.py `l1_campaign` does for RAW / AU / WAV on `Sf.Handle`; RAW / AU / WAV run here
too (as instances of the generic machine), so a slip in the generic code shows on the containers `Sf.Handle` is proved about.

A disagreement is followed by the failing-input search: the disagreeing script's own transcript is judged by `Sf.Abs.check`
(vlib/abslean.py); a failing clause is a VIOLATION with that script as replay, otherwise the stream is reported with
`no-failing-input-found`.

    run(ctx, prop, nscripts)          called from vlib/props/c05.py, c06.py, c07.py, c08.py
tools/difftest_handleg.py is the development differ.
"""
import collections, concurrent.futures

from . import scripts as S

LE, BE, CPU = S.LE, S.BE, S.CPU
PCM8S, PCM8U, PCM16, PCM24, PCM32, FLT, DBL, ULAW, ALAW = 0x01, 0x05, 0x02, 0x03, 0x04, 0x06, 0x07, 0x10, 0x11

# name -> (major, [(codec, endian options)], channel counts).  Only what the instance's `accept` takes (the rest prints `unmodelled`
# or is refused by both sides, which is compared as well: a few refused combinations are kept on purpose).
CONTS = collections.OrderedDict([
    ("raw", (0x040000, [(c, [0, LE, BE, CPU]) for c in (PCM8S, PCM8U, PCM16, PCM24, PCM32, FLT, DBL, ULAW, ALAW)], [1, 2, 3, 6])),
    ("au", (0x030000, [(c, [0, LE, BE, CPU]) for c in (PCM8S, PCM16, PCM24, PCM32, FLT, DBL, ULAW, ALAW)], [1, 2, 3, 6])),
    ("wav", (0x010000, [(c, [0, LE, BE, CPU]) for c in (PCM8U, PCM16, PCM24, PCM32, FLT, DBL, ULAW, ALAW)], [1, 2, 3, 6])),
    ("aiff", (0x020000, [(PCM8S, [0]), (PCM8U, [0]), (PCM16, [0, LE, BE, CPU]), (PCM24, [0, LE, BE, CPU]), (PCM32, [0, LE, BE, CPU]),
                         (ULAW, [0]), (ALAW, [0])], [1, 2, 3])),
    ("caf", (0x180000, [(c, [0, LE, BE, CPU]) for c in (PCM8S, PCM16, PCM24, PCM32, ULAW, ALAW)], [1, 2, 3])),
    ("w64", (0x0B0000, [(c, [0]) for c in (PCM8U, PCM16, PCM24, PCM32, FLT, DBL, ULAW, ALAW)], [1, 2, 3])),
    ("avr", (0x120000, [(c, [0, BE]) for c in (PCM8S, PCM8U, PCM16)], [1, 2])),
    ("ircam", (0x0A0000, [(c, [0, LE, BE, CPU]) for c in (PCM16, PCM32, FLT, ULAW, ALAW)], [1, 2, 3])),
    ("paf", (0x050000, [(c, [0, LE, BE, CPU]) for c in (PCM8S, PCM16)], [1, 2, 3])),
    ("htk", (0x100000, [(PCM16, [0, BE])], [1])),
    # second group (lean/SfModel/HandleGInst3.lean).  A few refused combinations are kept (SVX little-endian / stereo, VOC 3 channels).
    ("svx", (0x060000, [(PCM8S, [0, BE, BE, LE]), (PCM16, [0, BE, BE, CPU])], [1, 1, 1, 1, 2])),
    ("mpc2k", (0x210000, [(PCM16, [0, LE])], [1, 2])),
    ("wve", (0x190000, [(ALAW, [0])], [1])),
    ("pvf", (0x0E0000, [(c, [0, BE]) for c in (PCM8S, PCM16, PCM32)], [1, 2, 3])),
    ("mat4", (0x0C0000, [(c, [0, LE, BE, CPU]) for c in (PCM16, PCM32, FLT, DBL)], [1, 2, 3])),
    ("mat5", (0x0D0000, [(c, [0, LE, BE, CPU]) for c in (PCM8U, PCM16, PCM32, FLT, DBL)], [1, 2, 3])),
    ("nist", (0x070000, [(c, [0, LE, BE, CPU]) for c in (PCM8S, PCM16, PCM24, PCM32, ULAW, ALAW)], [1, 2, 3])),
    ("voc", (0x080000, [(c, [0, LE]) for c in (PCM8U, PCM16, ULAW, ALAW)], [1, 2, 1, 2, 1, 2, 3])),
])


def mat5_text(ctx):
    """the 124 text bytes a MAT5 header starts with (package name and version, the harness's pinned date): a parameter of the model,
    taken from a header the library writes (as vlib/small4.py does)"""
    t = getattr(ctx, "_handleg_mat5_text", None)
    if t is None:
        out = ctx.batch([("mat5text", "open h1 s0 w fmt=000d0002 ch=1 sr=8000\nclose h1\ndump s0\n")], workers=1).get("mat5text", [])
        hx = [l.split("hex=", 1)[1].strip() for l in out if l.startswith("len=") and "hex=" in l]
        t = hx[-1][:248] if hx and len(hx[-1]) >= 248 else ""
        ctx._handleg_mat5_text = t
    return t


def instantiated(ctx):
    """names the driver knows (`sfmodel handleg list`)"""
    return [l.strip() for l in ctx.run_model(["handleg", "list"], "").split("\n") if l.strip()]


def entries(names=None):
    out = []
    for name, (major, codecs, chans) in CONTS.items():
        if names is not None and name not in names:
            continue
        for codec, endians in codecs:
            for e in endians:
                out.append((name, major | codec | e, codec, chans))
    return out


def gen(rng, entry, max_ops=24, modes=("w", "r", "rw")):
    name, fmt, codec, chans = entry
    ch = rng.choice(chans)
    # the PEAK clamp of scripts.gen_rw_script keys on the name "wav"; the other float writers with a PEAK chunk get the same treatment
    key = "wav" if (name in ("aiff", "caf") and codec in (FLT, DBL)) else name
    text = S.gen_rw_script(rng, (key, fmt, codec), max_ops=max_ops, modes=modes, ch=ch)
    if rng.random() < 0.2:
        # the rates where the 16-bit rate fields (SVX, MPC2K) saturate and MAT5 changes its rate element
        import re
        text = re.sub(r" sr=\d+", " sr=%d" % rng.choice([65535, 65536]), text)
    return text, ch


def run_model(ctx, scripts, workers=3):
    text = mat5_text(ctx)
    margs = ["handleg"] + (["text=" + text] if text else [])

    def one(chunk):
        inp = "".join("== %s\n%s%s" % (n, t, "" if t.endswith("\n") else "\n") for (n, t) in chunk)
        out = ctx.run_model(margs, inp, timeout=3600)
        res, cur = {}, None
        for line in out.split("\n"):
            if line.startswith("== end"):
                cur = None
            elif line.startswith("== "):
                cur = line[3:]
                res[cur] = []
            elif cur is not None:
                res[cur].append(line)
        return res
    chunks = [c for c in (scripts[i::workers] for i in range(workers)) if c]
    out = {}
    with concurrent.futures.ThreadPoolExecutor(max_workers=len(chunks) or 1) as ex:
        for r in ex.map(one, chunks):
            out.update(r)
    return out


class Diff:
    def __init__(self, name, script, ch, line, impl, model):
        self.name, self.script, self.ch, self.line, self.impl, self.model = name, script, ch, line, impl, model


def campaign(ctx, nscripts, names=None, max_ops=24, rng=None):
    """returns (diffs, crashes, stats, jobs); jobs = [(name, script, ch, impl lines, model lines)]"""
    rng = rng or ctx.rng
    have = set(instantiated(ctx))
    es = [e for e in entries(names) if e[0] in have]
    by = collections.OrderedDict()
    for e in es:
        by.setdefault(e[0], []).append(e)
    conts = list(by)
    scripts, chs = [], {}
    for k in range(nscripts):
        # round robin over the containers, a seeded encoding of each: every container is hit by a thin slice
        lst = by[conts[k % len(conts)]]
        e = lst[rng.randrange(len(lst))]
        text, ch = gen(rng, e, max_ops=max_ops)
        nm = "%s-%08x-c%d-%d" % (e[0], e[1], ch, k)
        scripts.append((nm, text))
        chs[nm] = ch
    impl = ctx.batch(scripts, workers=3)
    model = run_model(ctx, scripts)
    stats = collections.Counter()
    per = collections.Counter()
    diffs, crashes, jobs = [], [], []
    for n, t in scripts:
        i, m = impl.get(n, []), model.get(n, [])
        stats["scripts"] += 1
        k = S.modelled_prefix(m)
        stats["ops"] += k
        per[n.split("-")[0]] += 1
        if "unmodelled" in m:
            stats["partly_unmodelled"] += 1
        stats["dump_lines_compared"] += sum(1 for l in m[:k] if l.startswith("len="))
        for l in i:
            if l.startswith(("CRASH", "ABORT", "TIMEOUT")):
                crashes.append(Diff(n, t, chs[n], len(i) - 1, l, None))
                break
        d = S.first_diff(i, m)
        if d is not None:
            diffs.append(Diff(n, t, chs[n], d, i[d] if d < len(i) else "<missing>", m[d] if d < len(m) else "<missing>"))
        jobs.append((n, t, chs[n], i, m))
        for tag in set(l.split()[0] + (":" + l.split()[2] if l.startswith(("r ", "w ")) else "") for l in t.split("\n") if l):
            ctx.distinct.add("handleg:" + n.split("-")[0] + ":" + tag)
    stats["containers"] = len(conts)
    stats["formats"] = len(es)
    return diffs, crashes, stats, per, jobs


def abs_search(ctx, diffs, limit=6):
    """the failing-input search: Sf.Abs.check on the implementation's own transcript of the disagreeing scripts"""
    from . import abslean
    judge = abslean.Judge(ctx)
    todo = diffs[:limit]
    impl = ctx.batch([(d.name, d.script) for d in todo], workers=3, clean=True)
    for d in todo:
        sl = d.script.strip().split("\n")
        judge.add(d.name, abslean.geom_line(d.ch, 0, "w", trunc=False, strict=False), {}, None, abslean._alive_pairs(sl, impl.get(d.name, []), 0))
    verdicts = judge.run()
    hits = []
    for d in todo:
        v = verdicts.get(d.name)
        if v is not None and v.fails:
            hits.append((d, v.fails[0]))
    return hits


def prefix(script, line):
    sl = script.strip().split("\n")
    return "\n".join(sl[:line + 1]) + "\n"


def run(ctx, prop, nscripts, names=None, max_ops=24):
    import time
    t0 = time.time()
    diffs, crashes, stats, per, jobs = campaign(ctx, nscripts, names=names, max_ops=max_ops)
    ctx.count(stats["ops"], None)
    ctx.coverage["traces_validated_against_impl"] += stats["scripts"]
    ev = dict(stats)
    ev["scripts_per_container"] = dict(per)
    ev["disagreements"] = len(diffs)
    ev["wall_seconds"] = round(time.time() - t0, 1)
    ctx.notes["handleg"] = ev
    if jobs:
        n, t, ch, i, m = jobs[len(jobs) // 2]
        ctx.sample({"kind": "generic handle machine history (Sf.HandleG vs implementation, line by line incl. store dumps)", "name": n,
                    "script": t[:700], "implementation_transcript_head": [l[:160] for l in i[:5]]})
    for c in crashes[:2]:
        ctx.violation("%s-handleg-crash-%s" % (prop.lower(), c.name),
                      "# the implementation died on a history of the generic handle campaign: %s\n--- script\n%s" % (c.impl, prefix(c.script, c.line)))
    if not diffs:
        return ev
    hits = abs_search(ctx, diffs)
    if hits:
        d, (k, tag, text) = hits[0]
        sl = d.script.strip().split("\n")
        ctx.violation("%s-handleg-%s" % (prop.lower(), d.name),
                      "# generic handle campaign: model (Sf.HandleG) and implementation disagree on %d of %d histories, and Sf.Abs.check rejects the implementation's own transcript\n"
                      "# %s, script line %d: %s\n# clause %s: %s\n# first disagreement at line %d: implementation %s | model %s\n--- script\n%s"
                      % (len(diffs), stats["scripts"], d.name, k, sl[k][:120] if k < len(sl) else "", tag, text, d.line, d.impl[:200], (d.model or "")[:200],
                         prefix(d.script, max(k, d.line))))
    else:
        d = diffs[0]
        sl = d.script.strip().split("\n")
        ctx.violation("%s-handleg-correspondence-%s" % (prop.lower(), d.name),
                      "# correspondence stream 'generic handle machine vs implementation' no longer agrees: %d of %d histories differ (containers: %s)\n"
                      "# first: %s, script line %d: %s\n# implementation: %s\n# model (Sf.HandleG): %s\n"
                      "# Sf.Abs.check on the implementation's own transcripts of the disagreeing scripts found no failing input\nobserved-last %s\n--- script\n%s"
                      % (len(diffs), stats["scripts"], ", ".join(sorted(set(x.name.split("-")[0] for x in diffs))), d.name, d.line,
                         sl[d.line][:120] if d.line < len(sl) else "", d.impl[:300], (d.model or "")[:300], d.impl.strip()[:300], prefix(d.script, d.line)),
                      no_input=True)
    return ev
