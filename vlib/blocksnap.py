"""C11 / C07 — block codec x header update BETWEEN PARTIAL BLOCKS (round 9, wbridge3a).

The all-format write campaign draws its partitions and its update points at random; this stage asks for the class on purpose: for every
writable (container, encoding) with a rewritable header whose encoding has a block length B > 1 (IMA / MS ADPCM in WAV / WAVEX / W64 / AIFF, G.72x,
GSM 06.10, NMS ADPCM, PAF24 ...) and for the packet / delta coders whose writer keeps state between calls (SDS, XI DPCM), 1 and 2 channels, the
samples are written as
        B-1 | 2 | B-2 | 1 | B | 1          (3B + 1 frames; B = 1: as 1 | 2 | 1 | 1 | 1 | 1 around an SDS packet edge instead)
with SFC_UPDATE_HEADER_NOW and a copy of the store after EVERY call: the crash points lie inside the first block, right behind the first block
edge, one frame before an edge, ON an edge (twice) and one frame behind one.  The record is judged by the Lean predicate `Sf.AbsWrite.judge`
(clauses snapshot-info / snapshot-frames = floorToBlock (N_k, B) / snapshot-data / snapshot-short, partition): what the theorems
`snap_session_accepted` (lean/SfProofs/AbsWriteBridgeBlock3.lean), `adpcm_snap_session_accepted`, `g72x_snap_session_accepted`, `xi_session_accepted`
say of the models.  Needs no harness additions.
"""
from . import writecamp as W, geometry as G, abswrite as AW, formats
from . import scripts as S


class SnapJob(W.Job):
    """a job whose split run has FIXED parts and an explicit header update + store copy after every call"""
    fixed = ()

    def script_split(self, rng, updates=True):
        ch = self.ch
        self.parts = list(self.fixed)
        L = ["open h0 s1 w fmt=%08x ch=%d sr=%d frames=%d" % (self.fmt.word, ch, self.sr, self.garbage)]
        done = 0
        self.snaps = []
        snap_store = 2
        for pi, k in enumerate(self.parts):
            unit = "if"[pi % 2]
            seg = self.vals[done * ch:(done + k) * ch]
            L.append(S.w_line("h0", self.ty, unit, k if unit == "f" else k * ch, seg))
            done += k
            if snap_store < 10:
                L += ["cmd h0 1060 0 null", "copy s%d s1" % snap_store]
                self.snaps.append((snap_store, done))
                snap_store += 1
        L += ["close h0", "dump s1"]
        for (st, nf) in self.snaps:
            h = "h%d" % (st % 8)
            L += [self.open_r(h, "s%d" % st), "info %s" % h, "r %s %s i %d" % (h, self.ty, (nf + 8) * ch), "close %s" % h]
        return "\n".join(L) + "\n"


STATEFUL_B1 = {0x11: 40, 0x0F: 3}      # SDS (packets of 60 / 40 / 30 samples: 40 sits on the 16-bit edge, inside the others), XI


def make_jobs(ctx):
    rng = ctx.rng
    jobs = []
    for f in formats.writable_formats(ctx):
        if f.major in (0x04, 0x16) or f.codec in (0x70, 0x71, 0x72, 0x73):
            continue                                     # RAW: no header; Ogg; ALAC is assembled at close (outside C11)
        for ch in sorted(set(min(c, f.maxch) for c in (1, 2))):
            sr = 8000
            B = G.block_frames(f, ch, sr)
            if B > 1:
                parts = [B - 1, 2, B - 2, 1, B, 1]
            elif f.major in STATEFUL_B1:
                e = STATEFUL_B1[f.major]
                parts = [e - 1, 2, e - 2, 1, e, 1]
            else:
                continue
            parts = [p for p in parts if p > 0]
            n = sum(parts)
            loss = G.lossless_types(f)
            if loss:
                ty = rng.choice(sorted(loss))
                lowzero = loss[ty]
            else:
                ty, lowzero = rng.choice(["s16", "s32", "f32"]), 0
            unit = (not loss) or f.codec in (0x10, 0x11)
            vals = W.gen_values(rng, ty, n * ch, lowzero, unit=unit and ty in ("f32", "f64"))
            j = SnapJob(f, ch, sr, n, ty, vals, lowzero if loss else None)
            j.fixed = tuple(parts)
            j.garbage = 0
            jobs.append(j)
    return jobs


def run(ctx, prop):
    from .props._write_common import CATS, known_class, in_scope
    jobs = make_jobs(ctx)
    res = W.run_jobs(ctx, jobs, updates=True)
    AW.decide(ctx, res)
    ctx.count(sum(len(r["job"].parts) + 4 + 3 * len(r["job"].snaps) for r in res))
    partial = sum(1 for r in res for (_, nf) in r["job"].snaps if r["job"].B > 1 and nf % r["job"].B)
    edge = sum(1 for r in res for (_, nf) in r["job"].snaps if r["job"].B > 1 and nf % r["job"].B == 0)
    ctx.notes["blocksnap"] = {"jobs": len(jobs), "snapshots": sum(len(r["job"].snaps) for r in res),
                              "block_formats": len(set(r["job"].fmt.name for r in res if r["job"].B > 1)),
                              "snapshots_inside_a_block": partial, "snapshots_on_a_block_edge": edge}
    for r in res:
        ctx.distinct.add("blocksnap:" + r["job"].fmt.name)
    reported = set()
    for r in res:
        j = r["job"]
        for (cat, text, which, line) in r["problems"]:
            if cat not in CATS[prop] or not in_scope(prop, j, cat):
                continue
            kf = known_class(j, cat, text)
            ent = next((k for k in ctx.known if k["id"] == kf and k.get("status") == "known" and prop in k.get("properties", [])), None) if kf else None
            if ent and ctx.witness_still_fails(ent) is not False:
                ctx.known_finding(ent)
                continue
            key = (j.fmt.name, cat)
            if key in reported or sum(1 for k in reported if k[1] == cat) >= 3:
                continue
            reported.add(key)
            ctx.violation("%s-blocksnap-%s-%s" % (prop.lower(), j.fmt.name, cat),
                          AW.replay_text(prop, r, cat, "(block codec x SFC_UPDATE_HEADER_NOW between partial blocks; parts %s) %s" % (list(j.parts), text)))
