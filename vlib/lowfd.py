"""C14 (and C19): descriptor ownership at LOW descriptor numbers.

"sf_close closes a descriptor passed to sf_open_fd exactly when close_desc was true and never touches descriptors it did not open" is
about the HANDLE (do_not_close_descriptor), never about the descriptor's number.  Every other stream of the C14 check runs in a
process whose descriptors 0, 1 and 2 are the harness's own streams, so a handle's descriptor is never below 3 there.  A process that
closed its standard streams gets 0 / 1 from the next open ().  This campaign (deterministic, no seed-sampled part) makes descriptor 0,
1 or both free (harness op `lowfd`, harness/lowfd.c), and then for every route (sf_open, sf_open_fd close_desc 1 / 0), for a writer and
for a reader of what it wrote, for plain handles and for the two kinds that own a second descriptor (SD2 resource fork, ALAC spool
file), with and without a descriptor of the application in front:

  P-close   after sf_close no descriptor of the process refers to the handle's file any more (routes path / fd1: the library closed
            it); on route fd0 the caller's own close () afterwards succeeds (`uclose=0`: the library left it open);
  P-others  every descriptor of the application (sentinels) stays open, on its file, at its offset (vlib/fdworld.py `judge`);
  P-number  the handle's own results (open, counts, errors, data checksum, final file bytes) equal those of the same script run at
            ordinary descriptor numbers (without `lowfd`);
  model     the descriptor table after every operation equals `sfmodel fdworld` (Sf.FdWorld: lowest-free rule from the numbers that
            are taken at `begin`; theorems lean/SfProps/C14LowFd.lean).
A replay holds `c14-lowfd` + `--- script`; `bin/check C14 --replay f` re-judges P-close / P-others / P-number.
"""
import re, time
from . import fdworld as FW

# kind: (format word, channels, ext, sd2, alac writer, routes)
KINDS = {
    "wav": (0x010002, 2, "wav", False, False, ("path", "fd1", "fd0")),
    "au": (0x030001, 1, "au", False, False, ("fd1", "fd0")),
    "sd2": (0x160002, 1, "sd2", True, False, ("path",)),
    "alac": (0x180070, 2, "caf", False, True, ("path", "fd1")),
}
FREE = ["0", "1", "0,1"]


def script(free, kind, route, sentinel_first):
    fmt, ch, ext, sd2, alac, _ = KINDS[kind]
    L = []
    if free:
        L.append("lowfd " + free)
    L.append("fdw begin")
    if sentinel_first:
        L.append("fdw sentinel k0")
    o = "fmt=%08x ch=%d sr=8000 route=%s ext=%s" % (fmt, ch, route, ext)
    L += ["fdw open a0 w " + o, "fdw w a0 %d" % (4200 if alac else 200), "fdw close a0", "fdw sentinel k1",
          "fdw open a0 r " + o, "fdw r a0 120", "fdw close a0", "fdw sentinel k2", "fdw end"]
    return L


def model_lines(L, out, kind, route):
    fmt, ch, ext, sd2, alac, _ = KINDS[kind]
    ml = []
    for op, l in zip(L, out):
        t = op.split()
        if t[0] == "lowfd":
            continue
        if t[1] == "begin":
            ml.append("begin " + (re.search(r"open=([\d,]*)", l).group(1) if "open=" in l else ""))
        elif t[1] in ("sentinel", "unsent"):
            ml.append("%s %s" % (t[1], t[2]))
        elif t[1] == "open":
            ml.append("open a0 route=%s sd2=%d rsrc=1 alacw=%d fails=%d" % (route, 1 if sd2 else 0, 1 if (alac and t[3] == "w") else 0, 0 if l.startswith("open=ok") else 1))
        elif t[1] in ("w", "r"):
            ml.append("io a0")
        elif t[1] == "close":
            ml.append("close a0")
    return ml


def judge(L, out, route):
    """P-close / P-others on one transcript -> list of texts"""
    class S:
        pass
    s = S()
    s.lines = L
    s.owner = [0 if re.match(r"fdw (open|w|r|close) a0", l) else None for l in L]
    probs = [t for (_, t) in FW.judge(s, out)]
    if len(out) != len(L):
        return probs or ["transcript has %d lines for %d operations" % (len(out), len(L))]
    for op, l in zip(L, out):
        if op.startswith("fdw open") and not l.startswith("open=ok"):
            probs.append("`%s` failed: %s" % (op, l[:80]))
        if not op.startswith("fdw close"):
            continue
        res, tab = FW.split(l)
        left = sorted(n for n, who in (tab or {}).items() if who.split(".")[0] == "a0" or who == "tmp")
        if left:
            probs.append("after sf_close descriptor %s still refers to the handle's file (route %s: %s)"
                         % (",".join(str(n) for n in left), route, "the caller closed its own descriptor after sf_close, so the library must have opened another" if route == "fd0"
                            else "the library owns the descriptor and must close it"))
        if route == "fd0" and "uclose=0" not in res:
            probs.append("route fd0 (close_desc = 0): the caller's close () after sf_close answered `%s` -- sf_close closed a descriptor it does not own" % res[:60])
        if route != "fd0" and not res.startswith("ret=0"):
            probs.append("sf_close answered `%s`" % res[:60])
    return probs


def own(L, out):
    return [FW.own_result(FW.split(l)[0]) for op, l in zip(L, out) if re.match(r"fdw (open|w|r|close) a0", op)]


def run(ctx, env):
    """returns True when a failing input was reported"""
    t0 = time.time()
    jobs = []
    for kind, spec in KINDS.items():
        for route in spec[5]:
            jobs.append(("low-ref-%s-%s" % (kind, route), None, kind, route, False))
            for free in FREE:
                for sf in ((False, True) if free == "0,1" else (False,)):
                    jobs.append(("low-%s-%s-%s%s" % (free.replace(",", "+"), kind, route, "-sent" if sf else ""), free, kind, route, sf))
    scripts = {n: script(free, kind, route, sf) for (n, free, kind, route, sf) in jobs}
    out = ctx.batch([(n, "\n".join(L) + "\n") for n, L in scripts.items()], env=env, op_timeout=20, workers=4)
    stats = {"scripts": 0, "handles_on_descriptor_0": 0, "handles_on_descriptor_1": 0, "close_lines": 0, "model_lines": 0, "model_disagreements": 0}
    fails, minp, cmp = [], [], []
    for (n, free, kind, route, sf) in jobs:
        L, o = scripts[n], out.get(n, [])
        stats["scripts"] += 1
        ctx.distinct.add("lowfd:%s:%s:%s" % (free, kind, route))
        for l in o:
            m = re.match(r"open=ok fd=(\d+)", l)
            if m and m.group(1) in ("0", "1"):
                stats["handles_on_descriptor_" + m.group(1)] += 1
        stats["close_lines"] += sum(1 for l in L if l.startswith("fdw close"))
        probs = judge(L, o, route)
        if not probs and free:
            ref = "low-ref-%s-%s" % (kind, route)
            a, b = own(L, o), own(scripts[ref], out.get(ref, []))
            if a != b:
                k = next((j for j in range(min(len(a), len(b))) if a[j] != b[j]), min(len(a), len(b)))
                probs.append("the handle's operation %d answers `%s`; at ordinary descriptor numbers (no `lowfd`) it answers `%s`" % (k, a[k] if k < len(a) else "(nothing)", b[k] if k < len(b) else "(nothing)"))
        if probs:
            fails.append((n, free, kind, route, probs[0], o))
        if len(o) == len(L):
            minp.append("== %s\n%s\n" % (n, "\n".join(model_lines(L, o, kind, route))))
            cmp.append(n)
    mout = ctx.run_model(["fdworld"], "".join(minp)) if minp else ""
    per, cur = {}, None
    for line in mout.split("\n"):
        if line.startswith("== "):
            cur = line[3:]
            per[cur] = []
        elif cur is not None and line:
            per[cur].append(line)
    first_dis = None
    for n in cmp:
        L, o = scripts[n], out.get(n, [])
        pairs = [(op, l) for op, l in zip(L, o) if not op.startswith("lowfd") and not op.startswith("fdw end")]
        ctx.coverage["traces_validated_against_impl"] += 1
        for k, ml in enumerate(per.get(n, [])):
            if k >= len(pairs):
                break
            res, tab = FW.split(pairs[k][1])
            want = "fds=" + ",".join("%d:%s" % (x, w.split("@")[0]) for x, w in sorted((tab or {}).items()) if x >= 0)
            stats["model_lines"] += 1
            if want != ml:
                stats["model_disagreements"] += 1
                if first_dis is None:
                    first_dis = (n, pairs[k][0], want, ml)
                break
    ctx.count(sum(len(L) for L in scripts.values()), "lowfd")
    stats["failures"] = len(fails)
    stats["wall_s"] = round(time.time() - t0, 1)
    ctx.notes["low_descriptor_numbers"] = stats
    if jobs:
        n = jobs[-1][0]
        ctx.sample({"stream": "low descriptor numbers", "script": scripts[n][:6], "transcript": [l[:100] for l in out.get(n, [])[:6]]})
    seen = set()
    for (n, free, kind, route, text, o) in fails:
        key = (kind, route)
        if key in seen or len(seen) >= 4:
            continue
        seen.add(key)
        ctx.violation("lowfd-" + n, "# C14 descriptor ownership must not depend on the descriptor's NUMBER: descriptor(s) %s free when the handle is opened (a process without standard streams), %s, route %s\n"
                      "# %s\n# transcript: %s\nc14-lowfd route=%s\n--- script\n%s\n"
                      % (free, kind, route, text, " / ".join(l[:70] for l in o)[:900], route, "\n".join(scripts[n])))
    if first_dis is not None and not fails:
        n, op, want, ml = first_dis
        ctx.violation("lowfd-correspondence-" + n, "# correspondence stream 'descriptor table at low numbers, Sf.FdWorld vs implementation' no longer agrees (%d scripts)\n# first: `%s`\n# implementation: %s\n# model:          %s\n"
                      "c14-lowfd\n--- script\n%s\n" % (stats["model_disagreements"], op, want, ml, "\n".join(scripts[n])), no_input=True)
        return True
    return bool(fails)


def replay(ctx, path, env):
    text = open(path).read()
    L = [l for l in text.split("--- script", 1)[1].strip().split("\n") if l.strip()]
    m = re.search(r"c14-lowfd route=(\w+)", text)
    route = m.group(1) if m else "path"
    o = ctx.batch([("replay", "\n".join(L) + "\n")], env=env, op_timeout=20)["replay"]
    print("\n".join(l[:200] for l in o))
    probs = judge(L, o, route)
    if not probs:
        R = [l for l in L if not l.startswith("lowfd")]
        ro = ctx.batch([("ref", "\n".join(R) + "\n")], env=env, op_timeout=20)["ref"]
        if own(L, o) != own(R, ro):
            probs.append("the handle answers differently at ordinary descriptor numbers: %s vs %s" % (own(L, o), own(R, ro)))
    if probs:
        print("replay: " + probs[0])
        ctx.report(path)
    else:
        print("replay: sf_close closes exactly the descriptors the handle owns, at descriptor numbers 0 / 1 too (no violation on this tree)")
