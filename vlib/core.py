"""Common machinery of every check: Lean stage, audit, verdict protocol, evidence, known findings."""
import json, os, re, subprocess, sys, time, hashlib, random, concurrent.futures, shutil, tempfile

from . import build

VERIF = build.VERIF
LEAN = build.LEAN_DIR
EVIDENCE_DIR = os.path.join(VERIF, "evidence")
REPLAY_DIR = os.path.join(VERIF, "replays")
KNOWN_FILE = os.path.join(VERIF, "known_findings.jsonl")
ALLOWED_AXIOMS = {"propext", "Classical.choice", "Quot.sound"}
FORBIDDEN = re.compile(r"\b(sorry|admit|native_decide|bv_decide|implemented_by|unsafe)\b|^\s*axiom\s|maxHeartbeats\s+0\b")

TRUSTED_BASE = [
    "Lean 4.33.0 kernel (type-checks every theorem; `lake build`), leanchecker re-check in the thorough tier",
    "axioms permitted in property theorems: propext, Classical.choice, Quot.sound (audited with #print axioms every run); no sorry/admit/native_decide/bv_decide/own axioms",
    "Lean compiler+runtime for the executable reading of the model (sfmodel), used only by the correspondence check",
    "the correspondence check itself: harness sfh (memory/fault SF_VIRTUAL_IO, pinned clock), script generators, differ, bin/check",
    "gcc 12 + AddressSanitizer, glibc, Linux file semantics; x86-64 SSE scalar IEEE-754 arithmetic, round-to-nearest-even, FLT_EVAL_METHOD=0, no FMA contraction",
    "modelled, not verified: libsndfile itself. Theorems are about SfModel; they transfer to the C code on exhaustively enumerated finite domains up to this base, elsewhere to the extent the sampled correspondence validates the code-shaped model",
]


def strip_comments(src):
    """Remove Lean comments (nested block comments and line comments) and string literals."""
    out = []
    i, n, depth = 0, len(src), 0
    while i < n:
        if src.startswith("/-", i):
            depth += 1
            i += 2
            continue
        if depth and src.startswith("-/", i):
            depth -= 1
            i += 2
            continue
        if depth:
            if src[i] == "\n":
                out.append("\n")
            i += 1
            continue
        if src.startswith("--", i):
            while i < n and src[i] != "\n":
                i += 1
            continue
        if src[i] == '"':
            i += 1
            while i < n and src[i] != '"':
                i += 2 if src[i] == "\\" else 1
            i += 1
            out.append('""')
            continue
        out.append(src[i])
        i += 1
    return "".join(out)


def lean_sources(subdirs=("SfModel", "SfProofs", "SfProps", "Driver")):
    res = []
    for sd in subdirs:
        for d, _, files in os.walk(os.path.join(LEAN, sd)):
            for f in sorted(files):
                if f.endswith(".lean"):
                    res.append(os.path.join(d, f))
    for f in ("SfModel.lean", "SfProofs.lean", "SfProps.lean"):
        p = os.path.join(LEAN, f)
        if os.path.exists(p):
            res.append(p)
    return sorted(res)


def forbidden_scan():
    hits = []
    for p in lean_sources():
        code = strip_comments(open(p).read())
        for ln, line in enumerate(code.split("\n"), 1):
            if FORBIDDEN.search(line):
                hits.append("%s:%d: %s" % (os.path.relpath(p, LEAN), ln, line.strip()[:120]))
    return hits


THM_RE = re.compile(r"^\s*(?:@\[[^\]]*\]\s*)?(?:private\s+|protected\s+)?theorem\s+([A-Za-z_][A-Za-z0-9_'.]*)", re.M)


def theorems_of(path):
    """(name, line) of every theorem in a Lean file, qualified by the enclosing namespaces."""
    src = strip_comments(open(path).read())
    res = []
    ns = []
    for ln, line in enumerate(src.split("\n"), 1):
        m = re.match(r"^\s*namespace\s+(\S+)", line)
        if m:
            ns.append(m.group(1))
            continue
        m = re.match(r"^\s*end\s+(\S+)", line)
        if m and ns and ns[-1] == m.group(1):
            ns.pop()
            continue
        m = THM_RE.match(line)
        if m:
            res.append((".".join(ns + [m.group(1)]), ln))
    return res


class Violation(Exception):
    pass


class Ctx:
    def __init__(self, prop, tier, seed):
        self.prop = prop
        self.tier = tier
        self.seed = seed
        self.rng = random.Random((seed * 1000003) ^ int(hashlib.sha256(prop.encode()).hexdigest()[:8], 16))
        self.t0 = time.time()
        self.violations = []      # (replay_path, no_input)
        self.known_printed = []
        self.coverage = {"evaluations": 0, "distinct_nontrivial": 0, "rule": "", "samples": [],
                         "obligations": 0, "discharged": 0, "checker_cmd": "", "trusted_base": list(TRUSTED_BASE),
                         "traces_validated_against_impl": 0, "exhaustive": False}
        self.assumptions = []
        self.notes = {}
        self._generated_backup = {}
        self._sfh = {}
        self.failed_theorems = []
        self.known = load_known(prop)
        self.distinct = set()
        os.makedirs(os.path.join(REPLAY_DIR, prop), exist_ok=True)

    # ---- tools ----
    def sfh(self, variant="asan"):
        if variant not in self._sfh:
            try:
                self._sfh[variant] = build.ensure_harness(variant)
            except build.BuildError as e:
                path = self.write_replay("build-failure", "the library or harness does not build from /repo's working tree (%s)\n\n%s" % (e, e.log[-6000:]))
                self.report(path, no_input=True)
                raise Violation()
        return self._sfh[variant]

    def sfmodel(self):
        return build.sfmodel_exe()

    def budget_left(self, total):
        return total - (time.time() - self.t0)

    # ---- generated tables (extraction by execution) ----
    def set_generated(self, relname, content):
        """Write lean/SfModel/Generated/<relname>; remembers the committed content for restore()."""
        path = os.path.join(LEAN, "SfModel", "Generated", relname)
        old = open(path).read() if os.path.exists(path) else None
        if old == content:
            return False
        if path not in self._generated_backup:
            self._generated_backup[path] = old
        with open(path, "w") as f:
            f.write(content)
        return True

    def restore_generated(self):
        for path, old in self._generated_backup.items():
            if old is None:
                os.unlink(path)
            else:
                with open(path, "w") as f:
                    f.write(old)
        changed = bool(self._generated_backup)
        self._generated_backup = {}
        return changed

    # ---- Lean stage ----
    def lean_stage(self, modules, extra_theorem_files=()):
        """Build the property's theorem module(s) and the driver; audit tokens and axioms.
        Returns list of failed theorem names (empty when everything checks)."""
        cmds = []
        failed = []
        thm_files = [os.path.join(LEAN, m.replace(".", "/") + ".lean") for m in modules]
        thms = []
        for p in thm_files:
            thms += [(n, ln, p) for (n, ln) in theorems_of(p)]
        self.coverage["obligations"] = len(thms)
        self.notes["theorems"] = [n for (n, _, _) in thms]

        cmd = ["lake", "build"] + list(modules) + ["sfmodel"]
        cmds.append("cd lean && " + " ".join(cmd))
        ok, log = build.lean_build(list(modules) + ["sfmodel"])
        if not ok:
            # attribute each error to the closest theorem above it
            errs = re.findall(r"error: (\S+?\.lean):(\d+):(\d+): (.*)", log)
            for (f, ln, col, msg) in errs:
                fp = os.path.join(LEAN, f) if not os.path.isabs(f) else f
                cands = [(n, l) for (n, l, p) in thms if os.path.abspath(p) == os.path.abspath(fp) and l <= int(ln)]
                name = cands[-1][0] if cands else "%s:%s" % (f, ln)
                if name not in failed:
                    failed.append(name)
            if not failed:
                failed.append("lake-build")
            self.notes["lean_log_tail"] = log[-3000:]
        hits = forbidden_scan()
        if hits:
            failed.append("forbidden-token")
            self.notes["forbidden_hits"] = hits[:20]
        cmds.append("grep sorry|admit|axiom|native_decide|bv_decide|implemented_by|unsafe|maxHeartbeats 0 (comments stripped)")

        axioms_seen = set()
        if ok and thms:
            audit = "\n".join(["import %s" % m for m in modules] + ["#print axioms %s" % n for (n, _, _) in thms]) + "\n"
            os.makedirs(os.path.join(LEAN, "SfAudit"), exist_ok=True)
            apath = os.path.join(LEAN, "SfAudit", "Audit_%s.lean" % self.prop)
            with open(apath, "w") as f:
                f.write(audit)
            with build.lean_lock():
                p = build.run(["lake", "env", "lean", apath], cwd=LEAN, check=False, timeout=1800)
                if p.returncode != 0 and "depends on axioms" not in p.stdout and "does not depend on any axioms" not in p.stdout:
                    # nothing at all was printed: the imports could not be loaded (object files being rewritten by a build of another working
                    # process that did not take this lock, e.g. a manual `lake build`): build once more and ask again before this counts
                    build.run(["lake", "build"] + list(modules), cwd=LEAN, check=False, timeout=3600)
                    p = build.run(["lake", "env", "lean", apath], cwd=LEAN, check=False, timeout=1800)
                    self.notes["audit_retried"] = 1
            cmds.append("cd lean && lake env lean SfAudit/Audit_%s.lean   (#print axioms on every theorem)" % self.prop)
            out = p.stdout
            got = {}
            for m in re.finditer(r"'([^']+)' depends on axioms: \[([^\]]*)\]", out, re.S):
                got[m.group(1)] = {a.strip() for a in m.group(2).replace("\n", " ").split(",") if a.strip()}
            for m in re.finditer(r"'([^']+)' does not depend on any axioms", out):
                got[m.group(1)] = set()
            for (n, _, _) in thms:
                if n not in got:
                    failed.append(n + " (no audit output)")
                    continue
                axioms_seen |= got[n]
                bad = got[n] - ALLOWED_AXIOMS
                if bad:
                    failed.append("%s (axioms: %s)" % (n, ", ".join(sorted(bad))))
            if p.returncode != 0 and not failed:
                failed.append("audit-run")
                self.notes["audit_log_tail"] = out[-2000:]
        if ok and self.tier == "thorough":
            for m in modules:
                with build.lean_lock():
                    p = build.run(["lake", "env", "leanchecker", m], cwd=LEAN, check=False, timeout=3600)
                cmds.append("cd lean && lake env leanchecker %s" % m)
                if p.returncode != 0:
                    failed.append("leanchecker:%s" % m)
                    self.notes["leanchecker_log_tail"] = p.stdout[-2000:]
        self.coverage["discharged"] = len(thms) - len([f for f in failed if any(f.startswith(n) for (n, _, _) in thms)]) if not (failed and "lake-build" in failed) else 0
        self.coverage["checker_cmd"] = " ; ".join(cmds)
        self.coverage["axioms_reported"] = sorted(axioms_seen)
        self.coverage["trusted_base"] = list(TRUSTED_BASE) + ["axioms actually reported by #print axioms this run: %s" % (", ".join(sorted(axioms_seen)) or "none")]
        self.failed_theorems = failed
        return failed

    # ---- running the implementation and the model ----
    def run_sfh(self, args, inp, timeout=600, variant="asan", env=None):
        e = dict(os.environ)
        e["ASAN_OPTIONS"] = "exitcode=77:detect_leaks=0:allocator_may_return_null=1:abort_on_error=0"
        if env:
            e.update(env)
        p = subprocess.run([self.sfh(variant)] + args, input=inp, capture_output=True, text=True, timeout=timeout, env=e, errors="replace")
        return p

    def run_model(self, args, inp, timeout=600):
        p = subprocess.run([self.sfmodel()] + args, input=inp, capture_output=True, text=True, timeout=timeout)
        if p.returncode != 0:
            raise RuntimeError("sfmodel %s failed: %s" % (args, p.stderr[-2000:]))
        return p.stdout

    def script(self, text, variant="asan", timeout=600, env=None):
        """Run one script in its own process; returns (lines, returncode, stderr)."""
        p = self.run_sfh(["script"], text, timeout=timeout, variant=variant, env=env)
        return p.stdout.split("\n")[:-1] if p.stdout.endswith("\n") else p.stdout.split("\n"), p.returncode, p.stderr

    TRANSCRIPT_PREFIXES = ("ret=", "open=", "len=", "it=", "err=", "msg=", "size_ret=", "bad-", "ok", "calls=", "balance=", "mask=", "CRASH", "ABORT", "TIMEOUT")

    def batch(self, scripts, variant="asan", op_timeout=10, workers=16, env=None, clean=False, retry_timeouts=True):
        """scripts: list of (name, text). Runs them in forked children inside `workers` harness processes.
        Returns dict name -> list of transcript lines (with CRASH/ABORT/TIMEOUT markers)."""
        if not scripts:
            return {}
        chunks = [scripts[i::workers] for i in range(workers)]
        chunks = [c for c in chunks if c]

        def one(chunk, budget=None):
            inp = "".join("== %s\n%s%s" % (n, t, "" if t.endswith("\n") else "\n") for (n, t) in chunk)
            p = self.run_sfh(["batch", str(budget or op_timeout)], inp, timeout=3600, variant=variant, env=env)
            res = {}
            cur = None
            for line in p.stdout.split("\n"):
                if line.startswith("== end"):
                    cur = None
                elif line.startswith("== "):
                    cur = line[3:]
                    res[cur] = []
                elif cur is not None:
                    # the library itself prints to stdout in a few places (alac.c, sds.c, sf_error_number): with clean=True
                    # only harness transcript lines are kept
                    if clean and not line.startswith(self.TRANSCRIPT_PREFIXES):
                        continue
                    res[cur].append(line)
            return res

        def one_alone(script):
            return one([script], budget=6 * op_timeout)

        out = {}
        with concurrent.futures.ThreadPoolExecutor(max_workers=len(chunks)) as ex:
            for r in ex.map(one, chunks):
                out.update(r)
        # A TIMEOUT (the per-script alarm of `sfh batch`) on a loaded machine is not yet a hang: a script that timed out is run once more, alone,
        # with six times the budget, and the second transcript stands.  A genuine hang times out again (CRASH / ABORT lines are never re-run).
        # At most RETRY_MAX scripts are re-run, so a library change that hangs everywhere costs a bounded amount of time and is still reported.
        if retry_timeouts:
            slow = [(n, t) for (n, t) in scripts if any(l.startswith("TIMEOUT") for l in out.get(n, [])) and not any(l.startswith(("CRASH", "ABORT")) for l in out.get(n, []))]
            retried = 0
            for (n, t) in slow[:self.RETRY_MAX]:
                r = one_alone((n, t))
                retried += 1
                if n in r:
                    out[n] = r[n]
            if slow:
                st = self.notes.setdefault("timeouts_retried", {"scripts_timed_out_in_the_batch": 0, "re_run_alone": 0, "still_timed_out": 0})
                st["scripts_timed_out_in_the_batch"] += len(slow)
                st["re_run_alone"] += retried
                st["still_timed_out"] += sum(1 for (n, t) in slow[:self.RETRY_MAX] if any(l.startswith("TIMEOUT") for l in out.get(n, [])))
        return out

    RETRY_MAX = 12

    # ---- verdicts ----
    def write_replay(self, name, text):
        path = os.path.join(REPLAY_DIR, self.prop, re.sub(r"[^A-Za-z0-9_.-]", "_", name)[:100] + ".txt")
        with open(path, "w") as f:
            f.write(text if text.endswith("\n") else text + "\n")
        return path

    def report(self, replay_path, no_input=False):
        self.violations.append((replay_path, no_input))
        print("VIOLATION property=%s replay=%s%s" % (self.prop, replay_path, " no-failing-input-found" if no_input else ""))
        sys.stdout.flush()

    def violation(self, name, text, no_input=False):
        path = self.write_replay(name, text)
        self.report(path, no_input)
        return path

    def known_finding(self, entry, what=None):
        line = "KNOWN-FINDING: property=%s %s" % (self.prop, what or entry.get("text", entry.get("id", "")))
        if line not in self.known_printed:
            self.known_printed.append(line)
            print(line)
            sys.stdout.flush()

    def count(self, n=1, tag=None):
        self.coverage["evaluations"] += n
        if tag is not None:
            self.distinct.add(tag)

    def sample(self, s, limit=6):
        if len(self.coverage["samples"]) < limit:
            self.coverage["samples"].append(s if len(str(s)) < 2000 else str(s)[:2000] + "…")

    # ---- evidence ----
    def write_evidence(self):
        os.makedirs(EVIDENCE_DIR, exist_ok=True)
        cov = self.coverage
        cov["distinct_nontrivial"] = len(self.distinct)
        cov.update({k: v for k, v in self.notes.items()})
        cov["known_findings_printed"] = self.known_printed
        ev = {"property_id": self.prop, "tier": self.tier, "seed": self.seed, "level": "proof", "coverage": cov,
              "assumptions": self.assumptions, "wall_s": round(time.time() - self.t0, 2), "violations": len(self.violations)}
        with open(os.path.join(EVIDENCE_DIR, "%s.json" % self.prop), "w") as f:
            json.dump(ev, f, indent=1, sort_keys=True)


def load_known(prop):
    res = []
    if os.path.exists(KNOWN_FILE):
        for line in open(KNOWN_FILE):
            line = line.strip()
            if not line or line.startswith("#"):
                continue
            try:
                d = json.loads(line)
            except ValueError:
                continue
            if prop in d.get("properties", [d.get("property")]):
                res.append(d)
    return res


def _replay_script(self, path):
    """Generic replay: the file holds '--- script' followed by harness operations, and optional
    'expect-last <substring>' lines naming what the last transcript line must contain."""
    text = open(path).read()
    if "--- script" not in text:
        print(text)
        print("replay: this file names a theorem / correspondence stream, there is no script to run")
        self.report(path, no_input=True)
        return
    head, script = text.split("--- script", 1)
    script = script.lstrip("\n")
    lines, rc, err = self.script(script)
    print("\n".join(lines))
    bad = rc != 0
    for l in head.split("\n"):
        if l.startswith("expect-last "):
            if not lines or l[len("expect-last "):].strip() not in lines[-1]:
                bad = True
        if l.startswith("observed-last "):
            # the violating line as first observed: the violation persists while the library still answers the same
            if lines and l[len("observed-last "):].strip() == lines[-1].strip():
                bad = True
    if rc != 0:
        sys.stdout.write(err[-3000:])
    if bad:
        self.report(path)
    else:
        print("replay: expectation met (no violation on this tree)")


Ctx.replay_script = _replay_script


def _run_regressions(self):
    """Witnesses of defects repaired by `fix:` commits are corpus entries: they run first on every check and raise the
    violation again if it ever returns (a fixed entry suppresses nothing)."""
    n = 0
    for kf in self.known:
        if kf.get("status") != "fixed" or not kf.get("witness"):
            continue
        path = kf["witness"] if os.path.isabs(kf["witness"]) else os.path.join(VERIF, kf["witness"])
        if not os.path.exists(path):
            continue
        text = open(path).read()
        if "--- script" not in text or "expect-last " not in text:
            continue
        head, script = text.split("--- script", 1)
        lines, rc, err = self.script(script.lstrip("\n"))
        n += 1
        self.count(1, "regression:" + kf["id"])
        ok = rc == 0 and bool(lines)
        for l in head.split("\n"):
            if l.startswith("expect-last ") and (not lines or l[len("expect-last "):].strip() not in lines[-1]):
                ok = False
        if not ok:
            self.violation("regression-" + kf["id"], "# the defect repaired by %s is back: %s\n# last transcript line now: %s\n%s"
                           % (kf.get("commit"), kf.get("text"), lines[-1] if lines else "(none, rc=%d)" % rc, text))
    return n


Ctx.run_regressions = _run_regressions


def _witness_still_fails(self, kf):
    """Replays the witness script of a known-finding entry. It 'still fails' when the last transcript line equals one of its
    `observed-last` lines, or when one of its `expect-last` lines (what a repaired library would answer) is not met.
    Returns None when the witness is not a script (other checks know how to replay those)."""
    w = kf.get("witness")
    if not w:
        return None
    path = w if os.path.isabs(w) else os.path.join(VERIF, w)
    if not os.path.exists(path):
        return None
    text = open(path).read()
    if "--- script" not in text:
        return None
    head, script = text.split("--- script", 1)
    lines, rc, err = self.script(script.lstrip("\n"))
    lines = [l for l in lines if l.startswith(self.TRANSCRIPT_PREFIXES)]
    obs = [l[len("observed-last "):].strip() for l in head.split("\n") if l.startswith("observed-last ")]
    exp = [l[len("expect-last "):].strip() for l in head.split("\n") if l.startswith("expect-last ")]
    if not lines:
        return True
    if obs and any(o == lines[-1].strip() for o in obs):
        return True
    if exp and any(e not in lines[-1] for e in exp):
        return True
    return False


Ctx.witness_still_fails = _witness_still_fails


def modules_for(prop):
    """Lean property modules of a check: every lean/SfProps/*.lean whose name starts with the property id (C04Aiff -> C04), plus the
    files that declare further owners in a header line `-- properties: C04 C11` (first 12 lines). No shared list to edit when a file is added."""
    res = []
    d = os.path.join(LEAN, "SfProps")
    for f in sorted(os.listdir(d)):
        if not f.endswith(".lean"):
            continue
        owners = {f[:3]} if re.match(r"C\d\d", f) else set()
        with open(os.path.join(d, f)) as fh:
            for _ in range(12):
                line = fh.readline()
                m = re.match(r"\s*--\s*properties:\s*(.*)$", line)
                if m:
                    owners |= set(m.group(1).split())
        if prop in owners:
            res.append("SfProps." + f[:-5])
    # the base module first
    res.sort(key=lambda m: (m != "SfProps." + prop, m))
    return res
