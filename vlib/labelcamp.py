"""C02 — codec LABELS and codec WIDTHS of every container (round 9, gap worker gapg; Lean side lean/SfModel/Label.lean, `sfmodel label`).

The kernel campaign of C02 speaks through RAW (no header), the cross-type campaign (vlib/crosstype.py) compares what the library
wrote with what the library reads.  Two kinds of regression are invisible to both:
  * a container's codec LABEL changed the same way in its reader and its writer (seeded/C02-voc-alaw-ulaw-enum-swap: VOC encoding
    numbers 6 / 7 transposed): every own round trip still works, every file that crosses the library boundary is decoded by the wrong law;
  * a codec handed a wrong WIDTH by ONE container (seeded/C02-aiff-dwvw12-init16: `dwvw_init (psf, 16)` for AIFF-C DWVW_12): ints and
    shorts still give twin files, the four read types still agree with each other — but the file keeps 16 bits where the format says 12.

Three deterministic streams (nothing is drawn from the seed):
  L  `label`: for every writable (container, codec, endian) that lean/SfModel/Label.lean tabulates, the library writes a small file; the
     campaign's own chunk walkers locate the label (and the width field) and compare with `Sf.Label.spec` / `Sf.Label.bits`.
  G  `g711-foreign`: for every container that offers u-law / A-law: a FOREIGN file = the bytes in front of and behind the audio of the
     library's file, the label forced to the specification's value (a no-op on the unchanged library), the audio = all 256 codes.  It must
     open as that law and read, through all four caller types, as the G.711 expansion of `sfmodel g711 dec` (lean/SfModel/G711.lean, proved
     equal to the ITU definition in SfProps/C20.lean): "reads of a-law / u-law data in every container that offers them".
  K  `keep`: for every EXACT integer codec (PCM, DWVW, ALAC, 16-bit DPCM, PAF 24-bit, SDS) in every container: ints with non-zero low bits
     written with sf_write_int read back with sf_read_int as `Sf.Label.keepTop w x` — "integer-to-integer moves keep the most significant
     bits (… narrowing truncates …)" with the width w of the FORMAT (vlib/crosstype.py `codec_of`, written from the format definitions);
     decided by `sfmodel label keep` (`Sf.Label.keepOk`).  Two containers that carry the same codec therefore agree item by item
     (lean/SfProps/C02Label.lean `keep_cross_container`); for DWVW the RAW stream must also sit byte for byte in the AIFF-C file's SSND chunk, so
     that a hand-wrapped 12-bit stream is what the AIFF reader is tested on.
"""
import collections, re, struct
from . import formats, kernels as K, crosstype as CT

G711 = {0x10: "ulaw", 0x11: "alaw"}
LE = 0x10000000
BE = 0x20000000


# ---- label locators (independent walkers; None = field not found) ---------------------------------------------------------------------

def _riff_chunks(b, little, start=12, idlen=4):
    p = start
    while p + 8 <= len(b):
        cid, sz = b[p:p + 4], int.from_bytes(b[p + 4:p + 8], "little" if little else "big")
        yield cid, p + 8, sz
        p += 8 + sz + (sz & 1)


def locate(major, b):
    """-> dict(label=('num', v) | ('tag', s) | ('text', s), bits=n, off=(offset, length, byteorder) of the label field) — what is found"""
    out = {}
    try:
        if major in (0x01, 0x13, 0x22):
            little = b[:4] in (b"RIFF", b"RF64")
            bo = "little" if little else "big"
            for cid, p, sz in _riff_chunks(b, little):
                if cid == b"fmt ":
                    tag = int.from_bytes(b[p:p + 2], bo)
                    out["bits"] = int.from_bytes(b[p + 14:p + 16], bo)
                    if tag == 0xFFFE and sz >= 40:
                        out["label"], out["off"] = ("num", int.from_bytes(b[p + 24:p + 28], bo)), (p + 24, 4, bo)
                        out["ext"] = True
                    else:
                        out["label"], out["off"] = ("num", tag), (p, 2, bo)
                    break
        elif major == 0x0B:
            p = 40
            while p + 24 <= len(b):
                sz = int.from_bytes(b[p + 16:p + 24], "little")
                if b[p:p + 4] == b"fmt ":
                    q = p + 24
                    tag = int.from_bytes(b[q:q + 2], "little")
                    out["bits"] = int.from_bytes(b[q + 14:q + 16], "little")
                    out["label"], out["off"] = ("num", tag), (q, 2, "little")
                    break
                if sz < 24:
                    break
                p += (sz + 7) // 8 * 8
        elif major == 0x03:
            bo = "big" if b[:4] == b".snd" else "little"
            out["label"], out["off"] = ("num", int.from_bytes(b[12:16], bo)), (12, 4, bo)
        elif major == 0x02:
            aifc = b[8:12] == b"AIFC"
            for cid, p, sz in _riff_chunks(b, False):
                if cid == b"COMM":
                    out["bits"] = int.from_bytes(b[p + 6:p + 8], "big")
                    if aifc and sz >= 22:
                        out["label"], out["off"] = ("tag", b[p + 18:p + 22].decode("latin1")), (p + 18, 4, "tag")
                    break
        elif major == 0x18:
            p = 8
            while p + 12 <= len(b):
                sz = int.from_bytes(b[p + 4:p + 12], "big", signed=True)
                if b[p:p + 4] == b"desc":
                    q = p + 12
                    out["label"], out["off"] = ("tag", b[q + 8:q + 12].decode("latin1")), (q + 8, 4, "tag")
                    out["bits"] = int.from_bytes(b[q + 28:q + 32], "big")
                    break
                if sz < 0:
                    break
                p += 12 + sz
        elif major == 0x08:
            ty = b[26]
            if ty == 9:
                out["label"], out["off"] = ("num", int.from_bytes(b[36:38], "little")), (36, 2, "little")
            elif ty == 1:
                out["label"], out["off"] = ("num", b[31]), (31, 1, "little")
            elif ty == 8 and b[34] == 1:
                out["label"], out["off"] = ("num", b[39]), (39, 1, "little")
        elif major == 0x07:
            m = re.search(rb"sample_coding -s(\d+) (\S+)", b[:1024])
            if m:
                out["label"], out["off"] = ("text", m.group(2).decode("latin1")), (m.start(2), len(m.group(2)), "text")
        elif major == 0x0A:
            bo = "big" if 1 <= int.from_bytes(b[8:12], "big") <= 1024 else "little"      # (the reader decides the same way: by the channel count)
            out["label"], out["off"] = ("num", int.from_bytes(b[12:16], bo)), (12, 4, bo)
        elif major == 0x05:
            bo = "big" if b[:4] == b" paf" else "little"
            out["label"], out["off"] = ("num", int.from_bytes(b[16:20], bo)), (16, 4, bo)
        elif major == 0x06:
            out["label"], out["off"] = ("tag", b[8:12].decode("latin1")), (8, 4, "tag")
    except (IndexError, ValueError):
        pass
    return out


def force_label(b, off, want):
    """the file with its label field set to the specification's value"""
    p, n, bo = off
    kind, v = want
    if kind == "num":
        nb = int(v).to_bytes(n, bo)
    else:
        nb = v.encode("latin1")
        if len(nb) != n:
            return None
    return b[:p] + nb + b[p + n:]


def spec_table(ctx):
    lab, bits = {}, {}
    for l in ctx.run_model(["label", "table"], "").split("\n"):
        t = l.split()
        if not t:
            continue
        if t[0] == "label":
            v = ("num", int(t[5])) if t[4] == "num" else (t[4], t[5].replace("_", " "))
            lab[(int(t[1], 16), int(t[2], 16), int(t[3]))] = v
        elif t[0] == "bits":
            bits[(int(t[1], 16), int(t[2], 16))] = int(t[3])
    return lab, bits


# ---- the streams ---------------------------------------------------------------------------------------------------------------------------

def g711_expect(ctx, law):
    codes = "".join("%02x" % c for c in range(256))
    return {ty: ctx.run_model(["g711", "dec", law, mty], codes + "\n").strip()
            for ty, mty in (("s16", "s16"), ("s32", "s32"), ("f32", "f32n"), ("f64", "f64n"))}


def det_ints(n):
    """ints with arbitrary low bits: the specials of vlib/crosstype.py first, then a fixed LCG walk in the top half with random low halves"""
    special = [-2**31, 2**31 - 1, -1, 0x000FFFFF, 0x12345678, -0x12345679, 0x7FFF0000, 0x0000FFFF, 0x00FFFFFF, -0x00000100, 0x000000FF, 0x7FFFFF00,
               0x00008000, 0x00000800, 0x00080000, -0x00080001, 0x00100000, 0x000FF000, 1, 0]
    out, x, top = [], 20240930, 0
    for i in range(n):
        if i < len(special):
            out.append(special[i])
            continue
        x = (x * 1103515245 + 12345) & 0x7FFFFFFF
        top = max(-32000, min(32000, top + (x >> 9) % 801 - 400))
        x = (x * 1103515245 + 12345) & 0x7FFFFFFF
        out.append(top * 65536 + (x >> 7) % 65536)
    return out


EXACT = lambda f: (f.codec in (0x01, 0x02, 0x03, 0x04, 0x05, 0x40, 0x41, 0x42, 0x51, 0x70, 0x71, 0x72, 0x73) or f.major == 0x11)


def _open_r(f, h, s, ch=1):
    return ("open %s %s r fmt=%08x ch=%d sr=8000" % (h, s, f.word, ch)) if f.major == 0x04 else ("open %s %s r" % (h, s))


def campaign(ctx):
    stats = collections.Counter()
    lab, bitsT = spec_table(ctx)
    findings = []          # (name, clause, text, replay text)
    fs = [f for f in formats.writable_formats(ctx) if f.major != 0x16]
    # ---------------- L + G: one small mono file per format ----------------
    zero = [0] * 256
    jobs = []
    for f in fs:
        le = 1 if f.endian == LE else 0
        if (f.major, f.codec, le) in lab or (f.major, f.codec) in bitsT or f.codec in G711:
            vals = [((c * 257) & 0xFFFF) for c in range(256)]
            sc = ["open h0 s0 w fmt=%08x ch=1 sr=8000" % f.word, "w h0 s16 i 256 " + K.hex_items(vals, 4), "close h0", "dump s0",
                  "open h1 s1 w fmt=%08x ch=1 sr=8000" % f.word, "w h1 s16 i 256 " + K.hex_items(zero, 4), "close h1", "dump s1"]
            jobs.append((f, le, "lb-%s" % f.name, "\n".join(sc) + "\n"))
    out = ctx.batch([(n, s) for (_, _, n, s) in jobs], clean=True, op_timeout=20)
    expect = {}
    gjobs = []
    for f, le, name, sc in jobs:
        lines = out.get(name, [])
        dumps = [l.split("hex=")[1].strip() for l in lines if l.startswith("len=") and "hex=" in l]
        if len(dumps) != 2 or any(l.startswith(("CRASH", "ABORT", "TIMEOUT")) for l in lines):
            stats["not_written"] += 1
            continue
        b, b0 = bytes.fromhex(dumps[0]), bytes.fromhex(dumps[1])
        loc = locate(f.major, b)
        stats["files"] += 1
        want = lab.get((f.major, f.codec, le))
        wbits = bitsT.get((f.major, f.codec))
        head = "\n".join(sc.split("\n")[:4]) + "\n"
        if want is not None:
            stats["labels_compared"] += 1
            ctx.distinct.add("label:%s" % f.name)
            if loc.get("label") != want:
                findings.append((name, "label-written", "the %s file the library writes carries the codec label %s where the format's specification (Sf.Label.spec %#x %#x) says %s%s"
                                 % (f.name, loc.get("label"), f.major, f.codec, want, " (field at byte offset %d)" % loc["off"][0] if "off" in loc else " (label field not found by the campaign's walker)"),
                                 "%s--- script\n%s" % (_expect_prefix(b, want, loc), head)))
        if wbits is not None and "bits" in loc:
            stats["widths_compared"] += 1
            if loc["bits"] != wbits:
                findings.append((name, "label-width", "the %s file the library writes announces %d bits per sample where the format says %d (Sf.Label.bits)" % (f.name, loc["bits"], wbits),
                                 "--- script\n" + head))
        # ---- G: the foreign G.711 file ----
        if f.codec in G711 and len(b) == len(b0):
            diff = [i for i in range(len(b)) if b[i] != b0[i]]
            if not diff or diff[-1] - diff[0] >= 256 or "off" not in loc and want is not None:
                stats["g711_region_not_found"] += 1
                continue
            # the audio region: 256 bytes that contain every differing byte (both files hold 256 one-byte samples)
            a = diff[-1] - 255 if diff[-1] >= 255 else diff[0]
            cands = [s_ for s_ in range(max(0, diff[-1] - 255), diff[0] + 1)]
            a = cands[-1] if cands else a
            # choose the candidate start at which the zero file holds 256 equal bytes (the code of silence)
            for s_ in cands:
                if len(set(b0[s_:s_ + 256])) == 1:
                    a = s_
                    break
            fb = b[:a] + bytes(range(256)) + b[a + 256:]
            if want is not None and "off" in loc:
                fb2 = force_label(fb, loc["off"], want)
                if fb2 is None:
                    continue
                fb = fb2
            law = G711[f.codec]
            if law not in expect:
                expect[law] = g711_expect(ctx, law)
            gs = ["store s0 " + fb.hex(), _open_r(f, "h0", "s0")]
            for j, ty in enumerate(("s16", "s32", "f32", "f64")):
                gs += ["seek h0 0 0", "r h0 %s i 256" % ty]
            gjobs.append((f, law, "gf-%s" % f.name, "\n".join(gs) + "\n"))
    gout = ctx.batch([(n, s) for (_, _, n, s) in gjobs], clean=True, op_timeout=20)
    for f, law, name, sc in gjobs:
        lines = gout.get(name, [])
        sl = sc.strip().split("\n")
        stats["g711_foreign_files"] += 1
        ctx.distinct.add("g711-foreign:%s" % f.name)
        op = lines[1] if len(lines) > 1 else ""
        m = re.search(r"fmt=([0-9a-f]+)", op)
        if "open=ok" not in op or not m:
            findings.append((name, "g711-open", "a %s file that carries the specification's label for %s is refused: %s" % (f.name, law, op[:120]), "--- script\n" + "\n".join(sl[:2]) + "\n"))
            continue
        if (int(m.group(1), 16) & 0xFFFF) != f.codec and f.major != 0x04:
            findings.append((name, "g711-format", "a %s file whose label is the specification's value for %s opens as sub-format %#06x (expected %#06x)"
                             % (f.name, law, int(m.group(1), 16) & 0xFFFF, f.codec), "expect-last fmt=%08x\n--- script\n%s" % (f.word & 0x0FFFFFFF, "\n".join(sl[:2]) + "\n")))
        for j, ty in enumerate(("s16", "s32", "f32", "f64")):
            k = 3 + 2 * j
            got = lines[k].split("data=")[1].strip() if k < len(lines) and "data=" in lines[k] else ""
            wantd = expect[law][ty]
            stats["g711_items"] += 256
            if got != wantd:
                d = K.TY_DIGITS[ty]
                i = next((i for i in range(256) if got[i * d:(i + 1) * d] != wantd[i * d:(i + 1) * d]), 0)
                fb = bytes.fromhex(sl[0].split()[2])
                findings.append((name, "g711-data", "%s data in a %s file (label = the specification's): code 0x%02x read with sf_read_%s gives %s, ITU-T G.711 (Sf.G711, `sfmodel g711 dec %s`) gives %s; %d of 256 codes differ"
                                 % (law, f.name, i, ty, got[i * d:(i + 1) * d] or "nothing", law, wantd[i * d:(i + 1) * d],
                                    sum(1 for q in range(256) if got[q * d:(q + 1) * d] != wantd[q * d:(q + 1) * d])),
                                 "expect-last data=%s\n--- script\n%s\n%s\nr h0 %s i 256\n" % (wantd, sl[0], sl[1], ty)))
                break
    # ---------------- K: the width rule ----------------
    xs = det_ints(300)
    kjobs = []
    for f in fs:
        cd = CT.codec_of(f)
        if not EXACT(f) or cd is None or cd[0] != "int":
            continue
        n = 4400 if f.codec in (0x70, 0x71, 0x72, 0x73) else 300          # ALAC: beyond one packet
        v = (xs * (n // len(xs) + 1))[:n]
        sc = ["open h0 s0 w fmt=%08x ch=1 sr=8000" % f.word, "w h0 s32 i %d %s" % (n, K.hex_items(v, 8)), "close h0", "dump s0",
              _open_r(f, "h1", "s0"), "r h1 s32 i %d" % n]
        kjobs.append((f, cd[1], n, v, "kp-%s" % f.name, "\n".join(sc) + "\n"))
    kout = ctx.batch([(j[4], j[5]) for j in kjobs], clean=True, op_timeout=30)
    rec, kinfo, raws = [], {}, {}
    for f, w, n, v, name, sc in kjobs:
        lines = kout.get(name, [])
        if len(lines) < 6 or "data=" not in lines[5] or "open=ok" not in lines[4]:
            stats["keep_not_run"] += 1
            continue
        m = re.search(r"ret=(-?\d+)", lines[5])
        ret = int(m.group(1)) if m else 0
        rs = lines[5].split("data=")[1].strip()[:8 * max(ret, 0)]
        rec.append("keep %s w=%d\nxs %s\nrs %s" % (name, w, K.hex_items(v, 8), rs))
        kinfo[name] = (f, w, n, v, sc)
        if f.codec in (0x40, 0x41, 0x42):
            raws[(f.major, f.codec)] = (name, bytes.fromhex(lines[3].split("hex=")[1].strip()))
    verd = {}
    if rec:
        for l in ctx.run_model(["label", "keep"], "\n".join(rec) + "\n").split("\n"):
            if l.strip():
                nm, _, rest = l.partition(" ")
                verd[nm] = rest
    for name, (f, w, n, v, sc) in kinfo.items():
        stats["keep_files"] += 1
        stats["keep_items"] += n
        ctx.distinct.add("keep:%s" % f.name)
        r = verd.get(name, "bad (no verdict)")
        if r.startswith("ok"):
            continue
        mi = re.search(r"i=(\d+) x=([0-9a-f]+) got=([0-9a-f]+) want=([0-9a-f]+)", r)
        if mi:
            i, x = int(mi.group(1)), mi.group(2)
            lo = max(0, i - (0 if f.granular else i))          # codecs with state: keep the prefix
            sl = sc.split("\n")
            one = [sl[0], "w h0 s32 i %d %s" % (i + 1 - lo, K.hex_items(v[lo:i + 1], 8)), "close h0", "dump s0", sl[4], "r h1 s32 i %d" % (i + 1 - lo)]
            findings.append((name, "keep", "%s stores %d-bit samples (\"integer-to-integer moves keep the most significant bits … narrowing truncates\"): the int 0x%s written with sf_write_int reads back "
                             "with sf_read_int as 0x%s, Sf.Label.keepTop %d gives 0x%s (item %d of the vector; `sfmodel label keep`: %s)" % (f.name, w, x, mi.group(3), w, mi.group(4), i, r[:100]),
                             "expect-last data=%s\n--- script\n%s\n" % (K.hex_items([_keep(w, q) for q in v[lo:i + 1]], 8), "\n".join(one))))
        else:
            findings.append((name, "keep", "%s: `sfmodel label keep` says %s" % (f.name, r[:200]), "--- script\n" + sc))
    # DWVW: the headerless stream sits in the AIFF-C file byte for byte (so the AIFF reader is tested on a hand-wrappable stream)
    for c in (0x40, 0x41, 0x42):
        if (0x04, c) in raws and (0x02, c) in raws:
            rn, rb = raws[(0x04, c)]
            an, ab = raws[(0x02, c)]
            stats["dwvw_stream_pairs"] += 1
            if rb not in ab:
                f = kinfo[an][0]
                findings.append((an, "keep-stream", "the same %d ints give another DWVW bit stream in AIFF-C (%s) than in the headerless file (%s): the %d bytes of the RAW file do not occur in the AIFF-C file"
                                 % (kinfo[an][2], an, rn, len(rb)),
                                 "expect-last %s\n--- script\n%s\n" % (rb.hex(), "\n".join(kinfo[an][4].split("\n")[:4]))))      # the AIFF-C dump must CONTAIN the headerless stream
    return findings, stats


def _keep(w, x):
    return (x >> (32 - w)) << (32 - w)


def _expect_prefix(b, want, loc):
    """`expect-last hex=<the file up to and including its label field, the label being the specification's>` (the dump line starts its bytes with `hex=`)"""
    if "off" not in loc:
        return ""
    fb = force_label(b, loc["off"], want)
    if fb is None:
        return ""
    return "expect-last hex=%s\n" % fb[:loc["off"][0] + loc["off"][1]].hex()


def run(ctx):
    findings, stats = campaign(ctx)
    ctx.count(stats["labels_compared"] + stats["widths_compared"] + stats["g711_items"] + stats["keep_items"], tag="labels-widths")
    ctx.coverage["traces_validated_against_impl"] += stats["files"] + stats["g711_foreign_files"] + stats["keep_files"]
    seen = collections.Counter()
    n = 0
    for (name, clause, text, replay) in findings:
        seen[clause] += 1
        if seen[clause] > 2 or n >= 8:
            continue
        n += 1
        ctx.violation("c02-%s-%s" % (clause, name), "# C02, codec labels and widths (vlib/labelcamp.py; lean/SfModel/Label.lean): %s\n%s" % (text, replay))
    stats["failures"] = len(findings)
    ctx.notes["labels_widths"] = dict(stats)
    ctx.sample({"kind": "codec labels / G.711 foreign files / width rule", "labels_compared": stats["labels_compared"], "g711_foreign_files": stats["g711_foreign_files"],
                "keep_files": stats["keep_files"]})
    return n > 0
