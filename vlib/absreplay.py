"""Replay files that re-judge with the Lean predicate (`sfmodel abs`) — C05 / C06 / C08.

A replay written by these checks for a failing clause of `Sf.Abs.check` carries, in front of `--- script`:

    abs-replay 1
    abs-geom geom ch=.. frames=.. mode=.. …      the geometry line the transcript was judged with (vlib/abslean.py geom_line)
    abs-start <k>                               script line the judged lines start at (k counts script lines from 0)
    abs-refread <ty> <k>                        the reference stream of caller type <ty> is what transcript line <k> delivered
                                                (the replay script holds its own sequential reference reads through a separate
                                                handle, h2, in front of the test handle's open: DESIGN §6 "opaque codecs")
    abs-rawrefread <k>                          the same for sf_read_raw
    abs-ref <ty> <hex> / abs-rawref <hex>       a literal reference stream (used when no reference read fits)
    abs-clause <tag> line=<k>                   what the check saw (informational)

`bin/check Cxx --replay f` runs the script on the library under test, builds the driver input from the header and the
transcript, and lets `sfmodel abs` decide: a `bad` verdict is the violation, `ok` means the expectation is met on this tree.
A file without an `abs-geom` line is replayed by the generic `ctx.replay_script`.
"""
import re
from . import abslean

WIDTH = {"s16": 4, "s32": 8, "f32": 8, "f64": 16}
TYS = ["s16", "s32", "f32", "f64"]


def header(geom, start, refreads=None, rawrefread=None, refs=None, rawref=None, clause=None):
    L = ["abs-replay 1", "abs-geom " + geom, "abs-start %d" % start]
    for ty, k in sorted((refreads or {}).items()):
        L.append("abs-refread %s %d" % (ty, k))
    if rawrefread is not None:
        L.append("abs-rawrefread %d" % rawrefread)
    for ty, hx in sorted((refs or {}).items()):
        L.append("abs-ref %s %s" % (ty, hx))
    if rawref is not None:
        L.append("abs-rawref " + rawref)
    if clause:
        L.append("abs-clause %s line=%d" % clause)
    return "\n".join(L) + "\n"


def read_test_replay(script, line, geom, ch, F, raw_open=None, clause=None):
    """replay text (header + script) for a failing line of an all-format read/seek history (vlib/readcamp.py test_phase):
    the script is cut after the failing line and gets one sequential reference read per caller type through h2, in front of
    `open h0`; `line` and the judged range move accordingly"""
    sl = script.strip().split("\n")[:line + 1]
    i0 = next(i for i, l in enumerate(sl) if l.startswith("open h0"))
    open2 = sl[i0].replace("open h0", "open h2", 1)
    extra, refreads = [], {}
    if F > 0:
        for ty in TYS:
            refreads[ty] = i0 + len(extra) + 1
            extra += [open2, "r h2 %s i %d" % (ty, F * ch), "close h2"]
    rawrefread = next((i for i, l in enumerate(sl[:i0]) if l.startswith("rraw h1")), None)
    new = sl[:i0] + extra + sl[i0:]
    start = i0 + len(extra) + 1
    cl = (clause, line + len(extra)) if clause else None
    return header(geom, start, refreads, rawrefread, clause=cl) + "--- script\n" + "\n".join(new) + "\n"


def plain_replay(script, line, geom, start, clause=None):
    """replay text for a history judged from script line `start` on with no reference stream (write phases; RDWR histories
    from the closed empty store)"""
    sl = script.strip().split("\n")[:line + 1]
    return header(geom, start, clause=(clause, line) if clause else None) + "--- script\n" + "\n".join(sl) + "\n"


def _kv(line, key):
    m = re.search(r"(?:^| )%s=(\S*)" % key, line)
    return m.group(1) if m else None


def replay(ctx, path):
    text = open(path).read()
    if "abs-geom " not in text or "--- script" not in text:
        return ctx.replay_script(path)
    head, script = text.split("--- script", 1)
    script = script.lstrip("\n")
    hd = {"refread": {}, "ref": {}, "rawrefread": None, "rawref": None, "start": 0, "geom": None, "clause": None}
    for l in head.split("\n"):
        t = l.split()
        if not t:
            continue
        if t[0] == "abs-geom":
            hd["geom"] = l[len("abs-geom "):].strip()
        elif t[0] == "abs-start":
            hd["start"] = int(t[1])
        elif t[0] == "abs-refread":
            hd["refread"][t[1]] = int(t[2])
        elif t[0] == "abs-rawrefread":
            hd["rawrefread"] = int(t[1])
        elif t[0] == "abs-ref":
            hd["ref"][t[1]] = t[2] if len(t) > 2 else ""
        elif t[0] == "abs-rawref":
            hd["rawref"] = t[1] if len(t) > 1 else ""
        elif t[0] == "abs-clause":
            hd["clause"] = l
    lines, rc, err = ctx.script(script)
    print("\n".join(l if len(l) < 400 else l[:400] + "…" for l in lines))
    sl = script.strip().split("\n")
    m = re.search(r"ch=(\d+) frames=(\d+)", hd["geom"])
    ch, F = int(m.group(1)), int(m.group(2))
    refs = dict(hd["ref"])
    for ty, k in hd["refread"].items():
        if k < len(lines):
            ret, data = _kv(lines[k], "ret"), _kv(lines[k], "data")
            if ret is not None and data is not None and int(ret) == F * ch:
                refs[ty] = data[:F * ch * WIDTH[ty]]
            else:
                print("replay: the reference read of type %s (line %d) delivered %s items instead of %d: stream unknown" % (ty, k, ret, F * ch))
    rawref = hd["rawref"]
    if hd["rawrefread"] is not None and hd["rawrefread"] < len(lines):
        ret, data = _kv(lines[hd["rawrefread"]], "ret"), _kv(lines[hd["rawrefread"]], "data")
        if ret is not None and data is not None and int(ret) > 0:
            rawref = data[:2 * int(ret)]
    judge = abslean.Judge(ctx)
    judge.add("replay", hd["geom"], refs, rawref, abslean.joined_pairs(script, [l for l in lines if l.strip()] if "chunkall" in script else lines, hd["start"]))
    v = judge.run(workers=1)["replay"]
    if hd["clause"]:
        print("replay: recorded by the check: " + hd["clause"])
    print("replay: sfmodel abs (Sf.Abs.holdsOn) on this tree: %s" % (
        "ok n=%d" % v.n if v.status == "ok" else "skip" if v.status == "skip" else
        "; ".join("line %d clause=%s %s" % (hd["start"] + k, tag, tx.strip()) for (k, tag, tx) in v.fails)))
    dead = [l for l in lines if l.startswith(abslean.DEAD)]
    if v.status == "bad" or dead or rc != 0:
        if rc != 0:
            print(err[-2000:])
        ctx.report(path)
    else:
        print("replay: expectation met (no violation on this tree)")
