"""C04 / C08: SETTER COMMANDS issued MID-STREAM, after the handle has grown the file.

Why this exists (round 9, report "SFC_TEST_IEEE_FLOAT_REPLACE issued after audio was written makes the closed WAV / CAF file
report 0 frames"): vlib/cmdops.py puts every position-neutral command between two audio calls of an SFM_RDWR handle, but (1) its
list holds the queries and the header commands only -- none of the commands that SET a conversion option -- and (2) its cells write
INSIDE the frames the file had at open, so a command that falls back to "the state at open" (a re-run init function recomputing
psf->sf.frames / psf->datalength from the file length recorded by sf_open) is invisible there.  The write campaigns of C04 issue
commands only right after sf_open.

What is enumerated (deterministic; the seed only picks the sample values): for EVERY sample-granular (container, encoding) with a
lossless caller type, mono, three handles
     new-w    open w (new file)            new-rw   open rw (new file)            old-rw   open rw on a file of 9 frames
and on each handle one CELL per setter command, one after the other on the same handle:
     write 3 frames at the end (the file grows)  --  the command  --  info  --  position probes  --  write 2 frames (no seek)  --  info
     [rw handles: read back the 5 frames]
then close, fresh open, info, whole-file read.  The commands (SETTERS) are the ones documented to change how samples are CONVERTED or
what goes into the header, never positions or length: SFC_TEST_IEEE_FLOAT_REPLACE on / off, SFC_SET_CLIPPING on / off,
SFC_SET_NORM_FLOAT / _DOUBLE, SFC_SET_SCALE_FLOAT_INT_READ, SFC_SET_SCALE_INT_FLOAT_WRITE, SFC_SET_ADD_PEAK_CHUNK,
SFC_SET_UPDATE_HEADER_AUTO on / off, SFC_RF64_AUTO_DOWNGRADE, SFC_WAVEX_SET_AMBISONIC, SFC_SET_ORIGINAL_SAMPLERATE,
SFC_SET_BITRATE_MODE, SFC_SET_VBR_ENCODING_QUALITY, SFC_SET_COMPRESSION_LEVEL.  The caller type is one the encoding stores without
conversion (float on FLOAT, double on DOUBLE, left-justified ints on PCM), so none of the settings changes a stored value.

THE PREDICATE is Lean: `Sf.Abs.check` through `sfmodel abs`, from the closed empty store on (a command line is `Op.other`: whatever
it answers, the abstract state -- frames, the two positions, the streams -- is the one from before; infoOk / writeOk / readOk /
reopenOk judge the lines around it).  The handle-level model of the command that was wrong is lean/SfModel/IeeeReinit.lean
(theorems lean/SfProps/C04IeeeReinit.lean).
"""
from . import geometry as G, readcamp as R, rdwrtail, abslean, absreplay


def setters(h):
    c = lambda i, size, data="null": "cmd %s %s %d %s" % (h, i, size, data)
    return [("ieee-replace-on", c("6001", 1)), ("ieee-replace-off", c("6001", 0)),
            ("clipping-on", c("10c0", 1)), ("clipping-off", c("10c0", 0)),
            ("norm-float-off", c("1013", 0)), ("norm-float-on", c("1013", 1)),
            ("norm-double-off", c("1012", 0)), ("norm-double-on", c("1012", 1)),
            ("scale-float-int-read", c("1014", 1)), ("scale-int-float-write", c("1015", 1)),
            ("add-peak-chunk-off", c("1050", 0)), ("add-peak-chunk-on", c("1050", 1)),
            ("auto-header-on", c("1061", 1)), ("auto-header-off", c("1061", 0)),
            ("rf64-auto-downgrade", c("1210", 1)), ("wavex-ambisonic", c("1200", 0x40)),
            ("original-samplerate", c("1500", 4, "44ac0000")), ("bitrate-mode", c("1305", 4, "00000000")),
            ("vbr-quality", c("1300", 8, "000000000000e03f")), ("compression-level", c("1301", 8, "000000000000e03f"))]


def script(rng, f, ty, lowzero, kind):
    H = rdwrtail.Hist(rng, f, 1, ty, lowzero, "vio", False)
    if kind == "old-rw":
        H.open("w")
        H.write(9, unit="f")
        H.close()
    H.open("w" if kind == "new-w" else "rw")
    H.cells = []
    for (name, line) in setters(H.h):
        a = len(H.L)
        p = H.F
        H.write(3, unit="f")
        H.op(line)
        H.op("info %s" % H.h)
        if kind != "new-w":
            H.probes()
        H.write(2, unit="i")
        H.op("info %s" % H.h)
        if kind != "new-w":
            H.readback(p, 5)
        H.cells.append((a, len(H.L), name))
    rdwrtail.finish(H)
    return H


def formats_for(ctx):
    from . import formats
    return [f for f in formats.writable_formats(ctx) if f.granular and f.major != 0x16 and G.lossless_types(f)
            and f.codec not in (0x50, 0x51) and not (f.major == 0x05 and f.codec == 0x03) and f.major != 0x11]


def run(ctx, prop, fs=None, quick=True, kinds=("new-w", "new-rw", "old-rw")):
    rng = ctx.rng
    fs = fs if fs is not None else formats_for(ctx)
    st = ctx.notes.setdefault("setter_commands_mid_stream", {"histories": 0, "cells": 0, "commands": len(setters("h0")), "refused_at_open": 0})
    jobs = []
    for i, f in enumerate(fs):
        if not R.raw_bw(f, 1):
            continue
        loss = G.lossless_types(f)
        # the caller type the encoding stores as it is: float on FLOAT, double on DOUBLE, the narrowest int on PCM
        ty = "f64" if f.codec == 0x07 else sorted(loss)[0]
        for kind in kinds:
            H = script(rng, f, ty, loss[ty], kind)
            jobs.append(("setcmds-%s-%s" % (f.name, kind), f, ty, kind, H))
            st["cells"] += len(H.cells)
    st["histories"] += len(jobs)
    out = ctx.batch([(name, H.text()) for (name, f, ty, kind, H) in jobs], clean=True)
    J = abslean.Judge(ctx)
    geoms = {}
    for (name, f, ty, kind, H) in jobs:
        geoms[name] = abslean.geom_line(1, 0, "w", bw=R.raw_bw(f, 1) or 0, strict=True, lossless=[ty])
        J.add(name, geoms[name], {}, None, abslean._alive_pairs(H.L, out.get(name, []), 0))
    verdicts = J.run()
    found = False
    reported = set()
    for (name, f, ty, kind, H) in jobs:
        v = verdicts[name]
        lines = out.get(name, [])
        ctx.count(len(H.L), tag="setter-mid-stream:" + f.name)
        if v.status == "skip":
            st["refused_at_open"] += 1
            continue
        dead = [l for l in lines if l.startswith(abslean.DEAD)]
        prob = None
        if v.first() is not None:
            k, tag, text = v.first()
            prob = (k, tag, "Lean predicate Sf.Abs.check: clause `%s` fails: %s" % (tag, text.strip()))
        elif dead or len(lines) < len(H.L):
            prob = (max(len(lines) - 1, 0), None, "transcript ends early: %s" % (dead[:1] or lines[-1:]))
        if not prob:
            continue
        key = f.name.split("-")[0]
        if key in reported or len(reported) >= 4:
            continue
        reported.add(key)
        found = True
        k, tag, text = prob
        cell = next((c for c in H.cells if c[0] <= k < c[1]), None)
        last = next((c for c in reversed(H.cells) if c[0] <= k), None)
        body = (absreplay.plain_replay(H.text(), k, geoms[name], 0, clause=tag) if tag else "--- script\n" + "\n".join(H.L[:k + 1]) + "\n")
        ctx.violation("%s-%s" % (prop.lower(), name),
                      "# %s violated on the implementation's own transcript: a command that sets a conversion / header option, issued after the handle\n"
                      "# has grown the file, changed the frame count, a position or the stored frames\n"
                      "# format %s, mono, type %s, handle %s\n# at script line %d: %s\n# the command of this cell: %s (a failure behind the close: the last cell, %s)\n# %s\n%s"
                      % (prop, f.name, ty, kind, k, H.L[k][:100] if k < len(H.L) else "", cell[2] if cell else "-", last[2] if last else "-", text, body))
    return found
