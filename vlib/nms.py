"""NMS ADPCM campaign (C05 / C06 / C07 extension): RAW and WAV files with the Natural MicroSystems ADPCM codec, 16 / 24 /
32 kbit/s (2-, 3-, 4-bit codewords, blocks of 160 frames in 42 / 62 / 82 bytes), one channel, against the bit-exact Lean
model (lean/SfModel/Nms.lean, NmsFile.lean; `sfmodel nms script`).

Job kinds
  write      the library writes caller values in several calls of mixed types (item / frame variants), the file is dumped,
             re-opened and read: once in one call (the reference), then by a second handle in pieces with seeks in between
  partition  the same, plus a twin job that writes the same caller values with one call per run of equal type
  modelmade  the data region is made by the model's encoder (`sfmodel nms enc`), stored as a RAW or WAV file, decoded by
             the library
  bytes      the data region is noise / adversarial bytes of any length (also ending inside a block); when it ends inside
             a block a twin job holds the same region completed with zero bytes

Correspondence (kind 'corr'): every write return value, the data region byte for byte, frames at re-open, every read's
return value and every cell of the caller's buffer it wrote (the cells behind them must still hold the 0xA5 fill), every
seek's result.

Property predicates on the implementation's own transcript (kind 'pred'):
  count       (C05) every write returns the count asked
  position    (C05, C06) every read returns min (asked, frames - position)
  eof         (C05) a read at the end returns 0, zero-fills the request and sets no error
  stream      (C05, C06) every read delivers the slice of the one-call reference read at its position — also after refused seeks
  seek        (C06) the handle reports seekable = 0: every sf_seek returns -1 with an error set
  shortblock  (C06) a data region that ends inside a block (and at the end of the file) decodes as if the missing 16-bit
              words were there and zero: the frames of the last block are a function of the words that are there, not of
              what an earlier block left in the codec's buffer (defect repaired by the fix of KF-NMS-SHORT-BLOCK)
  partition   (C07) same caller values, many calls vs. one call per run of equal type vs. calls of at most 1000 items: byte-identical files
"""
import collections, concurrent.futures, struct

from . import scripts as S, kernels as K

DIG = K.TY_DIGITS
TYS = ["s16", "s32", "f32", "f64"]
WAV, RAW = 0x010000, 0x040000
RATES = {16: (0x22, 42), 24: (0x23, 62), 32: (0x24, 82)}          # kbit/s -> (subtype, block bytes)
SPB = 160
SRS = [8000, 44100, 11025, 1, 96000]
LENGTHS = [0, 1, 2, 159, 160, 161, 319, 320, 321, 481, 4095, 4096, 4097, 4255, 4256, 4257]
CONTENTS = ["zero", "extremes", "alternate", "noise", "ramp", "quiet", "impulse", "tone", "loud-quiet", "mixture"]
OWN_KIND = {"C05": "write", "C06": "bytes", "C07": "partition"}
M32 = 0xFFFFFFFF


def fmt_name(word, rate):
    return "%s-nms%d" % ("raw" if (word & 0xFFF0000) == RAW else "wav", rate)


# ---------------------------------------------------------------------------------------------------
# contents: the shorts the codec sees
# ---------------------------------------------------------------------------------------------------

def content(rng, kind, n):
    if n == 0:
        return []
    if kind == "zero":
        return [0] * n
    if kind == "extremes":
        return [rng.choice([32767, -32768, 0, -1, 1, 32766, -32767, 16384, -16384, 8159, -8159, 4, -4]) for _ in range(n)]
    if kind == "alternate":
        a, b = rng.choice([(32767, -32768), (-32768, 32767), (8000, -8000), (1, -1), (32767, 0)])
        return [a if i % 2 == 0 else b for i in range(n)]
    if kind == "noise":
        return [rng.randrange(-32768, 32768) for _ in range(n)]
    if kind == "ramp":
        inc = rng.choice([1, 3, 517, -517, 4099, -1])
        x0 = rng.choice([0, -32768, 32767, rng.randrange(-32768, 32768)])
        return [((x0 + i * inc + 32768) & 0xFFFF) - 32768 for i in range(n)]
    if kind == "quiet":
        a = rng.choice([1, 2, 3, 7, 40])
        return [rng.randrange(-a, a + 1) for _ in range(n)]
    if kind == "impulse":
        out = [0] * n
        for _ in range(rng.choice([1, 1, 2, 3])):
            out[rng.choice([0, n // 2, n - 1, rng.randrange(n)])] = rng.choice([1, -1, 32767, -32768, 256, -5000])
        return out
    if kind == "tone":
        # a triangle wave (no floating point needed): period p, amplitude a
        p, a = rng.choice([8, 20, 50, 160, 333]), rng.choice([100, 3000, 12000, 32767])
        return [(a * (2 * abs(2 * ((i % p) / p) - 1) - 1)).__round__() for i in range(n)]
    if kind == "loud-quiet":
        k = rng.randrange(0, n + 1)
        return content(rng, rng.choice(["noise", "alternate", "tone"]), k) + content(rng, rng.choice(["zero", "quiet"]), n - k)
    out = []
    while len(out) < n:
        k = min(n - len(out), rng.choice([1, 2, 5, 17, 100, 160, 300, 1000]))
        out += content(rng, rng.choice(CONTENTS[:-1]), k)
    return out


def to_caller(rng, ty, x, flags, exact):
    """a caller value (unsigned bit pattern) of type `ty` around the short x; `exact`: one that converts to x exactly"""
    if ty == "s16":
        return x & 0xFFFF
    if ty == "s32":
        return ((x << 16) | (0 if exact else rng.getrandbits(16))) & M32
    frac = 0.0 if exact or rng.random() < 0.5 else rng.choice([0.5, -0.5, 0.25, 0.49999, -0.49999, 0.75, 1.5, 40000.0, -70000.0])
    if ty == "f32":
        return K.f32bits((x + frac) / 32768.0 if flags.get("normF", 1) else float(x) + frac)
    return K.f64bits((x + frac) / 32768.0 if flags.get("normD", 1) else float(x) + frac)


# ---------------------------------------------------------------------------------------------------
# WAV files around a data region
# ---------------------------------------------------------------------------------------------------

def wav_file(rate, sr, data, frames, trailer=b"", declared=None):
    """the header wav_write_header writes for NMS ADPCM (fmt tag 0x38, 16-byte fmt chunk, fact chunk) around `data`"""
    ba = RATES[rate][1]
    fmt = struct.pack("<HHIIHH", 0x38, 1, sr, sr * ba // 160, ba, rate // 8)
    size = len(data) if declared is None else declared
    body = b"WAVE" + b"fmt " + struct.pack("<I", len(fmt)) + fmt + b"fact" + struct.pack("<II", 4, frames) + b"data" + struct.pack("<I", size) + data + trailer
    return b"RIFF" + struct.pack("<I", len(body)) + body


def data_region(raw, filehex):
    """the bytes nms_adpcm_init counts as data: RAW everything; WAV the data chunk, cut at the end of the file"""
    if raw:
        return filehex
    b = bytes.fromhex(filehex)
    i = 12
    while i + 8 <= len(b):
        tag, size = b[i:i + 4], struct.unpack("<I", b[i + 4:i + 8])[0]
        if tag == b"data":
            return b[i + 8:i + 8 + size].hex()
        i += 8 + size + (size & 1)
    return ""


# ---------------------------------------------------------------------------------------------------
# jobs
# ---------------------------------------------------------------------------------------------------

class Job:
    def __init__(self, name, word, rate, sr, flags, kind, cont, calls, rops_a, rops_b, n):
        self.name, self.word, self.rate, self.sr, self.flags, self.kind, self.cont = name, word, rate, sr, flags, kind, cont
        self.calls, self.rops_a, self.rops_b, self.n = calls, rops_a, rops_b, n     # calls: (ty, unit, count, values); rops: ("r", ty, count) | ("seek", off, whence)
        self.raw = (word & 0xFFF0000) == RAW
        self.fmtname = fmt_name(word, rate)
        self.twin = None             # partition: name of the merged-calls job; bytes: name of the zero-completed job
        self.twin2 = None            # partition: name of the job with the same values in calls of at most 1000 items
        self.xs = None               # modelmade: the shorts the model encodes
        self.region = None           # stored kinds: hex of the data region
        self.store = None            # stored kinds: hex of the file
        self.tail = ""               # stored WAV kinds: hex of the bytes of the file behind the data region
        self.lines, self.mk = None, None

    def stored(self):
        return self.kind in ("modelmade", "bytes", "padded")

    def open_r(self, h):
        return ("open %s s0 r fmt=%08x ch=1 sr=%d" % (h, self.word, self.sr)) if self.raw else "open %s s0 r" % h

    def harness_script(self):
        lines, mk = [], []

        def add(l, m=None):
            lines.append(l)
            mk.append(m)
        if self.stored():
            add("store s0 " + (self.store or ""))
        else:
            add("open h1 s0 w fmt=%08x ch=1 sr=%d" % (self.word, self.sr))
            for l in K.flag_cmds("h1", self.flags):
                add(l)
            for (ty, unit, cnt, vals) in self.calls:
                add(S.w_line("h1", ty, unit, cnt, vals), "w")
            add("close h1")
            add("dump s0", "close")
        for h, rops in (("h2", self.rops_a), ("h3", self.rops_b)):
            if rops is None:
                continue
            add(self.open_r(h), "load")
            for l in K.flag_cmds(h, self.flags):
                add(l)
            for op in rops:
                if op[0] == "r":
                    add("r %s %s %s %d" % (h, op[1], op[3] if len(op) > 3 else "i", op[2]), "r")
                else:
                    add("seek %s %d %d" % (h, op[1], op[2]), "seek")
            add("close " + h)
        self.lines, self.mk = lines, mk
        return "\n".join(lines) + "\n"

    def model_script(self, regionhex):
        head = "codec nms rate=%d" % self.rate + "".join(" %s=%d" % (k, v) for k, v in sorted(self.flags.items()))
        lines = [head]
        if not self.stored():
            for (ty, unit, cnt, vals) in self.calls:
                lines.append("w %s %s %d %s" % (ty, unit, cnt, K.hex_items(vals, DIG[ty])))
            lines.append("close")
        for rops in (self.rops_a, self.rops_b):
            if rops is None:
                continue
            lines.append("load %s%s" % (regionhex or "", (" tail=" + self.tail) if self.tail else ""))
            for op in rops:
                lines.append("r %s i %d" % (op[1], op[2]) if op[0] == "r" else "seek %d %d" % (op[1], op[2]))
        return "\n".join(lines) + "\n"


def split_calls(rng, n):
    out, left = [], n
    sizes = [1, 2, 7, 159, 160, 161, 4095, 4096, 4097, n, n] if rng.random() < 0.7 else [1, 1, 2, 3, 7, 29, 100, 160]
    while left > 0:
        k = min(left, rng.choice(sizes))
        if len(out) > 50:
            k = left
        out.append(k)
        left -= k
    return out


def pieces(rng, total):
    out, left = [], total
    sizes = [1, 2, 3, 159, 160, 161, 4095, 4096, 4097, 5000] if total > 400 or rng.random() < 0.3 else [1, 1, 2, 3, 7, 100, 160]
    while left > 0:
        k = min(left, rng.choice(sizes))
        if len(out) > 60:
            k = left
        out.append(k)
        left -= k
    return out


def some_seeks(rng, F):
    return [("seek", 0, 1), rng.choice([("seek", 0, 0), ("seek", 1, 0), ("seek", F, 0), ("seek", -1, 1), ("seek", 0, 2), ("seek", -F, 2), ("seek", F + 1, 0), ("seek", 160, 0)])]


def read_plans(rng, F, ty_a=None):
    """reference pass (one call past the end, a read at the end, seeks, a read at the end) and the pieces pass"""
    ty = ty_a or rng.choice(TYS)
    a = [("r", ty, F + 5, rng.choice("if")), ("r", ty, rng.choice([1, 3, 200]), rng.choice("if"))] + some_seeks(rng, F) + [("r", ty, 2), ("r", ty, 0)]
    b = []
    ps = pieces(rng, F + 3)
    where = {rng.randrange(len(ps)) for _ in range(3)} if ps else set()
    for i, k in enumerate(ps):
        if i in where:
            b += some_seeks(rng, F)
        b.append(("r", ty, k, rng.choice("if")))
    b += some_seeks(rng, F)
    b.append(("r", ty, 4, "i"))
    return a, b


ANCHORS = [   # first jobs of every run: (rate, container, region length in bytes as (whole blocks, extra bytes))
    (32, RAW, (1, 20)),      # the witness of KF-NMS-SHORT-BLOCK: shorts [10, 20) of the second block come from the first
    (24, WAV, (2, 31)), (16, RAW, (1, 1)), (32, WAV, (0, 81)), (16, WAV, (3, 40)), (24, RAW, (1, 44)),
]


def bytes_region(rng, rate, nblocks, extra):
    bb = RATES[rate][1]
    n = nblocks * bb + extra
    style = rng.choice(["noise", "noise", "ff", "zero", "sparse", "nibble"])
    if style == "noise":
        return bytes(rng.getrandbits(8) for _ in range(n))
    if style == "ff":
        return bytes([0xFF]) * n
    if style == "zero":
        return bytes(n)
    if style == "sparse":
        return bytes(rng.choice([0, 0, 0, 0x80, 0x08, 0xFF, rng.getrandbits(8)]) for _ in range(n))
    v = rng.choice([0x77, 0x88, 0x0F, 0xF0, 0x7F, 0xE1])
    return bytes([v]) * n


def make_file(job, region, rng=None, trailer=False):
    if job.raw:
        return region
    tr = b""
    if trailer and len(region) % 2 == 0:
        tr = b"LIST" + struct.pack("<I", 12) + b"INFOISFT" + struct.pack("<I", 0)       # a chunk behind the data: dataend is set
    job.tail = tr.hex()
    return wav_file(job.rate, job.sr, region, (len(region) // RATES[job.rate][1]) * SPB, trailer=tr)


def make_jobs(ctx, njobs, prop):
    rng = ctx.rng
    quick = ctx.tier == "quick"
    budget = 1300 * njobs
    spent = 0
    jobs = []
    k = 0
    own = OWN_KIND[prop]
    rates = sorted(RATES)
    while k < njobs:
        rate = rates[k % 3]
        word = (RAW if (k // 3) % 2 == 0 else WAV) | RATES[rate][0]
        anchor = None
        if k < len(ANCHORS) and prop == "C06":
            rate, cont_, anchor = ANCHORS[k]
            word = cont_ | RATES[rate][0]
            kind = "bytes"
        else:
            kind = own if rng.random() < 0.45 else rng.choice(["write", "partition", "modelmade", "bytes"])
        r = rng.random()
        n = rng.choice(LENGTHS) if r < 0.55 else rng.randrange(0, 500) if r < 0.85 else rng.randrange(500, 6000 if quick else 30000)
        if spent + n > budget * (k + 1) // njobs + (9000 if quick else 40000):
            n = rng.choice(LENGTHS[:10])
        sr = rng.choice(SRS)
        flags = {}
        if kind in ("write", "partition") and rng.random() < 0.25:
            flags = {"normF": rng.choice([0, 1]), "normD": rng.choice([0, 1])}
        cont = rng.choice(CONTENTS)
        name = "%s-n%d-%s-%s-%d" % (fmt_name(word, rate), n, kind, cont, k)
        k += 1
        spent += n
        if kind == "bytes":
            bb = RATES[rate][1]
            nb, extra = anchor if anchor else (min(n // SPB, 24), rng.choice([0, 0, 1, 2, 3, bb // 2 - 1, bb // 2, bb // 2 + 1, bb - 2, bb - 1, rng.randrange(bb)]))
            region = bytes_region(rng, rate, nb, extra)
            F = (nb + (1 if extra else 0)) * SPB
            a, b = read_plans(rng, F)
            j = Job("%s-b%d+%d-bytes-%d" % (fmt_name(word, rate), nb, extra, k - 1), word, rate, sr, flags, "bytes", "bytes", [], a, b, 0)
            j.region = region.hex()
            j.store = make_file(j, region, trailer=rng.random() < 0.3).hex()
            jobs.append(j)
            if extra and not j.tail:
                padded = region[:len(region) & ~1] + bytes(bb - extra + (extra & 1))
                t = Job(j.name + "-padded", word, rate, sr, flags, "padded", "bytes", [], [a[0]], None, 0)
                t.region = padded.hex()
                t.store = make_file(t, padded).hex()
                j.twin = t.name
                jobs.append(t)
            continue
        xs = content(rng, cont, n)
        F = ((n + SPB - 1) // SPB) * SPB
        if kind == "modelmade":
            a, b = read_plans(rng, F)
            j = Job(name, word, rate, sr, flags, kind, cont, [], a, b, n)
            j.xs = xs
            jobs.append(j)
            continue
        tys = TYS if rng.random() < 0.6 else [rng.choice(TYS)]
        exact = rng.random() < 0.5
        calls, i = [], 0
        big = kind == "partition" and rng.random() < 0.2
        if big:
            # one call (or two) longer than the 4096-short staging buffer of the int / float / double entry points
            n = rng.choice([4097, 4257, 8193, 4096 + rng.randrange(2, 3000)])
            xs = content(rng, cont, n)
            F = ((n + SPB - 1) // SPB) * SPB
            tys = [rng.choice(["s32", "f32", "f64"])]
            name = "%s-n%d-%s-%s-%d" % (fmt_name(word, rate), n, kind, cont, k - 1)
            spent += n
        tail = 4097 - rng.randrange(0, 2)
        for c in (split_calls(rng, n) if not big else [n] if rng.random() < 0.6 else [n - tail, tail]):
            ty = rng.choice(tys)
            vals = [to_caller(rng, ty, x, flags, exact) for x in xs[i:i + c]]
            calls.append((ty, rng.choice("if"), c, vals))
            i += c
        a, b = read_plans(rng, F)
        if kind == "partition":
            b = None
            a = a[:1]
        j = Job(name, word, rate, sr, flags, kind, cont, calls, a, b, n)
        jobs.append(j)
        if kind == "partition" and n > 0:
            merged = []
            for (ty, unit, cnt, vals) in calls:
                if merged and merged[-1][0] == ty:
                    merged[-1] = (ty, "i", merged[-1][2] + cnt, merged[-1][3] + vals)
                else:
                    merged.append((ty, "i", cnt, list(vals)))
            t = Job(name + "-twin", word, rate, sr, flags, "twin", cont, merged, a, None, n)
            j.twin = t.name
            jobs.append(t)
            spent += n
            if max(c[2] for c in calls) > 1000:
                # second twin: no call longer than 1000 items, so no call crosses a boundary of the 4096-short staging buffer
                small = []
                for (ty, unit, cnt, vals) in calls:
                    for o in range(0, cnt, 1000):
                        small.append((ty, unit, min(1000, cnt - o), vals[o:o + 1000]))
                t2 = Job(name + "-small", word, rate, sr, flags, "twin", cont, small, a, None, n)
                j.twin2 = t2.name
                jobs.append(t2)
                spent += n
    return jobs


# ---------------------------------------------------------------------------------------------------
# running the model
# ---------------------------------------------------------------------------------------------------

def model_encode(ctx, jobs):
    by = collections.defaultdict(list)
    for j in jobs:
        if j.kind == "modelmade":
            by[j.rate].append(j)

    def one(rate):
        js = by[rate]
        inp = "".join(K.hex_items(j.xs, 4) + "\n" for j in js)
        out = ctx.run_model(["nms", "enc", str(rate)], inp, timeout=3600).split("\n")
        for j, l in zip(js, out):
            j.region = l.strip()
            j.store = make_file(j, bytes.fromhex(j.region)).hex()
        return len(js)

    if by:
        with concurrent.futures.ThreadPoolExecutor(max_workers=len(by)) as ex:
            list(ex.map(one, sorted(by)))


def run_model(ctx, scripts, workers=3):
    chunks = [scripts[i::workers] for i in range(workers)]
    chunks = [c for c in chunks if c]

    def one(chunk):
        inp = "".join("== %s\n%s" % (n, t) for (n, t) in chunk)
        out = ctx.run_model(["nms", "script"], inp, timeout=3600)
        res, cur = {}, None
        for line in out.split("\n"):
            if line.startswith("== "):
                cur = line[3:]
                res[cur] = []
            elif cur is not None and line:
                res[cur].append(line)
        return res

    out = {}
    with concurrent.futures.ThreadPoolExecutor(max_workers=len(chunks) or 1) as ex:
        for r in ex.map(one, chunks):
            out.update(r)
    return out


# ---------------------------------------------------------------------------------------------------
# analysis
# ---------------------------------------------------------------------------------------------------

def kv(line):
    d = {}
    for t in line.split():
        if "=" in t:
            a, b = t.split("=", 1)
            d[a] = b
    return d


def dump_hex(lines):
    l = next((l for l in lines if l.startswith("len=") and "hex=" in l), None)
    if l is None:
        return "" if any(l.startswith("len=0") for l in lines) else None
    return l.split("hex=")[1].strip()


class Problem:
    def __init__(self, job, kind, cat, text, line=None, impl=None, model=None, expect=None):
        self.job, self.kind, self.cat, self.text, self.line, self.impl, self.model, self.expect = job, kind, cat, text, line, impl, model, expect
        self.twin_script = None


def analyse(job, impl, model):
    probs = []
    sl, mk = job.lines, job.mk
    info = {"datahex": None, "filehex": None, "items": 0, "bytes": 0, "reads": 0, "seeks": 0, "first": None, "firstline": None}
    died = next((l for l in impl if l.startswith(("CRASH", "ABORT", "TIMEOUT"))), None)
    if died is not None:
        return [Problem(job, "pred", "crash", "implementation died: " + died, max(0, min(len(impl), len(sl)) - 1))], info
    if len(impl) < len(sl):
        return [Problem(job, "pred", "crash", "transcript ends early (%d of %d lines)" % (len(impl), len(sl)), len(impl))], info
    mi = 0
    F, pos, ref, broken, seekable = 0, 0, None, False, False
    for k, (op, out) in enumerate(zip(sl, impl)):
        t = op.split()
        m = None
        if mk[k] is not None:
            m = model[mi] if mi < len(model) else "<missing>"
            mi += 1
        if t[0] == "open":
            if "open=ok" not in out:
                probs.append(Problem(job, "pred", "open", "open failed: %s" % out[:200], k))
                return probs, info
            if t[3] == "r":
                a = kv(out)
                F, pos, broken = int(a.get("frames", -1)), 0, False
                seekable = a.get("seekable") == "1"
                if m.strip() != "frames=%d" % F:
                    probs.append(Problem(job, "corr", "frames", "frames after re-open", k, out, m))
                # C04 / C05 on the implementation's own transcript (round 5): N frames written re-open as N <= F < N + 160
                if not job.stored() and not (job.n <= F < job.n + 160):
                    probs.append(Problem(job, "pred", "frames", "%d frames written, the file re-opens with %d frames (not in [N, N + 160))" % (job.n, F), k,
                                         expect="frames=%d " % (((job.n + 159) // 160) * 160)))
        elif t[0] == "w":
            if S.normalise(out) != S.normalise(m):
                probs.append(Problem(job, "corr", "write", "write return value", k, out, m))
            if kv(out).get("ret") != t[4]:
                probs.append(Problem(job, "pred", "count", "write of %s items returned %s" % (t[4], kv(out).get("ret")), k, expect="ret=%s " % t[4]))
        elif t[0] == "dump":
            fh = out.split("hex=")[1].strip() if "hex=" in out else ""
            info["filehex"] = fh
            data = data_region(job.raw, fh)
            info["datahex"] = data
            md = m.split("data=")[1].strip() if "data=" in m else ("" if m.strip() == "data=" else "?")
            info["bytes"] = len(data) // 2
            if data != md:
                d = next((i for i in range(0, min(len(data), len(md)), 2) if data[i:i + 2] != md[i:i + 2]), min(len(data), len(md)))
                probs.append(Problem(job, "corr", "bytes", "data region differs from byte %d (lengths %d / %d): implementation …%s model …%s"
                                     % (d // 2, len(data) // 2, len(md) // 2, data[max(0, d - 8):d + 24], md[max(0, d - 8):d + 24]), k,
                                     "len=%d" % (len(data) // 2), "len=%d" % (len(md) // 2)))
        elif t[0] == "r":
            ty, req = t[2], int(t[4])
            w = DIG[ty]
            a, b = kv(out), kv(m)
            ret = int(a.get("ret", -1))
            da, db = a.get("data", ""), b.get("data", "")
            fill = "a5" * (w // 2)
            untouched = all(da[i:i + w] == fill for i in range(len(db), len(da), w))
            if a.get("ret") != b.get("ret") or da[:len(db)] != db or not untouched or (a.get("err") == "0") != (b.get("err") == "0"):
                probs.append(Problem(job, "corr", "read", "read result (return value, written cells, untouched cells)", k, out[:300], m[:300]))
            info["reads"] += 1
            info["items"] += max(ret, 0)
            got = [da[i:i + w] for i in range(0, max(ret, 0) * w, w)]
            exp = min(req, max(F - pos, 0))
            if info["firstline"] is None and t[1] == "h2":
                ref = got
                info["first"], info["firstline"] = got, k
            elif ref is not None:
                c = min(len(got), max(len(ref) - pos, 0))
                d = next((i for i in range(c) if got[i] != ref[pos + i]), None)
                if d is not None and not broken:
                    probs.append(Problem(job, "pred", "stream", "read of %d items at frame %d: item %d is %s, the one-call read of the same file delivered %s there"
                                         % (req, pos, d, got[d], ref[pos + d]), k, expect="data=" + "".join(ref[pos:pos + c])))
                    broken = True
            if ret != exp and not broken:
                probs.append(Problem(job, "pred", "position", "read of %d items at frame %d of %d returned %d" % (req, pos, F, ret), k, expect="ret=%d " % exp))
                broken = True
            if req > 0 and pos >= F and not broken:
                zero = "0" * (req * w)
                if ret != 0 or da != zero or a.get("err") != "0":
                    probs.append(Problem(job, "pred", "eof", "read of %d items at the end of the data: ret=%s err=%s, request %szero-filled" % (req, a.get("ret"), a.get("err"), "" if da == zero else "not "),
                                         k, expect="ret=0 err=0 data=" + zero))
            pos += max(ret, 0)
        elif t[0] == "seek":
            a, b = kv(out), kv(m)
            if a.get("ret") != b.get("ret") or (a.get("err") == "0") != (b.get("err") == "0"):
                probs.append(Problem(job, "corr", "seek", "seek result", k, out, m))
            info["seeks"] += 1
            if not seekable and (a.get("ret") != "-1" or a.get("err") == "0"):
                probs.append(Problem(job, "pred", "seek", "the handle reports seekable=0 but sf_seek (%s, %s) returned %s err=%s" % (t[2], t[3], a.get("ret"), a.get("err")), k, expect="ret=-1 "))
    return probs, info


def campaign(ctx, njobs, prop):
    jobs = make_jobs(ctx, njobs, prop)
    model_encode(ctx, jobs)
    hs = {j.name: j.harness_script() for j in jobs}
    impl = ctx.batch([(j.name, hs[j.name]) for j in jobs], workers=4, clean=True)
    ms = []
    for j in jobs:
        if j.stored():
            region = j.region
        else:
            fh = dump_hex(impl.get(j.name, []))
            region = data_region(j.raw, fh) if fh is not None else ""
        ms.append((j.name, j.model_script(region)))
    model = run_model(ctx, ms)
    stats = collections.Counter()
    probs, infos = [], {}
    for j in jobs:
        p, info = analyse(j, impl.get(j.name, []), model.get(j.name, []))
        infos[j.name] = info
        probs += p
        stats["jobs"] += 1
        stats["ops"] += len(j.lines)
        stats["frames_written"] += 0 if j.stored() else j.n
        stats["items_read_and_compared"] += info["items"]
        stats["reads_compared"] += info["reads"]
        stats["seeks_compared"] += info["seeks"]
        stats["data_region_bytes_compared"] += info["bytes"]
        stats["fmt:" + j.fmtname] += 1
        stats["kind:" + j.kind] += 1
        if j.stored():
            stats["stored_region_bytes"] += len(j.region or "") // 2
            if j.kind == "bytes" and (len(j.region) // 2) % RATES[j.rate][1]:
                stats["regions_ending_inside_a_block"] += 1
        ctx.distinct.add("nms:%s:%s" % (j.fmtname, j.kind))
        ctx.distinct.add("nms:content:%s" % j.cont)
    byname = {j.name: j for j in jobs}
    for j in jobs:
        if not j.twin:
            continue
        t = byname[j.twin]
        if j.kind == "partition":
            for t in [byname[x] for x in (j.twin, j.twin2) if x]:
                a, b = infos[j.name].get("filehex"), infos[t.name].get("filehex")
                if a is None or b is None:
                    continue
                stats["twins_compared"] += 1
                if a != b:
                    d = next((i for i in range(0, min(len(a), len(b)), 2) if a[i:i + 2] != b[i:i + 2]), min(len(a), len(b)))
                    pr = Problem(j, "pred", "partition", "the same caller values written in %d calls and in %d calls give files that differ from byte %d (lengths %d / %d)"
                                 % (len(j.calls), len(t.calls), d // 2, len(a) // 2, len(b) // 2), None)
                    pr.twin_script = hs[t.name]
                    probs.append(pr)
                    break
        else:
            a, b = infos[j.name].get("first"), infos[t.name].get("first")
            if a is None or b is None:
                continue
            stats["short_block_twins_compared"] += 1
            if a != b:
                d = next((i for i in range(min(len(a), len(b))) if a[i] != b[i]), min(len(a), len(b)))
                probs.append(Problem(j, "pred", "shortblock", "the data region ends %d bytes into a block: frame %d decodes to %s, but to %s when the missing bytes are there and zero (%d / %d frames)"
                                     % ((len(j.region) // 2) % RATES[j.rate][1], d, a[d] if d < len(a) else "-", b[d] if d < len(b) else "-", len(a), len(b)),
                                     infos[j.name]["firstline"], expect="data=" + "".join(b)))
    return jobs, hs, probs, stats


CATS = {
    "C05": {"count", "frames", "position", "eof", "stream", "crash", "open"},
    "C06": {"stream", "position", "seek", "shortblock", "crash", "open"},
    "C07": {"partition", "crash", "open"},
}


def run(ctx, prop, njobs):
    """called from the property's run(): reports violations; returns True if something was reported"""
    jobs, hs, probs, stats = campaign(ctx, njobs, prop)
    ctx.count(stats["ops"])
    ctx.coverage["traces_validated_against_impl"] += stats["jobs"]
    corr = [p for p in probs if p.kind == "corr"]
    corr_jobs = {p.job.name for p in corr}
    found = False
    reported = set()
    for p in probs:
        if p.kind != "pred" or p.cat not in CATS[prop]:
            continue
        j = p.job
        key = (j.fmtname, p.cat)
        if key in reported or len(reported) >= 3:
            continue
        reported.add(key)
        found = True
        sl = j.lines
        script = "\n".join(sl[:p.line + 1] if p.line is not None else sl) + "\n"
        if p.twin_script:
            script = hs[j.name] + "# --- the same caller values in other calls:\n" + p.twin_script
        head = ""
        if p.expect and p.line is not None:
            head = "expect-last %s\n" % p.expect
        ctx.violation("%s-nms-%s-%s" % (prop.lower(), j.fmtname, p.cat),
                      "# %s violated on the implementation's own transcript (NMS ADPCM campaign, predicate '%s')\n# format %s (%08x), 1 channel, job kind %s, %s\n# %s\n%s--- script\n%s"
                      % (prop, p.cat, j.fmtname, j.word, j.kind, ("%d frames, content %s" % (j.n, j.cont)) if not j.stored() else ("data region of %d bytes" % (len(j.region or "") // 2)), p.text, head, script))
    if corr and not found:
        p = corr[0]
        j = p.job
        ln = p.line or 0
        ctx.violation("%s-nms-correspondence-%s" % (prop.lower(), j.fmtname),
                      "# correspondence stream 'NMS ADPCM model (Sf.Nms) vs implementation' no longer agrees: %d differences in %d of %d jobs\n"
                      "# first: %s (%s), script line %d: %s\n# %s\n# implementation: %s\n# model: %s\n"
                      "# the %s predicates on the implementation's transcripts found no failing input\n--- script\n%s"
                      % (len(corr), len(corr_jobs), stats["jobs"], j.name, p.cat, ln, j.lines[ln][:100], p.text[:400], (p.impl or "")[:300], (p.model or "")[:300], prop,
                         "\n".join(j.lines[:ln + 1]) + "\n"), no_input=True)
        found = True
    note = {k: v for k, v in sorted(stats.items())}
    note["correspondence_differences"] = len(corr)
    note["predicate_failures_by_category"] = dict(collections.Counter(p.cat for p in probs if p.kind == "pred"))
    ctx.notes["nms"] = note
    ctx.sample({"kind": "NMS ADPCM job (%s)" % prop, "jobs": stats["jobs"], "example": next((t for t in hs.values() if len(t) < 900), next(iter(hs.values()))[:900])})
    ctx.coverage["rule"] = (ctx.coverage.get("rule", "") + " | nms: RAW and WAV x NMS ADPCM 16/24/32 kbit/s, 1 channel: contents {zero, extremes, alternating, noise, ramps, quiet, impulse, triangle tone, "
                            "loud then quiet, mixtures}, lengths {0,1,2,159..161,319..321,481,4095..4097,4255..4257} and random up to 6000 (quick) / 30000 frames, written in calls of "
                            "{1,2,7,159,160,161,4095,4096,4097,whole} items of one or mixed caller types (exact and rounding / wrapping float values), item and frame variants; read back in one call and in "
                            "pieces of {1,2,3,159..161,4095..4097,5000} by a second handle with refused seeks in between; model-made and noise / adversarial data regions of any length (also ending "
                            "inside a block, also with a chunk behind the data) decoded by the library; bytes, return values, frame counts and every written cell compared with the Lean model (sampled, not exhaustive)")
    return found
