"""C05 / C06 on FOREIGN-BUT-VALID files (round 8, gap worker gape).

The all-format read / seek campaigns (vlib/readcamp.py, handlecheck.allformat_read_campaign, querycamp) read only files the
library wrote itself and take their reference stream from ONE sequential read of the very file under test.  Two things escape that:
  * a parser step the library's own writer never exercises (an SSND offset, a VOC text / repeat block in front of the sound block,
    chunks in front of / behind the audio chunk, a longer NIST header, an AU annotation ...): "where does the audio start, where does
    it end" is then computed by code no library-written file reaches;
  * a defect IN the sequential read (too many frames, the following chunk delivered as audio): the reference stream inherits it.
Here the campaign BUILT the file, so it knows the audio: a library-written base file (validated by the main campaign) is
transformed by ONE layout change that does not touch the audio (vlib/foreign.py `VARIANTS` plus the layouts below), and the
read / seek history on the transformed file is judged by `Sf.Abs.holdsOn` (lean/SfModel/Abs.lean) with
      geometry frames = the frames of the BASE file,
      reference streams = the sequential reads of the BASE file (for an integer PCM encoding of >= 16 bits: the very s16 items the
                          campaign handed to sf_write_short), raw reference = the base file's data bytes,
so that the frame count (`info` line, clause `frames`), the end of data (`eof`, `count`), every delivered item (`data`) and every position
(`position`, `seek`) are stated against the CONSTRUCTION, not against the file's own first read (lean/SfProps/C05Foreign.lean:
`foreign_info_frames`, `foreign_whole_read`, `foreign_read_after_seek` say what an accepted transcript of this shape implies).
Every history starts with a deterministic prelude (info; one read of everything and 8 frames more; position probe; seek to 0 and
re-read; seek to the middle; SEEK_END - 1 and read past the end), followed by a short random history of vlib/readcamp.py.

To add a layout: an entry `(tag, bytes)` in one of the `*_extra` functions (or in vlib/foreign.py).  A layout listed here is
asserted VALID by the format's specification and accepted by the unchanged library (measured: evidence
coverage.foreign_read.by_tag); a layout the reader rejects shows as clause `open`.
(KF-SVX-BODY-PAD -- the IFF pad byte of an odd BODY chunk read as one more frame -- was found by this campaign and is repaired; nothing is waived here.)
"""
import collections, re
from . import foreign as FG, readcamp as R, scripts as S, kernels as K, abslean, absreplay, formats

be32, le32, junk = FG.be32, FG.le32, FG.junk


# ---- further layouts (the audio bytes are never touched) -----------------------------------------------------------------------------

def aiff_extra(b):
    """SSND offset k WITH chunks behind SSND (shorter than, equal to and longer than k); chunks behind SSND alone; NAME + ANNO in front"""
    if b[:4] != b"FORM" or b[8:12] not in (b"AIFF", b"AIFC"):
        return []
    form, ch = FG.iff_parse(b, False)
    ids = [c[0] for c in ch]
    if b"SSND" not in ids or b"COMM" not in ids:
        return []
    si = ids.index(b"SSND")
    ss = ch[si][1]
    out = []
    for k, t in ((4, 20), (8, 8), (16, 6), (2, 300), (300, 400)):
        ch2 = list(ch)
        ch2[si] = (b"SSND", be32(k) + ss[4:8] + junk(k, k) + ss[8:])
        ch2 = ch2[:si + 1] + [(b"ANNO", junk(t, 3)), (b"NAME", junk(10, 5))] + ch2[si + 1:]
        out.append(("ssnd-offset%d+tail%d" % (k, t), FG.iff_build(b"FORM", form, ch2, False)))
    out.append(("chunks-after-ssnd", FG.iff_build(b"FORM", form, ch[:si + 1] + [(b"ANNO", junk(33, 1)), (b"AUTH", junk(4, 2))] + ch[si + 1:], False)))
    out.append(("name+anno-before-ssnd", FG.iff_build(b"FORM", form, ch[:si] + [(b"NAME", junk(7, 1)), (b"ANNO", junk(256, 2))] + ch[si:], False)))
    return out


def voc_extra(b):
    """text blocks of sizes around the 255-byte log buffer, two blocks in a row, repeat + text, a text block of 64 KiB"""
    if b[:19] != b"Creative Voice File" or len(b) < 27:
        return []
    first = int.from_bytes(b[20:22], "little")
    txt = lambda n, s=0: b"\x05" + int(n).to_bytes(3, "little") + (junk(n - 1, s) + b"\0" if n else b"")
    rep = b"\x06" + (2).to_bytes(3, "little") + b"\x03\x00"
    out = []
    for n in (1, 254, 255, 256, 257, 511, 1000, 70000):
        out.append(("text%d-before-sound" % n, b[:first] + txt(n, n) + b[first:]))
    out.append(("text30+text400-before-sound", b[:first] + txt(30) + txt(400, 9) + b[first:]))
    out.append(("repeat+text255-before-sound", b[:first] + rep + txt(255, 4) + b[first:]))
    out.append(("text3+repeat-before-sound", b[:first] + txt(3) + rep + b[first:]))
    return out


def wav_extra(b):
    """LIST / PAD / odd-sized chunks in front of `data`, LIST + unknown chunk behind it"""
    if b[:4] not in (b"RIFF", b"RIFX") or b[8:12] != b"WAVE":
        return []
    little = b[:4] == b"RIFF"
    w32 = le32 if little else be32
    form, ch = FG.iff_parse(b, little)
    ids = [c[0] for c in ch]
    if b"data" not in ids or b"fmt " not in ids:
        return []
    di = ids.index(b"data")
    lst = b"INFO" + b"ISFT" + w32(8) + b"foreign\0" + b"ICMT" + w32(3) + b"ab\0\0"
    out = [("list-before-data", FG.iff_build(b[:4], form, ch[:di] + [(b"LIST", lst)] + ch[di:], little)),
           ("pad255-before-data", FG.iff_build(b[:4], form, ch[:di] + [(b"PAD ", bytes(255))] + ch[di:], little)),
           ("list+xtra-after-data", FG.iff_build(b[:4], form, ch + [(b"LIST", lst), (b"xtra", junk(17))], little))]
    return out


def caf_extra(b):
    """an `info` chunk in front of `data`; a `free` chunk behind `data` (needs the data chunk to carry its true size)"""
    if b[:4] != b"caff":
        return []
    p, pos, dsz = 8, None, None
    while p + 12 <= len(b):
        cid = b[p:p + 4]
        sz = int.from_bytes(b[p + 4:p + 12], "big", signed=True)
        if cid == b"data":
            pos, dsz = p, sz
            break
        p += 12 + sz
    if pos is None:
        return []
    info = be32(1) + b"comments\0foreign\0"
    out = [("info-before-data", b[:pos] + b"info" + int(len(info)).to_bytes(8, "big") + info + b[pos:])]
    if dsz is not None and dsz >= 4 and pos + 12 + dsz == len(b):
        out.append(("free40-after-data", b + b"free" + (40).to_bytes(8, "big") + bytes(40)))
    return out


def svx_extra(b):
    if b[:4] != b"FORM" or b[8:12] not in (b"8SVX", b"16SV"):
        return []
    form, ch = FG.iff_parse(b, False)
    ids = [c[0] for c in ch]
    if b"BODY" not in ids:
        return []
    bi = ids.index(b"BODY")
    # (KF-SVX-BODY-PAD is repaired: the pad byte of an odd BODY chunk -- iff_build writes it -- and chunks BEHIND BODY are not audio)
    return [("copyright-before-body", FG.iff_build(b"FORM", form, ch[:bi] + [(b"(c) ", junk(300))] + ch[bi:], False)),
            ("anno-after-body", FG.iff_build(b"FORM", form, ch + [(b"ANNO", junk(40, 3))], False)),
            ("auth+anno-after-body", FG.iff_build(b"FORM", form, ch + [(b"AUTH", junk(6, 1)), (b"ANNO", junk(333, 2))], False))]


EXTRA = {0x02: aiff_extra, 0x08: voc_extra, 0x01: wav_extra, 0x13: wav_extra, 0x18: caf_extra, 0x06: svx_extra}


def variants(major, b):
    out = []
    if major in FG.VARIANTS:
        # (a PEAK chunk in front of COMM is refused by design -- it needs the channel count --, so COMM is not moved behind a PEAK chunk)
        out += [v for v in FG.VARIANTS[major](b) if not (v[0] == "comm-after-ssnd" and b"PEAK" in b[:200])]
    if major in EXTRA:
        out += EXTRA[major](b)
    return out


# ---- jobs ---------------------------------------------------------------------------------------------------------------------------

INT_PCM = {0x02: 4, 0x03: 4, 0x04: 4}      # codecs that store an s16 item exactly (reference = the items handed to sf_write_short)


def pick_bases(ctx, quick):
    rng = ctx.rng
    fs = [f for f in formats.writable_formats(ctx) if (f.major in FG.VARIANTS or f.major in EXTRA) and f.codec not in (0x70, 0x71, 0x72, 0x73)]
    by = collections.defaultdict(list)
    for f in fs:
        by[f.major].append(f)
    jobs = []
    for mj, lst in sorted(by.items()):
        gran = [f for f in lst if f.granular]
        rest = [f for f in lst if not f.granular]
        # always one 16-bit PCM (the construction knows its items) when the container has one, plus a rotation
        p16 = [f for f in gran if f.codec == 0x02]
        pick = p16[:1] + rng.sample(gran, min(len(gran), 2 if quick else 8)) + rng.sample(rest, min(len(rest), 1 if quick else 4))
        seen = set()
        for f in pick:
            if f.word in seen:
                continue
            seen.add(f.word)
            ch = min(f.maxch, rng.choice([1, 2, 2, 3]))
            b = R.block_hint(f)
            n = rng.choice([37, 100, 101, 257]) if b <= 1 else rng.choice([b + 3, 2 * b + 1, 3 * b - 1])
            jobs.append((f, ch, n))
    return jobs


def base_script(rng, f, ch, n):
    """one write call of known s16 items, close, dump, one sequential reference read per caller type (readcamp.write_phase's layout)"""
    vals = [rng.randrange(-32768, 32768) & 0xFFFF for _ in range(n * ch)]
    lines = ["open h0 s0 w fmt=%08x ch=%d sr=8000" % (f.word, ch), S.w_line("h0", "s16", "i", n * ch, vals), "close h0", "dump s0"]
    for j, ty in enumerate(R.TYS):
        h = "h%d" % (j + 1)
        lines += ["open %s s0 r" % h, "r %s %s i %d" % (h, ty, (n + 5000) * ch), "r %s %s i %d" % (h, ty, ch), "close %s" % h]
    bw = R.raw_bw(f, ch)
    lines += ["open h5 s0 r", "rraw h5 %d" % ((n + 8) * (bw or 1)), "close h5"]
    return "\n".join(lines) + "\n", vals


def test_script(rng, f, ch, F, filehex, nops):
    """prelude + random history on the transformed file"""
    t = R.test_phase(rng, f, ch, F, filehex, nops).strip().split("\n")
    # drop readcamp's own raw reference read (it would read the file under test): the raw reference comes from the base
    i0 = next(i for i, l in enumerate(t) if l.startswith("open h0"))
    t = [t[0]] + t[i0:]
    mid = F // 2
    pre = ["info h0",
           "r h0 s16 i %d" % ((F + 8) * ch), "seek h0 0 1",
           "seek h0 0 0", "r h0 s32 f %d" % min(max(F, 1), 5), "seek h0 0 1",
           "seek h0 %d 0" % mid, "r h0 f32 f 3", "seek h0 0 1",
           "seek h0 -1 2", "r h0 f64 f 4", "seek h0 0 1",
           "seek h0 0 0", "r h0 f64 i %d" % ((F + 1) * ch), "r h0 s16 i %d" % ch,
           "seek h0 %d 0" % min(F, 1)]
    bw = R.raw_bw(f, ch)
    if bw and F > 2:
        pre += ["seek h0 1 0", "rraw h0 %d" % (2 * bw), "seek h0 0 1", "seek h0 0 0", "rraw h0 %d" % ((F + 3) * bw), "seek h0 0 0"]
    return "\n".join(t[:2] + pre + t[2:]) + "\n"


def campaign(ctx, prop, quick=None, only_major=None):
    """returns (findings, stats); a finding is (name, fmt, ch, line, tag, category, text, replay text)"""
    rng = ctx.rng
    quick = (ctx.tier == "quick") if quick is None else quick
    stats = collections.Counter()
    bases = [j for j in pick_bases(ctx, quick) if only_major is None or j[0].major == only_major]
    bs = []
    for i, (f, ch, n) in enumerate(bases):
        sc, vals = base_script(rng, f, ch, n)
        bs.append(("fb%d-%s-c%d-n%d" % (i, f.name, ch, n), sc, vals))
    out = ctx.batch([(n, s) for (n, s, _) in bs], clean=True)
    tests = []
    by_tag = collections.Counter()
    for (name, sc, vals), (f, ch, n) in zip(bs, bases):
        lines = out.get(name, [])
        info = R.parse_write_phase(lines[:-3], "\n".join(sc.strip().split("\n")[:-3]), ch) if len(lines) >= 3 else {"problems": ["no transcript"]}
        if info["problems"] or info.get("frames", -1) < n or any(info["ref_ret"].get(ty) != info["frames"] * ch for ty in R.TYS):
            stats["bases_not_usable"] += 1       # the main campaign's business (a format the library cannot write / re-read)
            continue
        F = info["frames"]
        stats["bases"] += 1
        refs = {ty: "".join(info["ref"][ty]) for ty in R.TYS}
        if f.codec in INT_PCM and F == n:
            mine = K.hex_items(vals, 4)
            if refs["s16"] != mine:
                stats["base_roundtrip_differs"] += 1     # C01's business; keep the construction as the reference all the same
            refs["s16"] = mine
        bw = R.raw_bw(f, ch)
        rawref = None
        if bw:
            m = re.search(r"ret=(-?\d+) .*data=([0-9a-f]*)", lines[-2])
            if m and int(m.group(1)) == F * bw:
                rawref = m.group(2)[:2 * F * bw]
        for tag, nb in variants(f.major, bytes.fromhex(info["filehex"])):
            tname = "%s+%s" % (name, tag)
            tests.append(dict(name=tname, f=f, ch=ch, F=F, refs=refs, rawref=rawref, tag=tag, bw=bw, seekable=info.get("seekable", True),
                              script=test_script(rng, f, ch, F, nb.hex(), 8 if quick else 30)))
            by_tag["%s:%s" % (formats.MAJOR_NAME.get(f.major), re.sub(r"\d+", "#", tag))] += 1
    res = ctx.batch([(t["name"], t["script"]) for t in tests], clean=True, op_timeout=20)
    judge = abslean.Judge(ctx, prop)
    for t in tests:
        sl = t["script"].strip().split("\n")
        lines = res.get(t["name"], [])
        t["lines"] = lines
        t["start"] = R.test_start(sl)
        t["geom"] = abslean.geom_line(t["ch"], t["F"], "r", seekable=t["seekable"], bw=t["bw"] or 0)
        t["opened"] = len(lines) > 1 and lines[1].startswith("open=ok")
        if t["opened"]:
            judge.add(t["name"], t["geom"], t["refs"], t["rawref"], abslean._alive_pairs(sl, lines, t["start"]))
    verdicts = judge.run() if judge.items else {}
    findings = []
    for t in tests:
        stats["files"] += 1
        f, ch, F = t["f"], t["ch"], t["F"]
        sl = t["script"].strip().split("\n")
        hdr = lambda k, tag: absreplay.header(t["geom"], t["start"], refs=t["refs"], rawref=t["rawref"], clause=(tag, k))
        dead = [l for l in t["lines"] if l.startswith(abslean.DEAD)]
        if not t["opened"]:
            stats["refused"] += 1
            text = ("a valid %s file (layout %s: the audio of a library-written file, untouched) is refused or kills the reader: %s"
                    % (f.name, t["tag"], (dead or t["lines"][1:2] or ["(no transcript)"])[0][:200]))
            findings.append((t["name"], f, ch, 1, "open", "crash" if dead else "open", text, hdr(1, "open") + "--- script\n" + "\n".join(sl[:2]) + "\n"))
            continue
        stats["accepted"] += 1
        stats["ops"] += len(sl) - t["start"]
        ctx.distinct.add("foreignread:%s:%s" % (formats.MAJOR_NAME.get(f.major), re.sub(r"\d+", "", t["tag"])))
        v = verdicts[t["name"]]
        for (k, tag, tx) in v.fails[:6]:
            line = t["start"] + k
            cat = abslean.TAG_CAT.get(tag, tag)
            text = ("Lean predicate Sf.Abs.holdsOn against the file's CONSTRUCTION (frames and streams of the base file): clause `%s` fails at script line %d (%s): %s"
                    % (tag, line, sl[line][:60] if line < len(sl) else "?", tx.strip()))
            findings.append((t["name"], f, ch, line, tag, cat, text, hdr(line, tag) + "--- script\n" + "\n".join(sl[:line + 1]) + "\n"))
        if dead and not v.fails:
            findings.append((t["name"], f, ch, len(t["lines"]) - 1, "crash", "crash", "implementation died: " + dead[0][:200],
                             hdr(len(t["lines"]) - 1, "crash") + "--- script\n" + "\n".join(sl[:len(t["lines"])]) + "\n"))
    stats["layouts"] = len(by_tag)
    # ---- correspondence: the VOC block-chain model (lean/SfModel/VocBlocks.lean, `sfmodel vocblocks`) against sf_open on every VOC layout ----
    voc = [t for t in tests if t["f"].major == 0x08 and t["lines"]]
    if voc:
        inp = "".join(t["script"].split("\n", 1)[0].split()[2] + "\n" for t in voc)
        ans = ctx.run_model(["vocblocks"], inp).strip().split("\n")
        for t, a in zip(voc, ans):
            stats["voc_model_files"] += 1
            lib = t["lines"][1] if len(t["lines"]) > 1 else ""
            if a.startswith("ok"):
                stats["voc_model_ok"] += 1
                kv = dict(x.split("=") for x in a.split()[1:])
                want = "ch=%s sr=%s frames=%s fmt=%s" % (kv["ch"], kv["sr"], kv["frames"], kv["fmt"])
                if not (lib.startswith("open=ok") and want in lib):
                    t["corr"] = "Sf.VocBlocks.parseF says `%s` (data offset %s), sf_open says `%s`" % (want, kv.get("dataoffset"), lib[:120])
            elif a.startswith("err") and lib.startswith("open=ok"):
                t["corr"] = "Sf.VocBlocks.parseF refuses the file, sf_open says `%s`" % lib[:120]
            if t.get("corr"):
                stats["voc_model_disagreements"] += 1
    return findings, stats, dict(by_tag), tests


def run(ctx, prop):
    from .props._handle_common import CATS
    findings, stats, by_tag, tests = campaign(ctx, prop)
    ctx.count(stats["ops"], tag="foreign-read")
    reported = collections.Counter()
    nrep = 0
    for (name, f, ch, line, tag, cat, text, replay) in findings:
        if cat not in CATS[prop]:
            stats["failures_of_other_properties"] += 1
            continue
        stats["failures"] += 1
        key = (f.major, cat)
        reported[key] += 1
        reported[f.major] += 1
        if reported[key] > 1 or reported[f.major] > 2 or nrep >= 8:      # at most two replays per container: a second defect elsewhere is not crowded out
            continue
        nrep += 1
        ctx.violation("%s-foreign-%s-%s" % (prop.lower(), name, cat),
                      "# %s on a FOREIGN-BUT-VALID file: %s, %d channel(s), layout `%s` (one change of layout applied to a library-written file; the audio bytes are untouched,\n"
                      "# so the frame count and every stream are those of the base file)\n# %s\n%s" % (prop, f.name, ch, name.split("+", 1)[1], text, replay))
    corr = [t for t in tests if t.get("corr")]
    ctx.coverage["traces_validated_against_impl"] += stats["voc_model_files"]
    if corr and not nrep and not ctx.violations:
        t = corr[0]
        ctx.violation("%s-foreign-voc-correspondence" % prop.lower(),
                      "# correspondence stream 'VOC block chain model vs implementation' no longer agrees on %d of %d files; the %s predicate found no failing input\n# first: %s: %s\n--- script\n%s"
                      % (len(corr), stats["voc_model_files"], prop, t["name"], t["corr"], "\n".join(t["script"].split("\n")[:3]) + "\n"), no_input=True)
    ctx.coverage.setdefault("foreign_read", {}).update(dict(stats, by_tag=by_tag))
    if tests:
        t = tests[len(tests) // 2]
        ctx.sample({"kind": "foreign-but-valid file, read / seek history judged against the construction", "name": t["name"], "frames": t["F"],
                    "script_tail": "\n".join(t["script"].strip().split("\n")[1:12])[:700], "transcript_head": [l[:160] for l in t["lines"][1:5]]})
    return stats
