"""C09 (also read by C12 / C16 / C17): SFC_SET_CHANNEL_MAP_INFO histories against `Sf.ChmapVerdict` (`sfmodel chmap`).

A refused SFC_SET_CHANNEL_MAP_INFO (SF_FALSE) must have no effect: SFC_GET_CHANNEL_MAP_INFO on the write handle answers what it
answered before the call, and the re-opened file carries the map it would have carried without the call.  The stream runs, on one
write handle per script,
  * EVERY map of valid ids for 1 and 2 channels (26 and 676 maps) on one container of each verdict family (WAV: channel mask,
    AIFF: layout tag, AU: no command hook), on a fresh handle and behind an accepted map;
  * seeded histories of 1..5 SET calls on every container that can be written with 16-bit PCM, 1..8 channels: maps drawn from the
    layout-tag table of chanmap.c, mask-ordered maps, permutations, all-MONO, invalid ids (0, 27, -1), wrong sizes, NULL, calls
    after the first audio write; a GET after every SET; close, re-open, GET.
Every line is compared with the model (return value, the error where the model sets it, the ints copied out; a failing GET must
leave the caller's block alone).  The C09 predicate is judged on the library's own transcript: a SET that answers 0 followed by a
GET that differs from the GET before it is a VIOLATION with the script as the failing input; any other difference from the model is
a correspondence failure (no-failing-input-found).
"""
import struct
from . import abscheck

GET, SET = "1100", "1101"
# (name, major) written as 16-bit PCM; hook = the container has a command handler
CONTAINERS = [("wav", 0x01), ("wavex", 0x13), ("rf64", 0x22), ("aiff", 0x02), ("caf", 0x18), ("au", 0x03), ("raw", 0x04), ("paf", 0x05),
              ("w64", 0x0B), ("ircam", 0x0A), ("nist", 0x07), ("mat4", 0x0C), ("mat5", 0x0D), ("pvf", 0x0E), ("htk", 0x10), ("avr", 0x15),
              ("voc", 0x08), ("mpc2k", 0x21), ("svx", 0x06)]
MASK_IDS = [2, 3, 4, 11, 9, 10, 12, 13, 8, 14, 15, 16, 17, 19, 18, 20, 22, 21]


def hexmap(m):
    return b"".join(struct.pack("<i", v) for v in m).hex()


def layout_maps(ctx):
    """the maps of the layout table of the tree under test (lean/SfModel/Generated/ChanMap.lean is written by the C12 check; here
    only used to draw maps that AIFF / CAF accept) -- parsed from src/chanmap.c directly"""
    import os, re
    repo = os.environ.get("SFVERIF_REPO", "/repo")
    try:
        src = open(os.path.join(repo, "src", "chanmap.c")).read()
    except OSError:
        return {}
    enum = {}
    try:
        hdr = open(os.path.join(repo, "include", "sndfile.h")).read()
        body = hdr[hdr.index("SF_CHANNEL_MAP_INVALID"):]
        body = body[:body.index("}")]
        k = 0
        for m in re.finditer(r"(SF_CHANNEL_MAP_\w+)\s*(=\s*(\d+))?", body):
            if m.group(3) is not None:
                k = int(m.group(3))
            enum[m.group(1)] = k
            k += 1
    except (OSError, ValueError):
        return {}
    res = {}
    for m in re.finditer(r"static const int (\w+) \[\] =\s*\{([^}]*)\}", src):
        ids = [enum.get(t.strip()) for t in m.group(2).split(",") if t.strip()]
        if ids and all(i is not None for i in ids):
            res.setdefault(len(ids), []).append(ids)
    return res


_VERDICT = {}


def verdict(fmt, ch, m):
    """1 if the container of `fmt` takes the (valid, right-sized) channel map `m` on a handle that has written no audio, else 0 --
    answered by the Lean model (`sfmodel chmap`, Sf.ChmapVerdict.containerAccepts), cached.  Used by the C16 ledger scenarios: a map
    the container refuses is freed again inside the call and leaves no block behind."""
    import subprocess
    from . import build
    key = ((fmt >> 16) & 0xFFF, ch, tuple(m))
    if key not in _VERDICT:
        p = subprocess.run([build.sfmodel_exe(), "chmap"], input="open %08x %d\nset %d %s\n" % (fmt, ch, 4 * ch, hexmap(m)), capture_output=True, text=True, timeout=60)
        _VERDICT[key] = 1 if p.stdout.startswith("ret=1") else 0
    return _VERDICT[key]


class Script:
    def __init__(self, name, fmt, ch):
        self.name, self.fmt, self.ch = name, fmt, ch
        self.h = ["open h0 s0 w fmt=%08x ch=%d sr=8000" % (fmt, ch)]
        self.m = ["open %08x %d" % (fmt, ch)]
        self.cmp = []          # index pairs (harness line, model line)
        self.nm = 0
        self.handle = "h0"

    def set(self, size, data):
        self.h.append("cmd %s %s %d %s" % (self.handle, SET, size, data))
        self.m.append("set %d %s" % (size, data))
        self.cmp.append((len(self.h) - 1, self.nm, "set"))
        self.nm += 1

    def get(self, size=None, data="zero"):
        size = 4 * self.ch if size is None else size
        self.h.append("cmd %s %s %d %s" % (self.handle, GET, size, data))
        self.m.append("get %d %s" % (size, data))
        self.cmp.append((len(self.h) - 1, self.nm, "get"))
        self.nm += 1

    def write(self):
        self.h.append("w h0 s16 i %d %s" % (self.ch, "0001" * self.ch))
        self.m.append("written")

    def reopen(self):
        self.h.append("close h0")
        self.h.append("dump s0")                 # the closed file: compared with the run that does not make the refused calls (twin pass)
        self.h.append("open h1 s0 r" + (" fmt=%08x ch=%d sr=8000" % (self.fmt, self.ch) if (self.fmt >> 16) == 0x04 else ""))
        self.m.append("reopen")
        self.handle = "h1"

    def text(self):
        return "\n".join(self.h) + "\n"


def build(ctx, quick):
    rng = ctx.rng
    tables = layout_maps(ctx)
    S = []
    # -- exhaustive: every map of valid ids, 1 and 2 channels, one container per verdict family, fresh handle and behind an accepted map
    fams = [("wav", 0x01, {1: [4], 2: [2, 3]}), ("aiff", 0x02, {1: [1], 2: [2, 3]}), ("au", 0x03, {1: [4], 2: [2, 3]})]
    for name, major, good in fams:
        fmt = (major << 16) | 2
        for ch in (1, 2):
            maps = [[a] for a in range(1, 27)] if ch == 1 else [[a, b] for a in range(1, 27) for b in range(1, 27)]
            # 13 maps per script keeps the scripts short; each SET is followed by a GET
            for behind in (False, True):
                for k in range(0, len(maps), 13):
                    s = Script("all-%s-ch%d-%s-%d" % (name, ch, "behind" if behind else "fresh", k), fmt, ch)
                    if behind:
                        s.set(4 * ch, hexmap(good[ch]))
                    s.get()
                    for m in maps[k:k + 13]:
                        s.set(4 * ch, hexmap(m))
                        s.get()
                    S.append(s)
    # -- accepted, then refused, then the file: the refused call must not take the accepted map's mask / tag out of the header either
    for name, major, goods in (("wav", 0x01, {1: [2], 2: [3, 4], 4: [2, 3, 9, 10]}), ("wavex", 0x13, {1: [2], 2: [3, 4], 4: [2, 3, 11, 8]}),
                               ("rf64", 0x22, {1: [3], 2: [2, 4], 4: [2, 3, 4, 11]}), ("aiff", 0x02, {1: [1], 2: [2, 3], 4: [2, 3, 9, 10]}),
                               ("caf", 0x18, {1: [1], 2: [2, 3], 4: [2, 3, 4, 8]})):
        fmt = (major << 16) | 2
        for ch, good in goods.items():
            for bad in ([1] * ch, list(reversed(good)) if ch > 1 else [26], [5] * ch):
                s = Script("acc-ref-%s-ch%d-%s" % (name, ch, "".join("%02x" % b for b in bad)), fmt, ch)
                s.set(4 * ch, hexmap(good))
                s.get()
                s.set(4 * ch, hexmap(bad))
                s.get()
                s.write()
                s.reopen()
                s.get()
                S.append(s)
    # -- seeded histories on every container
    n_hist = 6 if quick else 40
    for name, major in CONTAINERS:
        fmt = (major << 16) | 2
        for i in range(n_hist):
            ch = rng.choice([1, 2, 2, 3, 4, 5, 6, 7, 8])
            if major in (0x06, 0x21, 0x08) and ch > 2:
                ch = rng.choice([1, 2])
            s = Script("hist-%s-%d-ch%d" % (name, i, ch), fmt, ch)
            s.get()
            written = False
            for _ in range(rng.randrange(1, 6)):
                r = rng.random()
                if r < 0.30 and tables.get(ch):
                    m = list(rng.choice(tables[ch]))
                elif r < 0.55:
                    m = sorted(rng.sample(range(len(MASK_IDS)), ch))
                    m = [MASK_IDS[b] for b in m]
                elif r < 0.70:
                    m = [rng.randrange(1, 27) for _ in range(ch)]
                elif r < 0.78:
                    m = [1] * ch
                elif r < 0.86:
                    m = [rng.randrange(1, 27) for _ in range(ch)]
                    m[rng.randrange(ch)] = rng.choice([0, 27, -1, 1 << 20, -(1 << 31)])
                else:
                    m = None
                if m is not None:
                    if rng.random() < 0.5 and ch > 1 and len(set(m)) == ch and rng.random() < 0.4:
                        rng.shuffle(m)
                    s.set(4 * ch, hexmap(m))
                else:
                    k = rng.choice(["null", "short", "long", "zero-size"])
                    good = hexmap([MASK_IDS[b] for b in range(ch)])
                    if k == "null":
                        s.set(4 * ch, "null")
                    elif k == "short":
                        s.set(4 * ch - 4, good[:-8] if ch > 1 else "")
                        if ch == 1:
                            s.h[-1] = "cmd h0 %s 0 null" % SET
                            s.m[-1] = "set 0 null"
                    elif k == "long":
                        s.set(4 * ch + 4, good + "02000000")
                    else:
                        s.h.append("cmd h0 %s 0 null" % SET)
                        s.m.append("set 0 null")
                        s.cmp.append((len(s.h) - 1, s.nm, "set"))
                        s.nm += 1
                s.get()
                if rng.random() < 0.15:
                    s.get(4 * ch + 4, "zero")
                if not written and rng.random() < 0.2:
                    s.write()
                    written = True
            if not written:
                s.write()
            s.reopen()
            s.get()
            S.append(s)
    return S


def twin_pass(ctx, S, out, stats):
    """The C09 clause on the FILE: every script in which a SET answered SF_FALSE is run again WITHOUT those calls (the base history);
    the closed file's bytes, the re-open and the GET on the re-opened file must be the same.  Judged by `sfmodel abs-twin`
    (Sf.AbsTwin.judge: clauses file / reopen / state); the replay is a twin replay (`c09-twin`, vlib/c09twin.py `replay`).
    The handler-private state this looks at (wavex_channelmask / chanmap_tag next to psf->channel_map) is lean/SfModel/ChmapPriv.lean."""
    from . import c09twin
    cands = []
    for s in S:
        lines = [l for l in out.get(s.name, []) if l.startswith(ctx.TRANSCRIPT_PREFIXES)]
        if len(lines) != len(s.h) or not lines[0].startswith("open=ok") or "close h0" not in s.h:
            continue
        refused = [hi for (hi, mi, kind) in s.cmp if kind == "set" and s.h[hi].startswith("cmd h0") and abscheck.parse_kv(lines[hi]).get("ret") == "0"]
        if refused:
            cands.append((s, lines, refused))
    if not cands:
        return False
    base = ctx.batch([(s.name + "-base", "\n".join(l for k, l in enumerate(s.h) if k not in refused) + "\n") for (s, lines, refused) in cands], workers=3)
    recs, who = [], {}
    for (s, lines, refused) in cands:
        bl = [l for l in base.get(s.name + "-base", []) if l.startswith(ctx.TRANSCRIPT_PREFIXES)]
        kept = [k for k in range(len(s.h)) if k not in refused]
        stats["twin_scripts"] = stats.get("twin_scripts", 0) + 1
        stats["twin_refused_calls"] = stats.get("twin_refused_calls", 0) + len(refused)
        if len(bl) != len(kept):
            continue
        ls = ["== " + s.name]
        for k in refused:
            kv = abscheck.parse_kv(lines[k])
            ls.append("ins k=%d must=0 refused=1 err=%s msglen=-1" % (k, kv.get("err", "0") or "0"))
        for bi, k in enumerate(kept):
            if k == 0:
                continue
            ls.append("pair k=%d phase=%s" % (k, c09twin.phase_of(s.h, k)))
            ls.append(bl[bi])
            ls.append(lines[k])
        recs.append("\n".join(ls) + "\n")
        who[s.name] = (s, lines, refused, kept, bl)
    verdicts, rc, err = c09twin.run_driver(ctx, "".join(recs))
    if rc != 0 or len(verdicts) != len(who):
        ctx.violation("chmap-twin-driver", "sfmodel abs-twin failed: rc=%d, %d verdicts for %d records; %s" % (rc, len(verdicts), len(who), err), no_input=True)
        return True
    found, reported = False, set()
    for name, (status, detail) in sorted(verdicts.items()):
        if status == "ok":
            continue
        stats["twin_rejected"] = stats.get("twin_rejected", 0) + 1
        s, lines, refused, kept, bl = who[name]
        kv = abscheck.parse_kv(detail)
        clause, k = kv.get("clause", "?"), int(kv.get("k", "0"))
        key = (s.fmt >> 16, clause)
        found = True
        if key in reported or len(reported) >= 3:
            continue
        reported.add(key)
        bi = kept.index(k) if k in kept else 0
        a, b = bl[bi], lines[k]
        if clause == "file":
            ha, hb = a.split("hex=")[-1], b.split("hex=")[-1]
            d = next((i for i in range(0, min(len(ha), len(hb)), 2) if ha[i:i + 2] != hb[i:i + 2]), min(len(ha), len(hb)))
            what = "the closed file differs: first difference at byte %d (%s without the refused call, %s with it)" % (d // 2, ha[d:d + 16], hb[d:d + 16])
        else:
            what = "line `%s` answers `%s` with the refused call(s), `%s` without" % (s.h[k][:60], b[:120], a[:120])
        ctx.violation("chmap-twin-%s" % s.name,
                      "# C09 (twin run): a refused SFC_SET_CHANNEL_MAP_INFO changed the %s\n# %s\n# refused: %s\n"
                      "# re-run: bin/check C09 --replay <this file> (runs the script, then the same script without the calls it saw refused, and compares)\n"
                      "c09-twin ch=%d\ntwin-inserted %s\ntwin-must \n--- script\n%s\n"
                      % ({"state": "handle state", "file": "closed file", "reopen": "re-opened file"}.get(clause, clause), what,
                         "; ".join("line %d `%s` -> %s" % (r, s.h[r], lines[r][:40]) for r in refused), s.ch, ",".join(str(r) for r in refused), "\n".join(s.h[:k + 1])))
    return found


def run(ctx, quick=True):
    """returns True if a violation was reported"""
    for kf in ctx.known:
        # the one residual of the re-derivation on refusal (foreign RDWR file, mask with more bits than channels): its witness is the whole class
        if kf.get("id") == "KF-C09-CHMAP-REMASK" and kf.get("status") == "known" and ctx.witness_still_fails(kf):
            ctx.known_finding(kf)
    S = build(ctx, quick)
    out = ctx.batch([(s.name, s.text()) for s in S], workers=3)
    model_in = "".join("== %s\n%s\n" % (s.name, "\n".join(s.m)) for s in S)
    mo = {}
    cur = None
    for line in ctx.run_model(["chmap"], model_in, timeout=600).split("\n"):
        if line.startswith("== "):
            cur = line[3:]
            mo[cur] = []
        elif cur is not None and line:
            mo[cur].append(line)
    found = False
    stats = {"scripts": 0, "set_calls": 0, "refused_valid": 0, "accepted": 0, "reopened": 0, "skipped_open_fails": 0}
    corr = []
    for s in S:
        lines = [l for l in out.get(s.name, []) if l.startswith(ctx.TRANSCRIPT_PREFIXES)]
        if not lines or not lines[0].startswith("open=ok"):
            stats["skipped_open_fails"] += 1      # this container cannot be written with that channel count
            continue
        stats["scripts"] += 1
        ml = mo.get(s.name, [])
        last_get = None
        prev_set = None
        for (hi, mi, kind) in s.cmp:
            if hi >= len(lines) or mi >= len(ml):
                corr.append((s, hi, "the transcript ends early: %s" % (lines[-1:] or [""])[0][:120], ""))
                break
            if s.h[hi].startswith("cmd h1") and not lines[hi - 1].startswith("open=ok"):
                corr.append((s, hi - 1, "the file written cannot be re-opened: " + lines[hi - 1][:120], ""))
                break
            hk, mk = abscheck.parse_kv(lines[hi]), abscheck.parse_kv(ml[mi])
            ctx.count(1, (s.fmt >> 16, s.ch, kind, hk.get("ret")))
            if kind == "set":
                stats["set_calls"] += 1
                if hk.get("ret") == "1":
                    stats["accepted"] += 1
                elif hk.get("err") == "0":
                    stats["refused_valid"] += 1
                prev_set = (hi, hk)
            if kind == "get" and s.handle == "h1" and s.h[hi].startswith("cmd h1"):
                stats["reopened"] += 1
            # the property on the library's own lines: a SET that answered 0 between two GETs of the same size leaves the answer alone
            if kind == "get" and s.h[hi].split()[3] == str(4 * s.ch):
                if last_get is not None and prev_set is not None and prev_set[0] > last_get[0] and prev_set[1].get("ret") == "0" \
                        and s.h[hi].startswith("cmd h0") and (hk.get("ret"), hk.get("data")) != (last_get[1].get("ret"), last_get[1].get("data")):
                    found = True
                    stats["refused_but_changed"] = stats.get("refused_but_changed", 0) + 1
                    if stats["refused_but_changed"] > 2:      # two failing inputs are enough; the rest is counted
                        break
                    ctx.violation("chmap-refused-kept-%s" % s.name,
                                  "# C09: SFC_SET_CHANNEL_MAP_INFO answered SF_FALSE (line %d: %s -> %s) but SFC_GET_CHANNEL_MAP_INFO answers %s afterwards, %s before the call: a refused call changed the handle\n"
                                  "expect-last ret=%s err=0 data=%s\n--- script\n%s"
                                  % (prev_set[0] + 1, s.h[prev_set[0]], lines[prev_set[0]][:80], lines[hi][:80], lines[last_get[0]][:80],
                                     last_get[1].get("ret"), last_get[1].get("data"), "\n".join(s.h[:hi + 1]) + "\n"))
                    break
                last_get = (hi, hk)
            want_data = None
            if kind == "get":
                want_data = mk.get("data") if mk.get("ret") == "1" else "00" * int(s.h[hi].split()[3])
            if hk.get("ret") != mk.get("ret") or (mk.get("err") not in ("-", None) and hk.get("err") != mk.get("err")) \
                    or (want_data is not None and s.h[hi].split()[4] != "null" and hk.get("data") != want_data):
                corr.append((s, hi, lines[hi][:160], ml[mi][:160]))
                break
    tw = twin_pass(ctx, S, out, stats)
    found = found or tw
    if corr and not found:
        s, hi, il, m = corr[0]
        found = True
        ctx.violation("chmap-correspondence-%s" % s.name,
                      "# correspondence stream 'Sf.ChmapVerdict vs SFC_SET/GET_CHANNEL_MAP_INFO' no longer agrees (%d of %d scripts)\n# first: %s line %d `%s`\n# implementation: %s\n# model: %s\nobserved-last %s\n--- script\n%s"
                      % (len(corr), stats["scripts"], s.name, hi + 1, s.h[hi][:100], il, m, il, "\n".join(s.h[:hi + 1]) + "\n"), no_input=True)
    ctx.coverage["traces_validated_against_impl"] += stats["scripts"]
    ctx.notes["chmap_verdict"] = dict(stats, rule="every map of valid ids for 1 and 2 channels on WAV / AIFF / AU (fresh handle and behind an accepted map), "
                                      "seeded histories on %d containers x 1..8 channels; SET / GET on the write handle and GET on the re-opened file against Sf.ChmapVerdict" % len(CONTAINERS))
    if S:
        ctx.sample({"kind": "chmap history", "script": S[-1].text()[:500]})
    return found
