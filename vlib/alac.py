"""CAF/ALAC campaign (C01 / C04 / C06 / C07): what surrounds the ALAC codec core (src/alac.c, the ALAC parts of src/caf.c)
against the Lean model lean/SfModel/AlacFile.lean (`sfmodel alac script`), with the codec core instantiated from one
reference run of the library itself (DESIGN §6, "opaque codecs": packets in order for the encoder, packet -> frames for
the decoder).

For every job the library writes caller values in several calls, the file is dumped, re-opened, read whole (the reference
stream, as ints), then read in pieces and seeked on a third handle; a twin job writes the same values with another
partition.  An independent CAF chunk walker / BER decoder (this file) cuts the library's file into 'kuki', 'pakt' and the
packets.  The model is run on the same write calls (-> ALL bytes of the closed file: desc, kuki, pakt incl. the header
fields and every BER integer, data chunk size, packets, pad byte; which frames went into which packet) and on the
library's pakt chunk + data region (-> entries of the packet table, frames at re-open, every read, every seek).

Correspondence (kind 'corr'): file bytes, staging (frames per packet and a hash of the staged ints against the decoded
reference stream), table entries, frames at re-open, every read's return value and delivered items, every seek's result.

Property predicates on the implementation's own transcript (kind 'pred'):
  count      every write returns the count asked
  frames     (C04) the file re-opens with N <= F < N + 4096 frames, and the reference read delivers exactly F frames
  sizes      (C04) size fields: 'data' chunk size = 4 + packet bytes, pakt packet count = BER entries = ceil (N / 4096),
             BER sizes sum to the packet bytes, pakt valid frames = N, kuki holds bit depth / channels / rate / 4096
  roundtrip  (C01) s16 / s32 values whose low 32-bits bits are clear come back bit exact
  partition  (C07) same caller values, another split into calls (and i / f call variants): same file bytes
  position   (C06) every read returns min (asked, F - position) frames
  stream     (C06) every read delivers the slice of the reference stream at its position
  seek       (C06) a seek returns its absolute target when 0 <= target <= F, else -1; SEEK_CUR 0 reports the position
"""
import collections, concurrent.futures

from . import scripts as S, kernels as K

DIG = K.TY_DIGITS
CAF = 0x180000
SUB = {16: 0x70, 20: 0x71, 24: 0x72, 32: 0x73}
FPB = 4096
LENGTHS = [0, 1, 2, 3, 7, 100, 4095, 4096, 4097, 4096, 4097, 4095, 8191, 8192, 8193]
CONTENTS = ["zero", "noise", "quiet", "ramp", "mixture", "extremes"]
M32 = 0xFFFFFFFF
CATS = {
    "C01": {"roundtrip", "count", "crash", "open"},
    "C04": {"frames", "sizes", "crash", "open"},
    "C06": {"stream", "position", "seek", "crash", "open"},
    "C07": {"partition", "crash", "open"},
}


def fnv(xs):
    h = 14695981039346656037
    for x in xs:
        h = ((h ^ (x & M32)) * 1099511628211) & 0xFFFFFFFFFFFFFFFF
    return h


def content(rng, kind, n, bits):
    """n signed 32-bit codec values, low (32 - bits) bits clear"""
    sh = 32 - bits
    mask = M32 ^ ((1 << sh) - 1)
    if kind == "zero":
        return [0] * n
    if kind == "noise":
        return [rng.getrandbits(32) & mask for _ in range(n)]
    if kind == "quiet":
        return [((rng.randrange(-40, 41)) << sh) & M32 for _ in range(n)]
    if kind == "ramp":
        st = rng.choice([1, 3, 257])
        return [((k * st) << sh) & mask for k in range(n)]
    if kind == "extremes":
        return [rng.choice([0x7FFFFFFF & mask, 0x80000000, 0, mask, 1 << sh]) for _ in range(n)]
    out = []
    while len(out) < n:
        k = min(n - len(out), rng.choice([1, 17, 500, 3000]))
        out += content(rng, rng.choice(["zero", "noise", "quiet", "ramp", "extremes"]), k, bits)
    return out


def split(rng, n):
    out, left = [], n
    while left > 0:
        # call boundaries at every fill level of the 4096-frame staging buffer (nearly empty, a quarter, just past half, three quarters, full +- 1)
        k = min(left, rng.choice([1, 2, 7, 100, 1000, FPB // 2 + 1, 3000, 4095, 4096, 4097, left, left]))
        out.append(k)
        left -= k
    return out


class Job:
    def __init__(self, name, bits, ch, sr, n, ty, cont, vals, calls, plan):
        self.name, self.bits, self.ch, self.sr, self.n, self.ty, self.cont, self.vals = name, bits, ch, sr, n, ty, cont, vals
        self.calls, self.plan = calls, plan          # calls: (frames, 'i'|'f'); plan: read / seek lines on h2
        self.word = CAF | SUB[bits]
        self.twin = None
        self.fmtname = "caf-alac%d" % bits

    def write_lines(self):
        L, at = [], 0
        for (k, v) in self.calls:
            items = self.vals[at * self.ch:(at + k) * self.ch]
            cnt = k if v == "f" else k * self.ch
            L.append("w h0 %s %s %d %s" % (self.ty, v, cnt, K.hex_items(items, DIG[self.ty])))
            at += k
        return L

    def harness_script(self):
        L = ["open h0 s0 w fmt=%08x ch=%d sr=%d" % (self.word, self.ch, self.sr)] + self.write_lines()
        L += ["close h0", "dump s0", "open h1 s0 r", "info h1", "r h1 s32 f %d" % (self.n + FPB + 8), "r h1 s32 f 1", "close h1"]
        if self.plan:
            L += ["open h2 s0 r"] + [l.replace("@", "h2") for l in self.plan] + ["close h2"]
        self.lines = L
        return "\n".join(L) + "\n"


def to_caller(ty, x):
    """the caller value (as the harness wants it: the bit pattern of the host value) whose codec value is x (s32, low bits clear);
    float / double callers get k / 32768 for the 16-bit value k = x >> 16 (exact in both types; alac_write_f / alac_write_d scale it back
    with psf->norm_float, the double path through 0x7FFFFFFF -- not lossless, so C01's round-trip clause is not asked of these jobs)"""
    if ty == "s32":
        return x & M32
    if ty == "s16":
        return (x >> 16) & 0xFFFF
    k = (x >> 16) & 0xFFFF
    k = k - 65536 if k >= 32768 else k
    import struct
    if ty == "f32":
        return int.from_bytes(struct.pack(">f", k / 32768.0), "big")
    return int.from_bytes(struct.pack(">d", k / 32768.0), "big")


LOSSLESS_TYPES = ("s16", "s32")       # the caller types C01 names for ALAC (integer samples that fit the bit depth)


def read_plan(rng, n, ch, ty):
    L = []
    F = n
    for _ in range(rng.randrange(4, 12)):
        r = rng.random()
        if r < 0.45:
            tgt = rng.choice([0, 1, FPB - 1, FPB, FPB + 1, 2 * FPB, max(F - 1, 0), F, F + 1, rng.randrange(0, F + 2), rng.randrange(0, F + 2), F // 2])
            wh = rng.choice([0, 0, 0, 1, 2])
            if wh == 0:
                L.append(("seek @ %d 0" % tgt, tgt))
            elif wh == 1:
                L.append(("seek @ %d 1" % rng.choice([0, 0, 1, -1, 5, -FPB, FPB, tgt % 50]), None))
            else:
                L.append(("seek @ %d 2" % (tgt - F), None))
        else:
            k = rng.choice([1, 2, 3, 100, FPB - 1, FPB, FPB + 1, 2 * FPB + 1, 17])
            t = rng.choice([ty, ty, "s32", "s16"])
            if rng.random() < 0.5:
                L.append(("r @ %s f %d" % (t, k), None))
            else:
                L.append(("r @ %s i %d" % (t, k * ch), None))
    # always: the end of the stream reached by SEEK_SET and by SEEK_END, the last frame, the last packet boundary
    fixed = ["seek @ %d 0" % F, "r @ %s f 1" % ty, "seek @ 0 2", "seek @ %d 0" % max(F - 1, 0), "r @ s32 f 2",
             "seek @ %d 0" % (max(F - 1, 0) // FPB * FPB), "r @ %s f 3" % ty]
    return [l for (l, _) in L] + fixed


def make_jobs(ctx, njobs):
    rng = ctx.rng
    jobs = []
    combos = [(b, c) for b in (16, 20, 24, 32) for c in range(1, 9)]
    rng.shuffle(combos)
    k = 0
    while len(jobs) < njobs:
        bits, ch = combos[k % len(combos)]
        n = LENGTHS[k % len(LENGTHS)] if rng.random() < 0.8 else rng.randrange(0, 9000)
        directed = None
        if k < 5:
            # directed: whole packets whose BER bytes fill the pakt chunk exactly (no padding, so the table has no extra zero entry and
            # frames = entries * 4096): 2 x 2 bytes, 4 x 1 byte (all-zero packets are a few bytes), 4 x 3 bytes
            bits, ch, n, directed = [(16, 1, 2 * FPB, "quiet"), (24, 1, 4 * FPB, "zero"), (16, 2, 4 * FPB, "noise"),
                                      (32, 2, FPB - 1, "noise"),       # an uncompressed packet of 32768 bytes: BER 82 80 00, the entry ends in a zero byte
                                      (16, 1, 13 * FPB + 5, "zero")][k]   # 14 one-byte entries: more than pakt_size / 4, the reader's table has to grow (alac_pakt_append)
        if n * ch > 34000 and not directed:
            n = rng.choice([0, 1, 2, 100, FPB - 1, FPB, FPB + 1]) if ch <= 8 else 100
        cont = CONTENTS[(k // 3) % len(CONTENTS)] if rng.random() < 0.7 else rng.choice(CONTENTS)
        if directed:
            cont = directed
        ty = "s16" if (bits == 16 and rng.random() < 0.6) or rng.random() < 0.15 else "s32"
        if directed is None and k % 6 in (3, 5):
            # every caller type has its OWN copy of the staging loop (alac_write_s / _i / _f / _d): float and double callers, item and
            # frame variants, are partition twins like the integer ones
            ty = "f64" if k % 6 == 3 else "f32"
            if n < 2:
                n = rng.choice([100, FPB - 1, FPB + 1, 2 * FPB + 1, rng.randrange(2, 9000)])
                if n * ch > 34000:
                    n = rng.choice([100, FPB - 1, FPB + 1])
        xs = content(rng, cont, n * ch, 16 if ty != "s32" else bits)
        vals = [to_caller(ty, x) for x in xs]
        sr = rng.choice([8000, 44100, 48000, 96000, 1, 2 ** 31 - 1, 65537, 11025])
        name = "alac%d-c%d-n%d-%s-%s-%d" % (bits, ch, n, ty, cont, k)
        calls = [(c, rng.choice("if")) for c in split(rng, n)]
        a = Job(name, bits, ch, sr, n, ty, cont, vals, calls, read_plan(rng, n, ch, ty if ty in LOSSLESS_TYPES else "s32"))
        a.xs = xs
        if len(calls) <= 1:
            calls2 = [(c, rng.choice("if")) for c in split(rng, n)] if n > 1 else [(n, "i" if calls and calls[0][1] == "f" else "f")] if n else []
        else:
            calls2 = [(n, rng.choice("if"))]
        b = Job(name + "-twin", bits, ch, sr, n, ty, cont, vals, calls2, [])
        b.xs = xs
        a.twin = b.name
        jobs += [a, b]
        k += 1
    return jobs


# ---------------------------------------------------------------------------------------------------
# independent decoder of the file
# ---------------------------------------------------------------------------------------------------

def caf_chunks(fb):
    """fb: bytes of the file -> dict id -> (offset of data, declared size), order list; None when not a CAF file"""
    if fb[:4] != b"caff":
        return None
    pos, out, order = 8, {}, []
    while pos + 12 <= len(fb):
        cid = fb[pos:pos + 4].decode("latin1")
        size = int.from_bytes(fb[pos + 4:pos + 12], "big")
        out[cid] = (pos + 12, size)
        order.append(cid)
        pos += 12 + size
    return out, order


def ber_list(b):
    out, v = [], 0
    for x in b:
        v = (v << 7) | (x & 0x7F)
        if not x & 0x80:
            out.append(v)
            v = 0
    return out


class FileView:
    def __init__(self, hexs):
        self.hex = hexs
        fb = bytes.fromhex(hexs)
        self.fb = fb
        self.ok = False
        cw = caf_chunks(fb)
        if not cw:
            return
        ch, order = cw
        self.order = order
        if "pakt" not in ch or "data" not in ch or "kuki" not in ch or "desc" not in ch:
            return
        o, s = ch["pakt"]
        self.pakt = fb[o:o + s]
        o, s = ch["kuki"]
        self.kuki = fb[o:o + s]
        o, s = ch["data"]
        self.data_size_field = s
        self.data = fb[o + 4:]                   # after the edit count, to the end of the file (pad byte included)
        self.data_off = o + 4
        o, s = ch["desc"]
        self.desc = fb[o:o + s]
        if len(self.pakt) < 24:
            return
        self.packets = int.from_bytes(self.pakt[0:8], "big")
        self.valid = int.from_bytes(self.pakt[8:16], "big")
        self.priming = int.from_bytes(self.pakt[16:20], "big")
        self.remainder = int.from_bytes(self.pakt[20:24], "big")
        body = self.pakt[24:]
        # every BER entry of the body; the zero bytes psf_save_write_chunk pads with (at most three) decode as zero entries at the end
        # (a zero byte that ENDS a multi-byte entry, e.g. 256 = 82 00 or 32768 = 82 80 00, belongs to that entry)
        ent = ber_list(body)
        k = 0
        while ent and ent[-1] == 0 and k < 3:
            ent.pop()
            k += 1
        self.sizes = ent
        self.ok = True

    def packet_bytes(self):
        out, at = [], 0
        for s in self.sizes:
            out.append(self.data[at:at + s])
            at += s
        return out


# ---------------------------------------------------------------------------------------------------

def kv(line):
    d = {}
    for t in line.split():
        if "=" in t:
            a, b = t.split("=", 1)
            d[a] = b
    return d


def items_of(hexs, w):
    return [hexs[i:i + w] for i in range(0, len(hexs) - w + 1, w)]


def model_script(job, fv, ref_items):
    """ref_items: the reference stream as 8-digit hex items"""
    L = ["codec alac bits=%d ch=%d sr=%d" % (job.bits, job.ch, job.sr)]
    pk = fv.packet_bytes() if fv and fv.ok else []
    for p in pk:
        L.append("enc %s" % p.hex())
    L += [l.replace("w h0 ", "w ") for l in job.write_lines()]
    L.append("close")
    if job.plan and fv and fv.ok:
        per = FPB * job.ch
        for k, p in enumerate(pk):
            L.append("dec %s %s" % (p.hex(), "".join(ref_items[k * per:(k + 1) * per])))
        L.append("load len=%d pakt=%s data=%s" % (len(fv.fb), fv.pakt.hex(), fv.data.hex()))
        L += [l.replace("@ ", "") for l in job.plan]
    return "\n".join(L) + "\n"


def run_model(ctx, scripts, workers=3):
    chunks = [scripts[i::workers] for i in range(workers)]
    chunks = [c for c in chunks if c]

    def one(chunk):
        inp = "".join("== %s\n%s" % (n, t) for (n, t) in chunk)
        out = ctx.run_model(["alac", "script"], inp, timeout=3600)
        res, cur = {}, None
        for line in out.split("\n"):
            if line.startswith("== "):
                cur = line[3:]
                res[cur] = []
            elif cur is not None and line:
                res[cur].append(line)
        return res

    out = {}
    with concurrent.futures.ThreadPoolExecutor(max_workers=len(chunks) or 1) as ex:
        for r in ex.map(one, chunks):
            out.update(r)
    return out


class Problem:
    def __init__(self, job, kind, cat, text, line=None, impl=None, model=None, expect=None):
        self.job, self.kind, self.cat, self.text, self.line, self.impl, self.model, self.expect = job, kind, cat, text, line, impl, model, expect
        self.twin_script = None


def analyse(job, impl, fv, model):
    probs = []
    info = collections.Counter()
    sl = job.lines

    def P(kind, cat, text, line=None, i=None, m=None, expect=None):
        probs.append(Problem(job, kind, cat, text, line, i, m, expect))

    if any(l.startswith(("CRASH", "ABORT", "TIMEOUT")) for l in impl):
        P("pred", "crash", "the implementation died: %s" % next(l for l in impl if l.startswith(("CRASH", "ABORT", "TIMEOUT"))))
        return probs, info
    if len(impl) != len(sl):
        P("pred", "crash", "transcript has %d lines for %d operations: %s" % (len(impl), len(sl), " | ".join(l[:60] for l in impl)))
        return probs, info
    nw = len(job.calls)
    if "open=ok" not in impl[0]:
        P("pred", "open", "open for write failed: %s" % impl[0], 0)
        return probs, info
    for i, (k, v) in enumerate(job.calls):
        want = k if v == "f" else k * job.ch
        if kv(impl[1 + i]).get("ret") != str(want):
            P("pred", "count", "write call %d returned %s, asked %d" % (i, kv(impl[1 + i]).get("ret"), want), 1 + i, expect="ret=%d" % want)
    c = 1 + nw
    # c: close, c+1: dump, c+2: open h1, c+3: info, c+4: reference read, c+5: read of one more frame, c+6: close
    if not fv or not fv.ok:
        P("pred", "sizes", "the closed file has no desc / kuki / pakt / data chunk sequence an independent walker can follow", c + 1)
        return probs, info
    if "open=ok" not in impl[c + 2]:
        P("pred", "open", "the file just written does not re-open: %s" % impl[c + 2], c + 2)
        return probs, info
    F = int(kv(impl[c + 2]).get("frames", "-1"))
    N = job.n
    if not (N <= F < N + FPB):
        P("pred", "frames", "%d frames written, the file re-opens with %d" % (N, F), c + 2, expect="frames=%d" % N)
    rr = kv(impl[c + 4])
    ret = int(rr.get("ret", "-1"))
    ref = items_of(rr.get("data", ""), 8)[:max(ret, 0) * job.ch]
    if ret != F:
        P("pred", "frames", "re-open reports %d frames, a read of %d delivers %d" % (F, N + FPB + 8, ret), c + 4, expect="ret=%d" % F)
    if kv(impl[c + 5]).get("ret") != "0":
        P("pred", "frames", "a read after the end of the stream returns %s" % kv(impl[c + 5]).get("ret"), c + 5, expect="ret=0")
    # size fields
    tot = sum(fv.sizes)
    padded = len(fv.data) - tot
    bad = []
    if fv.data_size_field != 4 + tot:
        bad.append("'data' chunk size %d, packets hold %d bytes (+4)" % (fv.data_size_field, tot))
    if padded not in (0, 1) or (len(fv.fb) % 2):
        bad.append("%d bytes behind the last packet, file length %d" % (padded, len(fv.fb)))
    if fv.packets != len(fv.sizes) or len(fv.sizes) != (N + FPB - 1) // FPB:
        bad.append("pakt says %d packets, the table has %d entries, %d frames need %d" % (fv.packets, len(fv.sizes), N, (N + FPB - 1) // FPB))
    if fv.valid != N or fv.priming != 0:
        bad.append("pakt valid frames %d / priming %d for %d frames written" % (fv.valid, fv.priming, N))
    if len(fv.kuki) < 24 or int.from_bytes(fv.kuki[0:4], "big") != FPB or fv.kuki[5] != job.bits or fv.kuki[9] != job.ch \
            or int.from_bytes(fv.kuki[20:24], "big") != job.sr or int.from_bytes(fv.kuki[12:16], "big") != max(fv.sizes + [0]):
        bad.append("kuki does not describe %d bit / %d channels / %d Hz / largest packet %d: %s" % (job.bits, job.ch, job.sr, max(fv.sizes + [0]), fv.kuki[:24].hex()))
    if fv.desc[8:12] != b"alac" or int.from_bytes(fv.desc[24:28], "big") != job.ch or int.from_bytes(fv.desc[20:24], "big") != FPB:
        bad.append("desc chunk: %s" % fv.desc.hex())
    if bad:
        P("pred", "sizes", "; ".join(bad), c + 1)
    info["bytes"] += len(fv.fb)
    # round trip
    want = ["%08x" % (x & M32) for x in job.xs] if job.ty in LOSSLESS_TYPES else []
    if ref[:len(want)] != want or len(ref) < len(want):
        d = next((i for i in range(min(len(ref), len(want))) if ref[i] != want[i]), min(len(ref), len(want)))
        P("pred", "roundtrip", "item %d (frame %d, channel %d) written as %s reads back as %s" % (d, d // job.ch, d % job.ch, want[d] if d < len(want) else "-", ref[d] if d < len(ref) else "(missing)"), c + 4)
    info["items"] += len(ref)
    # ---- model: write side ----
    mi = 0
    for i in range(nw):
        if mi < len(model) and kv(model[mi]).get("ret") != kv(impl[1 + i]).get("ret"):
            P("corr", "count", "write %d" % i, 1 + i, impl[1 + i], model[mi])
        mi += 1
    if mi < len(model) and model[mi].startswith("file="):
        m = kv(model[mi])
        if m["file"] != fv.hex:
            a, b = m["file"], fv.hex
            d = next((i for i in range(0, min(len(a), len(b)), 2) if a[i:i + 2] != b[i:i + 2]), min(len(a), len(b)))
            P("corr", "bytes", "closed file differs from the model at byte %d (lengths %d / %d): impl …%s model …%s" % (d // 2, len(b) // 2, len(a) // 2, b[max(d - 16, 0):d + 24], a[max(d - 16, 0):d + 24]), c + 1)
        per = FPB * job.ch
        exp = []
        for k in range(len(fv.sizes)):
            blk = ref[k * per:(k + 1) * per]
            exp.append("%d:%016x" % (len(blk) // job.ch, fnv([int(x, 16) for x in blk])))
        if m.get("packets", "") != ",".join(exp):
            P("corr", "staging", "frames per packet / staged contents: model %s, decoded reference stream %s" % (m.get("packets", "")[:200], ",".join(exp)[:200]), c)
        info["packets"] += len(exp)
        mi += 1
    else:
        P("corr", "bytes", "no file= line from the model", c)
    # ---- read plan ----
    if not job.plan:
        return probs, info
    base = c + 7
    if "open=ok" not in impl[base]:
        P("pred", "open", "third open failed: %s" % impl[base], base)
        return probs, info
    if mi < len(model) and model[mi].startswith("frames="):
        m = kv(model[mi])
        if m["frames"] != str(F):
            P("corr", "frames", "frames at re-open", c + 2, "frames=%d" % F, model[mi])
        info["table_entries"] += int(m.get("entries", "0"))
        mi += 1
    else:
        P("corr", "frames", "no frames= line from the model", base)
        return probs, info
    pos, failed = 0, False
    for k, op in enumerate(job.plan):
        li = base + 1 + k
        il = impl[li]
        ml = model[mi] if mi < len(model) else "(missing)"
        mi += 1
        t = op.split()
        a = kv(il)
        if t[0] == "r":
            ty, mode, cnt = t[2], t[3], int(t[4])
            nf = cnt if mode == "f" else cnt // job.ch
            unit = 1 if mode == "f" else job.ch
            w = DIG[ty]
            ret = int(a.get("ret", "-1"))
            got = items_of(a.get("data", ""), w)[:max(ret, 0) * (job.ch if mode == "f" else 1)]
            expn = min(nf, max(F - pos, 0))
            if ret != expn * unit:
                P("pred", "position", "read of %d frames at position %d of %d returned %d" % (nf, pos, F, ret), li, expect="ret=%d" % (expn * unit))
            rf = ret // unit if ret > 0 else 0
            sl_ref = ref[pos * job.ch:(pos + rf) * job.ch]
            sl_exp = [x if ty == "s32" else x[:4] for x in sl_ref]
            if got != sl_exp:
                d = next((i for i in range(min(len(got), len(sl_exp))) if got[i] != sl_exp[i]), min(len(got), len(sl_exp)))
                P("pred", "stream", "read at position %d: item %d is %s, the sequential read has %s there" % (pos, d, got[d] if d < len(got) else "(missing)", sl_exp[d] if d < len(sl_exp) else "(nothing)"), li)
            pos += rf
            info["reads"] += 1
            info["items"] += len(got)
            mk_ = kv(ml)
            if mk_.get("ret") != a.get("ret") or (mk_.get("err") == "0") != (a.get("err") == "0") or items_of(mk_.get("data", ""), w) != got:
                P("corr", "read", "read %d" % k, li, il[:200], ml[:200])
        else:
            off, wh = int(t[2]), int(t[3])
            tgt = off if wh == 0 else pos + off if wh == 1 else F + off
            ret = int(a.get("ret", "-2"))
            if 0 <= tgt <= F:
                if ret != tgt:
                    P("pred", "seek", "seek to frame %d (of %d) returned %d" % (tgt, F, ret), li, expect="ret=%d" % tgt)
                else:
                    pos = tgt
            elif ret != -1:
                P("pred", "seek", "seek to frame %d outside 0..%d returned %d" % (tgt, F, ret), li, expect="ret=-1")
            info["seeks"] += 1
            mk_ = kv(ml)
            if mk_.get("ret") != a.get("ret") or (mk_.get("err") == "0") != (a.get("err") == "0"):
                P("corr", "seek", "seek %d" % k, li, il[:200], ml[:200])
    return probs, info



# ---------------------------------------------------------------------------------------------------
# packet sizes steered THROUGH the boundaries of the BER coding of the packet table (C01 / C04)
# ---------------------------------------------------------------------------------------------------
# alac_pakt_encode writes every packet size as a base-128 integer of 1..4 bytes; the cases split at 128, 16384, 2^21 (and 2^28: give up).
# A packet is at most 4096 frames x 8 channels x 4 bytes + a few header bytes, so real files reach the first two splits only (the other two
# are tied through `sfmodel alac pakt-enc` and the theorems of SfProps/C04Alac.lean).  The campaign does not trust any formula for the
# size of a packet: it MEASURES the size of one chosen packet as a function of one steering variable (the number of frames of the final
# packet, or the length of a burst inside an otherwise silent full packet that has another packet behind it), brackets each target and
# runs complete jobs (write, close, every byte against the model, re-open, read back) on every value of the window round the crossing.

BOUNDARY_PROPS = ("C01", "C04")
BER_SPLITS = [128, 16384]
FINE = 64
BER_TARGETS = [127, 128, 129, 16383, 16384, 16385]


class Stream:
    """one fixed sample stream; `job (x)` is the file whose steered packet depends on x only"""
    def __init__(self, rng, sid, bits, ch, cont, kind, lead, big):
        self.sid, self.bits, self.ch, self.cont, self.kind, self.lead, self.big = sid, bits, ch, cont, kind, lead, big
        self.ty = "s16" if bits == 16 else "s32"
        self.body = content(rng, cont, (FPB - 1) * ch, bits)
        self.tail = content(rng, "quiet", 50 * ch, bits)
        self.rng = rng
        # compressible content: a second, finer steering dimension -- the last y < FINE items of the x frames are silenced (a few bits per
        # item), z = x * FINE - y; packets stored uncompressed have a size that depends on x alone
        self.fine = FINE if cont != "noise" else 1
        self.sizes = {}                     # z -> measured size of the steered packet
        self.tried = set()
        self.made = set()

    def index(self):
        return 1 if (self.kind == "prefix" and self.lead) else 0

    def job(self, z, tag):
        ch = self.ch
        x = -(-z // self.fine)
        y = min(x * self.fine - z, x * ch)
        self.tried.add(z)
        if (x, y) in self.made:             # (small x: y is capped, several z are the same file)
            return None
        self.made.add((x, y))
        body = self.body[:x * ch - y] + [0] * y
        if self.kind == "prefix":           # [4096 silent frames] + the first x frames of the stream: the steered packet is the final one
            xs = [0] * (self.lead * ch) + body
        else:                               # burst: x frames of the stream, silence up to 4096, then 50 more frames (a packet BEHIND the steered one)
            xs = body + [0] * ((FPB - x) * ch) + self.tail
        n = len(xs) // ch
        vals = [to_caller(self.ty, v) for v in xs]
        calls = [(c, self.rng.choice("if")) for c in (split(self.rng, n) if tag == "w" else [n])]
        j = Job("alacber-%s-x%d-y%d-%s" % (self.sid, x, y, tag), self.bits, ch, 44100, n, self.ty, self.cont + "/" + self.kind, vals, calls, [])
        j.xs = xs
        j.stream, j.x = self, z
        self.tried.add(z)
        return j


def boundary_streams(rng):
    S = []
    small = [(16, 1, "noise", "prefix", 0), (16, 2, "noise", "prefix", FPB), (20, 1, "noise", "prefix", 0), (24, 1, "noise", "prefix", 0),
             (32, 1, "noise", "prefix", FPB), (16, 3, "noise", "prefix", 0), (20, 2, "noise", "prefix", 0), (16, 1, "quiet", "prefix", 0),
             (16, 2, "ramp", "prefix", 0), (24, 2, "quiet", "prefix", FPB), (16, 1, "noise", "burst", 0), (24, 2, "quiet", "burst", 0),
             (32, 3, "quiet", "burst", 0)]
    big = [(16, 2, "noise", "prefix", 0), (20, 2, "noise", "prefix", 0), (32, 1, "noise", "prefix", FPB), (24, 5, "quiet", "prefix", 0),
           (16, 8, "quiet", "prefix", 0), (32, 4, "quiet", "burst", 0), (16, 3, "noise", "burst", 0)]
    for i, t in enumerate(small):
        S.append(Stream(rng, "s%d-%d-%d-%s-%s" % (i, t[0], t[1], t[2], t[3]), *t, big=False))
    for i, t in enumerate(big):
        S.append(Stream(rng, "b%d-%d-%d-%s-%s" % (i, t[0], t[1], t[2], t[3]), *t, big=True))
    return S


def measure(jobs, impl):
    for j in jobs:
        hx = dump_hex(impl.get(j.name, []))
        fv = FileView(hx) if hx else None
        if fv and fv.ok and len(fv.sizes) > j.stream.index():
            j.stream.sizes[j.x] = fv.sizes[j.stream.index()]
        elif fv and fv.ok:
            j.stream.sizes[j.x] = 0         # the table ends before the steered packet (what a mis-coded size looks like): judged by `analyse`


def crossing(st, T):
    """the smallest measured x whose packet is >= T and the largest whose packet is < T -> the values of x to try next"""
    pts = sorted(st.sizes.items())
    lo = max([x for x, s in pts if 0 < s < T], default=None)
    hi = min([x for x, s in pts if s >= T and (lo is None or x > lo)], default=None)
    if lo is None or hi is None:
        return []
    if hi - lo <= 1:
        return []
    a, b = st.sizes[lo], st.sizes[hi]
    est = lo + (T - a) * (hi - lo) // max(b - a, 1)
    est = min(max(est, lo + 1), hi - 1)
    return [x for x in range(est - 2, est + 3) if lo < x < hi and x not in st.tried]


def boundary_campaign(ctx):
    rng = ctx.rng
    streams = boundary_streams(rng)
    jobs, hs, impl = [], {}, {}
    ladder_small = [2, 8, 24, 48, 96, 200, 400]
    ladder_big = [256, 1024, 2048, 3072, FPB - 1]
    first = [j for j in (st.job(x * st.fine, "p") for st in streams for x in (ladder_big if st.big else ladder_small)) if j]
    rounds = [first]
    for rnd in range(7):
        cur = rounds[-1]
        if not cur:
            break
        h, im = run_harness(ctx, cur)
        hs.update(h)
        impl.update(im)
        jobs += cur
        measure(cur, im)
        nxt = []
        for st in streams:
            want = set()
            for T in ([16383, 16384, 16385, 16386] if st.big else [127, 128, 129, 130]):
                want.update(crossing(st, T))
            nxt += [j for j in (st.job(x, "w") for x in sorted(want)) if j]
        rounds.append(nxt)
    hit = collections.Counter()
    per_split = collections.Counter()
    for st in streams:
        for x, s in st.sizes.items():
            if s in BER_TARGETS:
                hit[s] += 1
                ctx.distinct.add("alac:ber:%d:%s" % (s, st.kind))
        for B in BER_SPLITS:
            ss = set(st.sizes.values())
            if any(0 < s < B for s in ss) and any(s >= B for s in ss):
                per_split[B] += 1
    bstats = {"streams": len(streams), "jobs": len(jobs), "rounds": len([r for r in rounds if r]),
              "packets_of_exactly": {str(t): hit[t] for t in BER_TARGETS},
              "streams_crossing_split": {str(b): per_split[b] for b in BER_SPLITS},
              "distinct_steered_sizes": len(set(s for st in streams for s in st.sizes.values()))}
    return jobs, hs, impl, bstats


def ber(v):
    out = [v & 0x7F]
    v >>= 7
    while v:
        out.insert(0, (v & 0x7F) | 0x80)
        v >>= 7
    return out


def dump_hex(lines):
    l = next((l for l in lines if l.startswith("len=") and "hex=" in l), None)
    return l.split("hex=")[1].strip() if l is not None else ""


def pakt_cases(ctx, rng, n=40):
    """pakt encode / decode directly: BER boundaries, against the independent Python BER coder"""
    probs = []
    lines, exp = [], []
    B = [1, 2, 126, 127, 128, 129, 255, 16382, 16383, 16384, 16385, 2097150, 2097151, 2097152, 2097153, 268435454, 268435455]
    for i in range(n):
        k = rng.choice([0, 1, 2, 3, 5, 9])
        sizes = [rng.choice(B) if rng.random() < 0.7 else rng.randrange(1, 1 << rng.randrange(1, 28)) for _ in range(k)]
        fr, sp = rng.randrange(0, 1 << 33), rng.randrange(0, FPB)
        lines.append(" ".join(str(x) for x in [fr, sp] + sizes))
        body = bytes(x for s in sizes for x in ber(s))
        exp.append((len(sizes).to_bytes(8, "big") + fr.to_bytes(8, "big") + (0).to_bytes(4, "big") + (FPB - sp).to_bytes(4, "big") + body, sizes))
    lines.append("5 5 268435456")
    out = ctx.run_model(["alac", "pakt-enc"], "\n".join(lines) + "\n").split("\n")
    dec_in = []
    for i, (b, sizes) in enumerate(exp):
        if out[i].strip() != b.hex():
            probs.append("pakt-enc line '%s': model %s, independent coder %s" % (lines[i], out[i][:120], b.hex()[:120]))
        padded = b + b"\0" * ((4 - len(b) % 4) % 4)
        dec_in.append(padded.hex())
    if out[len(exp)].strip() != "none":
        probs.append("pakt-enc of 2^28 is '%s', alac_pakt_encode gives up there" % out[len(exp)][:60])
    out = ctx.run_model(["alac", "pakt-dec"], "\n".join(dec_in) + "\n").split("\n")
    for i, (b, sizes) in enumerate(exp):
        want = sizes + ([0] if len(b) % 4 else [])
        if [int(x) for x in out[i].split()] != want:
            probs.append("pakt-dec of %s: model %s, expected %s" % (dec_in[i][:120], out[i][:120], want))
    return probs, len(exp) * 2 + 1


def run_harness(ctx, jobs):
    """the harness scripts of the jobs -> (scripts by name, transcripts by name)"""
    hs = {j.name: j.harness_script() for j in jobs}
    # one private TMPDIR per harness process: alac.c spools the packets through <TMPDIR>/<two pseudo-random numbers>-alac.tmp opened with
    # fopen "wb+" (no O_EXCL), the numbers are seeded from the wall clock, and other checks write ALAC files at the same time -- two
    # processes that pick the same name share one spool file (seen once: a job's data chunk held another job's packet)
    import tempfile, shutil
    lst = [(j.name, hs[j.name]) for j in jobs]
    dirs = [tempfile.mkdtemp(prefix="sfverif-alac-") for _ in range(3)]
    impl = {}
    try:
        with concurrent.futures.ThreadPoolExecutor(max_workers=3) as ex:
            for r in ex.map(lambda k: ctx.batch(lst[k::3], workers=1, clean=True, env={"TMPDIR": dirs[k]}), range(3)):
                impl.update(r)
    finally:
        for d in dirs:
            shutil.rmtree(d, ignore_errors=True)
    return hs, impl


def campaign(ctx, njobs, prop=None):
    jobs = make_jobs(ctx, njobs)
    hs, impl = run_harness(ctx, jobs)
    bstats = {}
    if prop in BOUNDARY_PROPS:
        bjobs, bhs, bimpl, bstats = boundary_campaign(ctx)
        jobs += bjobs
        hs.update(bhs)
        impl.update(bimpl)
    views, ms = {}, []
    for j in jobs:
        il = impl.get(j.name, [])
        hx = dump_hex(il)
        fv = FileView(hx) if hx else None
        views[j.name] = fv
        c = 1 + len(j.calls)
        ref = []
        if len(il) > c + 4:
            rr = kv(il[c + 4])
            ref = items_of(rr.get("data", ""), 8)[:max(int(rr.get("ret", "0")), 0) * j.ch]
        ms.append((j.name, model_script(j, fv, ref)))
    model = run_model(ctx, ms)
    stats = collections.Counter()
    probs = []
    for j in jobs:
        p, info = analyse(j, impl.get(j.name, []), views[j.name], model.get(j.name, []))
        probs += p
        stats["jobs"] += 1
        stats["ops"] += len(j.lines)
        stats["frames_written"] += j.n
        stats["file_bytes_compared"] += info["bytes"]
        stats["items_read_and_compared"] += info["items"]
        stats["reads_compared"] += info["reads"]
        stats["seeks_compared"] += info["seeks"]
        stats["packets_compared"] += info["packets"]
        stats["fmt:" + j.fmtname] += 1
        stats["channels:%d" % j.ch] += 1
        ctx.distinct.add("alac:%d:%d" % (j.bits, j.ch))
        ctx.distinct.add("alac:content:%s" % j.cont)
    byname = {j.name: j for j in jobs}
    for j in jobs:
        if not j.twin:
            continue
        a, b = views.get(j.name), views.get(j.twin)
        if not a or not b:
            continue
        stats["twins_compared"] += 1
        if a.hex != b.hex:
            x, y = a.hex, b.hex
            d = next((i for i in range(0, min(len(x), len(y)), 2) if x[i:i + 2] != y[i:i + 2]), min(len(x), len(y)))
            pr = Problem(j, "pred", "partition", "the same caller values written in %d calls and in %d calls give files that differ from byte %d (lengths %d / %d)"
                         % (len(j.calls), len(byname[j.twin].calls), d // 2, len(x) // 2, len(y) // 2), None)
            pr.twin_script = hs[j.twin]
            probs.append(pr)
    pp, npk = pakt_cases(ctx, ctx.rng)
    stats["pakt_lines"] = npk
    if bstats:
        stats["boundary"] = bstats
    return jobs, hs, probs, stats, pp


def run(ctx, prop, njobs):
    """called from the property's run(): reports violations; returns True if a failing input was reported"""
    jobs, hs, probs, stats, pp = campaign(ctx, njobs, prop)
    ctx.count(stats["ops"] + stats["pakt_lines"])
    ctx.coverage["traces_validated_against_impl"] += stats["jobs"]
    corr = [p for p in probs if p.kind == "corr"]
    corr_jobs = {p.job.name for p in corr}
    found = False
    reported = set()
    for p in probs:
        if p.kind != "pred" or p.cat not in CATS[prop]:
            continue
        j = p.job
        key = (j.fmtname, p.cat)
        if key in reported or len(reported) >= 3:
            continue
        reported.add(key)
        found = True
        sl = j.lines
        script = "\n".join(sl[:p.line + 1] if p.line is not None else sl) + "\n"
        if p.twin_script:
            script = hs[j.name] + "# --- the same caller values, another partition:\n" + p.twin_script
        head = "expect-last %s\n" % p.expect if p.expect and p.line is not None else ""
        ctx.violation("%s-alac-%s-%s" % (prop.lower(), j.fmtname, p.cat),
                      "# %s violated on the implementation's own transcript (ALAC campaign, predicate '%s')\n# format %s (%08x), %d channel(s), %d Hz, %d frames of %s, content %s\n# %s\n%s--- script\n%s"
                      % (prop, p.cat, j.fmtname, j.word, j.ch, j.sr, j.n, j.ty, j.cont, p.text, head, script))
    if (corr or pp) and not found:
        if corr:
            p = corr[0]
            j = p.job
            ln = p.line or 0
            ctx.violation("%s-alac-correspondence-%s" % (prop.lower(), j.fmtname),
                          "# correspondence stream 'ALAC file model (Sf.Alac) vs implementation' no longer agrees: %d differences in %d of %d jobs\n"
                          "# first: %s (%s), script line %d: %s\n# %s\n# implementation: %s\n# model: %s\n"
                          "# the %s predicates on the implementation's transcripts found no failing input\n--- script\n%s"
                          % (len(corr), len(corr_jobs), stats["jobs"], j.name, p.cat, ln, j.lines[ln][:100], p.text[:600], (p.impl or "")[:300], (p.model or "")[:300], prop,
                             "\n".join(j.lines[:ln + 1]) + "\n"), no_input=True)
        else:
            ctx.violation("%s-alac-pakt-coder" % prop.lower(), "# the model's pakt coder and the independent BER coder disagree\n# " + "\n# ".join(pp[:5]) + "\n", no_input=True)
        found = True
    note = {k: v for k, v in sorted(stats.items())}
    note["correspondence_differences"] = len(corr)
    note["predicate_failures_by_category"] = dict(collections.Counter(p.cat for p in probs if p.kind == "pred"))
    ctx.notes["alac"] = note
    ctx.sample({"kind": "ALAC job (%s)" % prop, "jobs": stats["jobs"], "example": next((t for t in hs.values() if len(t) < 900), next(iter(hs.values()))[:900])})
    ctx.coverage["rule"] = (ctx.coverage.get("rule", "") + " | alac: CAF x ALAC 16/20/24/32 x 1..8 channels, lengths {0,1,2,3,7,100,4095..4097,8191..8193} and random up to 9000 frames (item budget 34000), contents "
                            "{zero, noise (uncompressed packets), quiet, ramp, extremes, mixtures}, written in calls of {1,2,7,100,1000,4095,4096,4097,whole} frames through item and frame calls, a twin with another partition, "
                            "read back whole and in pieces {1,2,3,17,100,4095,4096,4097,8193}, seeks SET/CUR/END to {0,1,4095,4096,4097,8192,F-1,F,F+1,random}; every byte of the closed file, packet staging, pakt table, "
                            "frame count, reads and seeks compared with the Lean model, the codec core instantiated from the library's own packets (reference run; sampled, not exhaustive)")
    return found
