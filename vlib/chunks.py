"""C13 helpers: script generation for custom-chunk campaigns and parsing of chunk transcripts."""

FMT = {"wav": "10002", "rf64": "220002", "aiff": "20002", "caf": "180002"}
CONTAINERS = ("wav", "rf64", "aiff", "caf")
CHUNK_OPS = ("setchunk", "chunkall", "chunkiter", "chunknext", "chunkdata")


def pad4(n):
    return (n + 3) // 4 * 4


def audio_hex(frames):
    return "".join("%04x" % ((k * 257 + 1) & 0xffff) for k in range(frames))


def mk_script(cont, chunks, late=(), frames=8, pre=(), mid=None, reads=(), route="path", post_open=()):
    """chunks/late: lists of (id bytes, payload bytes); pre: raw op lines before the chunks;
    mid: (position, [op lines]) inserted between set_chunk calls; reads: op lines on the read handle."""
    L = ["open h0 s0 w fmt=%s ch=1 sr=8000" % FMT[cont]]
    L += list(pre)
    for k, (i, d) in enumerate(chunks):
        if mid is not None and mid[0] == k:
            L += list(mid[1])
        L.append("setchunk h0 %s %s" % (i.hex(), d.hex()))
    if mid is not None and mid[0] >= len(chunks):
        L += list(mid[1])
    if frames:
        L.append("w h0 s16 i %d %s" % (frames, audio_hex(frames)))
    for (i, d) in late:
        L.append("setchunk h0 %s %s" % (i.hex(), d.hex()))
    L.append("close h0")
    L.append("dump s0 sum")
    L.append("open h1 s0 r fmt=0 ch=0 sr=0 route=%s" % route)
    L += list(post_open)
    L += list(reads)
    L.append("r h1 s16 i %d" % (frames + 2))
    L.append("close h1")
    return "\n".join(L) + "\n"


def split_ops(script, lines):
    """Pair every script op with its transcript lines (chunkall: up to and including the 'end' line).
    Returns list of (op tokens, [lines]); a crash marker ends the pairing (remaining ops get [])."""
    ops = [l.split() for l in script.split("\n") if l.strip() and not l.startswith("#")]
    res = []
    k = 0
    for op in ops:
        if k >= len(lines):
            res.append((op, []))
            continue
        if lines[k].startswith(("CRASH", "ABORT", "TIMEOUT")) or lines[k] == "":
            res.append((op, lines[k:]))
            k = len(lines)
            continue
        if op[0] == "chunkall":
            j = k
            while j < len(lines) and not lines[j].startswith("end n=") and not lines[j].startswith(("CRASH", "ABORT", "TIMEOUT")):
                j += 1
            res.append((op, lines[k:j + 1]))
            k = j + 1
        else:
            res.append((op, [lines[k]]))
            k += 1
    if k < len(lines):
        res.append((["<trailing>"], lines[k:]))
    return res


def chunk_lines(pairs):
    out = []
    for op, ls in pairs:
        if op[0] in CHUNK_OPS:
            out += ls
    return out


def parse_entry(line):
    """'c size_ret=0 size=8 data_ret=0 id=61626364 buflen=8 data=…' -> dict"""
    d = {}
    for tok in line.split():
        if "=" in tok:
            k, v = tok.split("=", 1)
            d[k] = v
    return d


def crashed(lines):
    for l in lines:
        if l.startswith(("CRASH", "ABORT", "TIMEOUT")):
            return l
    return None
