"""G.711 tables obtained from the running library (extraction by execution)."""

RAW_ULAW = "00040010"
RAW_ALAW = "00040011"
LAWS = {"ulaw": (RAW_ULAW, 2, 8193), "alaw": (RAW_ALAW, 4, 2049)}


def s16hex(xs):
    return "".join("%04x" % (x & 0xFFFF) for x in xs)


def tables_script():
    lines = []
    allcodes = "".join("%02x" % c for c in range(256))
    k = 0
    for law, (fmt, shift, n) in LAWS.items():
        lines += ["store s%d %s" % (k, allcodes),
                  "open h0 s%d r fmt=%s ch=1 sr=8000" % (k, fmt),
                  "r h0 s16 i 256", "close h0"]
        k += 1
        step = 1 << shift
        lines += ["open h0 s%d w fmt=%s ch=1 sr=8000" % (k, fmt),
                  "w h0 s16 i %d %s" % (n - 1, s16hex(range(0, (n - 1) * step, step))),
                  "w h0 f32 i 1 3f800000",      # 1.0 -> lrintf (normfact * 1.0) = last index
                  "close h0", "dump s%d" % k]
        k += 1
    return "\n".join(lines) + "\n"


def parse_tables(lines):
    """returns {law: (dec[256], enc[n])} from the transcript of tables_script()"""
    res = {}
    i = 0
    for law, (fmt, shift, n) in LAWS.items():
        # store, open, r, close, open, w, w, close, dump
        rline = lines[i + 2]
        data = rline.split("data=")[1]
        dec = [int(data[4 * j:4 * j + 4], 16) for j in range(256)]
        dec = [d - 65536 if d >= 32768 else d for d in dec]
        dump = lines[i + 8]
        hx = dump.split("hex=")[1]
        enc = [int(hx[2 * j:2 * j + 2], 16) for j in range(len(hx) // 2)]
        res[law] = (dec, enc)
        i += 9
    return res


def lean_list(name, ty, xs, chunk=256, per=32):
    """a long list literal as a concatenation of short ones (a single 8193-element literal exceeds
    the elaborator's recursion depth)"""
    out = []
    names = []
    for k in range(0, len(xs), chunk):
        part = xs[k:k + chunk]
        rows = [", ".join(str(x) for x in part[j:j + per]) for j in range(0, len(part), per)]
        nm = "%s_%d" % (name, k // chunk)
        names.append(nm)
        out.append("private def %s : List %s :=\n  [%s]" % (nm, ty, ",\n   ".join(rows)))
    out.append("def %s : List %s :=\n  %s\n" % (name, ty, " ++ ".join(names) if names else "[]"))
    return "\n".join(out)


def lean_tables(tabs):
    out = ["/- GENERATED on every check run from the running library (sfh), not edited by hand.",
           "   Decode tables: every code 0..255 read as short from a RAW file.",
           "   Encode tables: index i = short (i << shift) written to a RAW file; last index via float 1.0. -/",
           "namespace Sf.Generated", ""]
    for law in ("ulaw", "alaw"):
        dec, enc = tabs[law]
        out.append(lean_list("%sDecodeTab" % law, "Int", dec))
        out.append(lean_list("%sEncodeTab" % law, "Nat", enc))
    out.append("end Sf.Generated\n")
    return "\n".join(out)
