"""C04 / C05: sf_write_raw AS A WRITE ENTRY POINT of a file made in SFM_WRITE, for EVERY sample-granular (container, encoding).

The all-format write campaign (vlib/writecamp.py) and the container models write through the eight typed entry points only; the
raw entry point keeps its own bookkeeping (`write_current += count / blockwidth`, byte counts, its own `have_written` / header
path) and is reached by vlib/rdwrtail.py only on SFM_RDWR handles of C08's formats.  A slip there is invisible for one-byte
encodings (blockwidth == channels) and, depending on the container, only shows with content behind the audio (a string set after
the data, the pad byte of an odd byte total) or in the container whose reader trusts the header (CAF).

Histories (deterministic, every writable format whose frames are whole bytes; 1 / 2 / 3 channels in rotation, at least one
multi-channel job per format; odd frame counts so that 1- and 3-byte samples end on an odd byte total):
    open w; [sf_set_string before the audio]; sf_write_raw x 3 (1 frame, a middle piece, the rest) with the write-position probe and
    `info` (SF_INFO.frames of the open handle) in between; one sf_write_raw of a frame + one sample (multi-channel: refused, nothing moves); [sf_set_string AFTER the audio -> LIST / text chunk / CAF info behind it];
    [SFC_UPDATE_HEADER_NOW; info]; close; fresh open r: info, sf_read_raw of everything + 3 frames (exactly the bytes written, then the
    end), one typed read at the end (0 items).
Verdict: the Lean predicate Sf.Abs.check (`sfmodel abs`): rawWriteOk (count, position, frame count, the byte stream), seekOk, infoOk,
reopenOk (N <= F < N + B + pad: C04), rawReadOk (the stream and its end).  Theorems: lean/SfProps/C04RawWrite.lean.
"""
from . import formats, geometry as G, readcamp as R, abslean, rdwrtail as T


def history(rng, f, ch, n, tail, update):
    H = T.Hist(rng, f, ch, "s16", 0, "vio", True)
    H.open("w")
    if "b" in tail:
        H.op("setstr %s 1 %s" % (H.h, b"set before the audio".hex()))
    parts = [1, max(1, n // 3), n - 1 - max(1, n // 3)]
    nb = H.bw // ch
    for j, k in enumerate(p for p in parts if p > 0):
        H.write(k)
        H.op("seek %s 0 33" % H.h)
        if j != 1:
            H.op("info %s" % H.h)
        if j == 0 and ch > 1:
            # whole samples but not a whole frame: refused (SFE_BAD_WRITE_ALIGN), nothing moves
            H.op("wraw %s %d %s" % (H.h, H.bw + nb, T._rawbytes(rng, f, H.bw + nb)))
            H.op("seek %s 0 33" % H.h)
    if "s" in tail:
        H.op("setstr %s 1 %s" % (H.h, b"set after the audio".hex()))
    if update:
        H.op("cmd %s 1060 0 null" % H.h)
        H.op("info %s" % H.h)
    H.close()
    H.open("r")
    H.op("info %s" % H.h)
    H.read(("raw", ""), n + 3)
    H.read(("s16", "i"), ch)
    H.close()
    return H


def geom_of(f, ch):
    return abslean.geom_line(ch, 0, "w", bw=R.raw_bw(f, ch) or 0, strict=True, block=1, pad=G.pad_frames(f, ch), lossless=[])


def run(ctx, prop, quick=None):
    quick = ctx.tier == "quick" if quick is None else quick
    rng = ctx.rng
    fs = [f for f in formats.writable_formats(ctx) if R.raw_bw(f, 1) and f.major != 0x16]      # SD2 cannot be opened through virtual I/O (vlib/sd2.py writes it by path)
    jobs = []
    for i, f in enumerate(fs):
        str_c = f.major in T.STR_CONTAINERS
        # job 1: two channels (or the container's maximum), plain; job 2: the channel count rotates, content behind the audio where the
        # container can have it; odd frame counts
        plans = [(min(2, f.maxch), "", False), (min((1, 3, 2)[i % 3], f.maxch), "s" if str_c else "", i % 2 == 0)]
        if not quick:
            plans += [(min(3, f.maxch), "bs" if str_c else "", True), (1, "s" if str_c else "", False)]
        for j, (ch, tail, upd) in enumerate(plans):
            n = (101, 57, 33, 9)[(i + j) % 4]
            H = history(rng, f, ch, n, tail, upd)
            jobs.append(("rawwrite-%s-c%d-%s-%d" % (f.name, ch, tail or "0", len(jobs)), f, ch, H))
    out = ctx.batch([(name, H.text()) for (name, f, ch, H) in jobs], clean=True)
    judge = abslean.Judge(ctx)
    for (name, f, ch, H) in jobs:
        judge.add(name, geom_of(f, ch), {}, None, abslean._alive_pairs(H.L, out.get(name, []), 0))
    verdicts = judge.run()
    st = ctx.notes.setdefault("raw_write_entry_point", {"histories": 0, "formats": len(fs), "lines": 0, "refused_at_open": 0, "with_content_behind_the_audio": 0,
                                                          "multi_byte_multi_channel": 0, "problems": 0})
    found = False
    reported = set()
    for (name, f, ch, H) in jobs:
        lines = out.get(name, [])
        v = verdicts[name]
        st["histories"] += 1
        st["lines"] += len(H.L)
        st["with_content_behind_the_audio"] += 1 if "-s-" in name or "-bs-" in name else 0
        st["multi_byte_multi_channel"] += 1 if ch > 1 and R.raw_bw(f, 1) > 1 else 0
        ctx.count(len(H.L), tag="raw-write:" + f.name)
        if v.status == "skip":
            st["refused_at_open"] += 1
            continue
        dead = [l for l in lines if l.startswith(abslean.DEAD)]
        prob = None
        if v.first() is not None:
            k, tag, text = v.first()
            prob = (k, tag, "Lean predicate Sf.Abs.check: clause `%s` fails: %s" % (tag, text.strip()))
        elif dead or len(lines) < len(H.L):
            prob = (max(len(lines) - 1, 0), None, "transcript ends early: %s" % (dead[:1] or lines[-1:]))
        if not prob:
            continue
        st["problems"] += 1
        key = (f.name.split("-")[0], prob[1])
        if key in reported or len(reported) >= 4:
            continue
        reported.add(key)
        found = True
        k, tag, text = prob
        from . import absreplay
        body = (absreplay.plain_replay(H.text(), k, geom_of(f, ch), 0, clause=tag) if tag else "--- script\n" + "\n".join(H.L[:k + 1]) + "\n")
        ctx.violation("%s-%s" % (prop.lower(), name),
                      "# %s violated on the implementation's own transcript (sf_write_raw as the write entry point of a file made in SFM_WRITE)\n"
                      "# format %s, %d channel(s), %d bytes per frame\n# at script line %d: %s\n# %s\n%s"
                      % (prop, f.name, ch, R.raw_bw(f, ch), k, H.L[k][:100] if k < len(H.L) else "", text, body))
    return found
