"""GSM 6.10 in WAV / WAVEX: frames reported at re-open (model lean/SfModel/GsmGeom.lean, theorems lean/SfProps/C04GsmPad.lean).

For W written frames around the 320-frame block boundaries (1 .. 7 blocks, odd and even counts, seeded values) the library writes the
file, takes a header-update image on the way, closes; the closed file, the image and copies of the closed file cut short by k bytes are
opened again.  Compared per image:
  * correspondence: `sfmodel geomfix` (gsm610_init's block rule on the datalength wav_read_header leaves — both computed by the model from
    the data chunk size and the bytes that follow it, which this module reads from the image with its own RIFF walk) = frames at re-open;
  * C04 on the library's own transcript: W <= F < W + 320 for the closed file, reading delivers exactly F frames;
  * C11: the header-update image reports the whole blocks written so far.
KF-WAV-GSM-PAD (odd block counts reported one block too many) is repaired; nothing is waived here.
"""
import struct, collections

FORMATS = (("wav", 0x00010020), ("wavex", 0x00130020))
CUTS = (1, 2, 33, 64, 65, 66, 67)


def data_chunk(b):
    """(chunk size, bytes that follow the chunk header) of the first 'data' chunk, RIFF walk with pad bytes"""
    pos = 12
    while pos + 8 <= len(b):
        cid, size = b[pos:pos + 4], struct.unpack("<I", b[pos + 4:pos + 8])[0]
        if cid == b"data":
            return size, len(b) - (pos + 8)
        pos += 8 + size + (size & 1)
    return None


def kv(line):
    return dict(t.split("=", 1) for t in line.split() if "=" in t)


def lengths(ctx, quick):
    rng = ctx.rng
    base = [0, 1, 2, 159, 160, 319, 320, 321, 639, 640, 641, 959, 960, 961, 1279, 1280, 1281, 1600, 1920, 2240, 2241]
    seeded = [rng.randrange(1, 320 * 9) for _ in range(20 if quick else 120)] + [320 * rng.randrange(1, 12), 320 * (2 * rng.randrange(1, 6) + 1)]
    return base + seeded


def script(fmt, w, first, cut):
    vals = "".join("%04x" % ((37 * k + 11) & 0x7FFF) for k in range(max(first, w - first)))
    L = ["open h0 s0 w fmt=%08x ch=1 sr=8000" % fmt]
    if first:
        L.append("w h0 s16 f %d %s" % (first, vals[:4 * first]))
    L += ["cmd h0 1060 0 null", "copy s1 s0"]
    if w - first:
        L.append("w h0 s16 f %d %s" % (w - first, vals[:4 * (w - first)]))
    L += ["close h0", "dump s0", "dump s1", "open h1 s0 r", "r h1 s16 f %d q" % (w + 700), "open h2 s1 r", "copy s2 s0", "trunc s2 %d" % cut, "dump s2", "open h3 s2 r"]
    return "\n".join(L) + "\n"


def run(ctx, prop="C04"):
    quick = ctx.tier == "quick"
    rng = ctx.rng
    jobs = []
    for name, fmt in FORMATS:
        for w in lengths(ctx, quick):
            first = 320 * rng.randrange(0, w // 320 + 1) if rng.random() < 0.7 else rng.randrange(0, w + 1)
            jobs.append((name, fmt, w, first))
    scripts = [("gsm-%s-%d-%d" % (name, w, i), (name, fmt, w, first, CUTS[i % len(CUTS)])) for i, (name, fmt, w, first) in enumerate(jobs)]
    # run once without the cut to learn the closed length, then with the cut (cheap: the files are small)
    probe = ctx.batch([(n, script(fmt, w, first, 1 << 30)) for n, (name, fmt, w, first, k) in scripts], workers=4)
    final = []
    for n, (name, fmt, w, first, k) in scripts:
        lines = probe.get(n, [])
        dumps = [l for l in lines if l.startswith("len=") and "hex=" in l]
        clen = int(kv(dumps[0])["len"]) if dumps else 0
        final.append((n, (name, fmt, w, first, max(0, clen - k))))
    impl = ctx.batch([(n, script(fmt, w, first, cut)) for n, (name, fmt, w, first, cut) in final], workers=4)
    stats = collections.Counter()
    reqs, expect = [], []
    pred, corr = [], []
    for n, (name, fmt, w, first, cut) in final:
        lines = impl.get(n, [])
        sc = script(fmt, w, first, cut)
        stats["sessions"] += 1
        ctx.distinct.add("gsmgeom:%s:blocks%d" % (name, min((w + 319) // 320, 8)))
        dumps = [bytes.fromhex(kv(l)["hex"]) for l in lines if l.startswith("len=") and "hex=" in l]
        opens = [l for l in lines if l.startswith("open=")]
        reads = [l for l in lines if l.startswith("ret=") and "data=fnv:" in l]
        if lines and lines[0].startswith("open=NULL"):
            stats["not_writable"] += 1          # WAVEX / GSM 6.10 is refused by sf_format_check in this build: nothing to check
            continue
        if any(l.startswith(("CRASH", "ABORT", "TIMEOUT")) for l in lines) or len(dumps) != 3 or len(opens) != 4 or len(reads) != 1:
            pred.append((n, sc, "the implementation died or the transcript is incomplete: %s" % (lines[-1:] or "")))
            continue
        closed, snap, short = dumps
        images = (("closed file", closed, opens[1]), ("header-update image", snap, opens[2]), ("closed file cut to %d bytes" % cut, short, opens[3]))
        for what, b, o in images:
            dc = data_chunk(b)
            stats["images"] += 1
            if dc is None:
                continue                         # cut inside the header: no data chunk left (what the parser does then is C03's subject)
            reqs.append("gsm wav 1 %d %d" % dc)
            expect.append((n, sc, what, o, dc))
        # ---- the property on the library's own transcript ----
        nb = (w + 319) // 320
        o = opens[1]
        if not o.startswith("open=ok"):
            pred.append((n, sc, "[C04] the closed file does not re-open: " + o))
        else:
            F = int(kv(o)["frames"])
            if not (w <= F < w + 320):
                pred.append((n, sc, "[C04] %d frames written (%d blocks of 65 bytes), re-open reports %d frames: outside %d <= F < %d" % (w, nb, F, w, w + 320)))
            elif not reads[0].startswith("ret=%d " % F):
                pred.append((n, sc, "[C04] re-open reports %d frames, reading to the end delivers %s" % (F, reads[0][:30])))
        o = opens[2]
        want = 320 * (first // 320)
        if not o.startswith("open=ok") or int(kv(o)["frames"]) != want:
            pred.append((n, sc, "[C11] header-update image after %d frames (%d whole blocks): %s, expected %d frames" % (first, first // 320, o, want)))
    model = ctx.run_model(["geomfix"], "".join(r + "\n" for r in reqs)).split("\n")
    for (n, sc, what, o, dc), m in zip(expect, model):
        stats["model_answers"] += 1
        got = int(kv(o)["frames"]) if o.startswith("open=ok") else None
        if got is None or "frames=%d" % got not in m.split():
            corr.append((n, sc, "%s (data chunk %d bytes, %d bytes follow its header): implementation %s, model %s" % (what, dc[0], dc[1], o, m)))
    ctx.count(stats["images"] + stats["sessions"])
    ctx.coverage["traces_validated_against_impl"] += stats["model_answers"]
    ctx.notes["gsmgeom"] = dict(stats, predicate_failures=len(pred), correspondence_differences=len(corr))
    for n, sc, text in pred[:3]:
        ctx.violation("%s-gsmgeom-%s" % (prop.lower(), n), "# %s violated on the implementation's own transcript (WAV / GSM 6.10 frame count at re-open)\n# %s\n--- script\n%s" % (prop, text, sc))
    if corr and not pred:
        n, sc, text = corr[0]
        ctx.violation("%s-gsmgeom-correspondence" % prop.lower(),
                      "# correspondence stream 'gsm610_init block count (lean/SfModel/GsmGeom.lean) vs implementation' no longer agrees: %d of %d images differ\n# first: %s\n"
                      "# the C04 / C11 predicate on the implementation's transcripts found no failing input\n--- script\n%s" % (len(corr), stats["model_answers"], text, sc), no_input=True)
    return stats
