"""C09 / C16 / C03: what a FAILING sf_open does to the caller's file.

Every case is one `failopen` (harness/failopen.c): a complete open attempt on the bytes of a store through sf_open / sf_open_fd /
sf_open_virtual, after which the file (the store, or the file read back from the private directory) is compared with the bytes that
were handed over.  Inputs: every writable (container, codec) seed written by the library x truncations x field substitutions x byte
hits (the malformed-file families of vlib/c09open.py, denser on the header fields) x mode rw (most) / r x the four routes.

Per case:
    no answer (the process died or hung inside the open)                          -> VIOLATION (never waived: KF-RDWR-FAILED-OPEN-FPE is repaired)
    open=NULL, sf_error (NULL) == 0 or sf_strerror (NULL) empty, descriptor left    -> VIOLATION (the clauses of vlib/c09open.py)
    open=NULL and the file differs from what was handed over
        mode r                                                                    -> VIOLATION
        mode rw, error code outside LATE and container not AIFF                   -> VIOLATION  (the container's header reader refused the
                                                                                     file: nothing may have been written yet, and no close
                                                                                     function may rewrite it)
        mode rw, error code in LATE (raised after the container's open function wrote its provisional header: codec init, sf_format_check,
        validate_sfinfo, validate_psf, a system error) or container AIFF (aiff_open installs aiff_close before it parses)
                                                                                  -> class of KF-RDWR-FAILED-OPEN-WRITES (known finding)
    open=ok                                                                       -> the input was acceptable; in mode r the open + close must leave the file unchanged, rw is not judged here

LATE is measured on the library under test (the numbers behind the four messages, `errnum`).
The model is lean/SfModel/FailedOpen.lean (theorems lean/SfProps/C09FailedOpen.lean): the stages of psf_open_file, the error exit with and
without the validate_sfinfo rule, the write events a failing open emits.
"""
import re, struct

from . import formats, c03fuzz
from .props import c16 as L

ROUTES = ["vio", "path", "fd1", "fd0"]
GROUP = 12
LATE_TEXT = ("System error.", "does not support read/write mode", "SF_INFO struct incomplete", "Unspecified internal error")
KF_ID = "KF-RDWR-FAILED-OPEN-WRITES"


def late_errors(ctx):
    """error numbers whose message is one of LATE_TEXT, measured"""
    lines, rc, err = ctx.script("".join("errnum %d\n" % k for k in range(0, 220)))
    late = set()
    for k, l in enumerate(lines):
        if l.startswith("msg="):
            try:
                msg = bytes.fromhex(l[4:].strip()).decode("latin-1")
            except ValueError:
                continue
            if any(t in msg for t in LATE_TEXT):
                late.add(k)
    return late


def variants_of(data, rng, quick):
    hl = min(len(data), 1400)
    step = 24 if quick else 4
    off0 = rng.randrange(step)
    out = [("trunc%d" % n, data[:n]) for n in range(off0, hl, step)]
    f32, f16 = c03fuzz.plausible_fields(data, hl)
    pick32 = f32 if not quick else rng.sample(f32, min(len(f32), 14))
    for (off, e) in pick32:
        for v in ((0, 0x80000000, 0xFFFFFFFF) if quick else (0, 1, 0x7FFFFFFF, 0x80000000, 0xFFFFFFFF)):
            b = bytearray(data)
            struct.pack_into(e + "I", b, off, v)
            out.append(("len32@%d=%x" % (off, v), bytes(b)))
    pick16 = f16 if not quick else rng.sample(f16, min(len(f16), 10))
    for (off, e) in pick16:
        for v in (0, 0xFFFF):
            b = bytearray(data)
            struct.pack_into(e + "H", b, off, v)
            out.append(("len16@%d=%x" % (off, v), bytes(b)))
    for _ in range(6 if quick else 60):
        b = bytearray(data)
        off = rng.randrange(hl)
        b[off] = rng.choice([0, 0xFF, 0x7F, 0x80, b[off] ^ 1, b[off] ^ 0x20])
        out.append(("byte@%d" % off, bytes(b)))
    return out


def build_cases(ctx, seeds, rng, quick):
    cases = []
    k = 0
    for name, (f, data) in sorted(seeds.items()):
        ch = 2 if f.maxch >= 2 else 1
        # the unmodified file too: a VALID file whose codec has no read/write mode is refused late
        for (tag, blob) in [("asis", data)] + variants_of(data, rng, quick):
            route = ROUTES[k % 4]
            mode = "r" if k % 6 == 5 else "rw"
            k += 1
            fmt = f.word if (f.major == 4 or mode == "rw") else 0
            op = "failopen s1 %s fmt=%08x ch=%d sr=8000 route=%s ext=x" % (mode, fmt & 0xFFFFFFFF, ch, route)
            cases.append({"name": "%s-%s-%s-%s" % (name, tag, mode, route), "cont": formats.MAJOR_NAME.get(f.major, "?"), "mode": mode,
                          "lines": ["store s1 %s" % blob.hex(), op]})
    return cases


def kv(line):
    return dict(re.findall(r"(\w+)=([^ ]*)", line))


def judge(case, line, late):
    """(verdict, reasons): verdict in ok | known | bad"""
    if line is None or not line.startswith("open="):
        return "bad", ["the open attempt did not return (%s)" % (line or "no answer")]
    d = kv(line)
    why = []
    if d.get("fdleft") not in (None, "0"):
        why.append("the descriptor handed over with close_desc=1 is still open after the call")
    if line.startswith("open=ok"):
        # an open that succeeds is closed at once: in SFM_READ that must not have touched the file either
        if case["mode"] == "r" and d.get("file") == "changed":
            why.append("a SFM_READ open that succeeded, closed at once, changed the file (length %s -> %s, first difference at byte %s)" % (d.get("len"), d.get("newlen"), d.get("firstdiff")))
        return ("bad", why) if why else ("ok", [])
    if d.get("err") in (None, "0"):
        why.append("sf_open returned NULL but sf_error (NULL) is 0")
    if d.get("msglen") in (None, "0"):
        why.append("sf_open returned NULL but sf_strerror (NULL) is empty")
    verdict = "ok"
    if d.get("file") == "changed":
        what = "the failed open changed the caller's file (length %s -> %s, first difference at byte %s)" % (d.get("len"), d.get("newlen"), d.get("firstdiff"))
        if case["mode"] != "rw":
            why.append(what + " in mode " + case["mode"])
        elif case["cont"] == "aiff" or int(d.get("err", "0")) in late:
            verdict = "known"
        else:
            why.append(what + "; error %s is raised by the container's header reader, before anything may be written" % d.get("err"))
    return ("bad", why) if why else (verdict, [])


def run_groups(ctx, groups):
    scripts = []
    for gi, g in enumerate(groups):
        scripts.append(("f%d" % gi, "\n".join(l for c in g for l in c["lines"]) + "\n"))
    res = ctx.batch(scripts, op_timeout=30)
    out = []
    for gi, g in enumerate(groups):
        t = [l for l in res.get("f%d" % gi, []) if l.startswith(("open=", "CRASH", "ABORT", "TIMEOUT"))]
        out.append((g, t))
    return out


def kf_entry(ctx):
    for kf in ctx.known:
        if kf.get("id") == KF_ID and kf.get("status") == "known":
            return kf
    return None


def run(ctx, prop):
    """returns True when a failing input was reported"""
    quick = ctx.tier == "quick"
    rng = ctx.rng
    fmts = formats.writable_formats(ctx)
    seeds = L.make_seeds(ctx, L.seed_formats(fmts))
    late = late_errors(ctx)
    cases = build_cases(ctx, seeds, rng, quick)
    groups = [cases[i:i + GROUP] for i in range(0, len(cases), GROUP)]
    verdicts = {"ok": 0, "known": 0, "bad": 0}
    nulls = same = 0
    bad = []
    known_by_cont = {}
    suspects = []
    for (g, t) in run_groups(ctx, groups):
        if len(t) != len(g) or any(not l.startswith("open=") for l in t):
            suspects += g
            continue
        for c, l in zip(g, t):
            v, why = judge(c, l, late)
            if v == "bad":
                suspects.append(c)
                continue
            verdicts[v] += 1
            ctx.count(1, "failopen:%s:%s:%s" % (c["cont"], c["mode"], v))
            if l.startswith("open=NULL"):
                nulls += 1
                same += "file=same" in l
            if v == "known":
                known_by_cont[c["cont"]] = known_by_cont.get(c["cont"], 0) + 1
    # every case of a suspect group on its own: the culprit gets its own replay
    if suspects:
        for (g, t) in run_groups(ctx, [[c] for c in suspects]):
            c = g[0]
            l = t[0] if t else None
            v, why = judge(c, l, late)
            ctx.count(1, "failopen:%s:%s:%s" % (c["cont"], c["mode"], v))
            verdicts[v] += 1
            if v == "known":
                known_by_cont[c["cont"]] = known_by_cont.get(c["cont"], 0) + 1
            if l and l.startswith("open=NULL"):
                nulls += 1
                same += "file=same" in l
            if v == "bad":
                bad.append((c, l, why))
    for (c, l, why) in bad[:6]:
        head = "# %s (failed open): %s\n# case %s (container %s, mode %s)\n" % (prop, "; ".join(why), c["name"], c["cont"], c["mode"])
        if l and l.startswith("open="):
            head += "observed-last %s\n" % l
        else:
            head += "expect-last open=\n"
        ctx.violation("%s-failopen-%s" % (prop.lower(), c["name"]), head + "--- script\n" + "\n".join(c["lines"]) + "\n")
    kf = kf_entry(ctx)
    if verdicts["known"]:
        if kf is not None:
            ctx.known_finding(kf)
        else:
            # the class is only a class while the finding is recorded as open
            c0 = next(c for c in cases if c["mode"] == "rw")
            ctx.violation("%s-failopen-class" % prop.lower(), "# %s: %d failed SFM_RDWR opens changed the caller's file and %s is not recorded as an open finding\n--- script\n%s\n"
                          % (prop, verdicts["known"], KF_ID, "\n".join(c0["lines"])), no_input=True)
    ctx.notes["failopen"] = {"cases": len(cases), "returned_null": nulls, "null_file_unchanged": same, "verdicts": verdicts,
                             "known_class_by_container": known_by_cont, "late_error_numbers": sorted(late), "seeds": len(seeds)}
    ctx.sample({"kind": "failopen", "case": cases[0]["name"] if cases else None, "op": cases[0]["lines"][-1] if cases else None})
    return bool(bad)
