"""C20, ADPCM part — the IMA (WAV / W64 / AIFF-C 'ima4' block layouts) and Microsoft ADPCM decoders produce, for any
block bytes, the sample values of the reference algorithms.

What runs here (called from vlib/props/c20.py):
 1. the step / index / adaptation / coefficient tables are read out of the running library by decoding crafted
    blocks through the public API -> lean/SfModel/Generated/AdpcmTables.lean -> theorems re-checked;
 2. files are built in Python around chosen blocks (WAV and W64 with fmt tags 0x11 and 0x2, AIFF-C 'ima4'), read
    through the harness, and every sample is compared with
       (a) the reference decoder  (SfModel/AdpcmSpec.lean, `sfmodel adpcm ... ref`)  -> the property predicate,
       (b) the lib-shaped decoder (SfModel/Adpcm.lean)                               -> the correspondence;
 3. multi-block files (every file holds many blocks, each checked on its own: the decoder state must be re-read
    from each block header) and files that end in a partial block.
A sample where library != reference is a VIOLATION whose replay is a file around the single offending block.
"""
import struct

from .core import Violation

MS_COEFFS = [(256, 0), (512, -256), (0, 0), (192, 64), (240, 0), (460, -208), (392, -232)]
KINDS = ("ima-wav", "ms", "ima-aiff")


# ------------------------------------------------------------------------------------------------ file builders
def fmt_body(kind, ch, ba, spb, sr=8000):
    bps = (sr * ba) // max(spb, 1)
    if kind == "ima-wav":
        return struct.pack("<HHIIHHHH", 0x11, ch, sr, bps, ba, 4, 2, spb)
    return (struct.pack("<HHIIHHHHH", 0x2, ch, sr, bps, ba, 4, 32, spb, 7)
            + b"".join(struct.pack("<hh", a, b) for a, b in MS_COEFFS))


def wav_file(kind, ch, ba, spb, data, frames):
    fmt = fmt_body(kind, ch, ba, spb)
    body = (b"WAVE" + b"fmt " + struct.pack("<I", len(fmt)) + fmt + b"fact" + struct.pack("<II", 4, frames)
            + b"data" + struct.pack("<I", len(data)) + data)
    if len(data) & 1:
        body += b"\0"
    return b"RIFF" + struct.pack("<I", len(body)) + body


W64_TAIL = bytes([0xF3, 0xAC, 0xD3, 0x11, 0x8C, 0xD1, 0x00, 0xC0, 0x4F, 0x8E, 0xDB, 0x8A])
W64_RIFF = b"riff" + bytes([0x2E, 0x91, 0xCF, 0x11, 0xA5, 0xD6, 0x28, 0xDB, 0x04, 0xC1, 0x00, 0x00])


def _pad8(b):
    return b + b"\0" * ((-len(b)) % 8)


def w64_file(kind, ch, ba, spb, data, frames):
    fmt = fmt_body(kind, ch, ba, spb)
    chunks = _pad8(b"fmt " + W64_TAIL + struct.pack("<Q", 24 + len(fmt)) + fmt)
    chunks += b"fact" + W64_TAIL + struct.pack("<QQ", 32, frames)
    chunks += _pad8(b"data" + W64_TAIL + struct.pack("<Q", 24 + len(data)) + data)
    return W64_RIFF + struct.pack("<Q", 40 + len(chunks)) + b"wave" + W64_TAIL + chunks


def aifc_file(ch, data, packets):
    comm = struct.pack(">hIh", ch, packets, 16) + bytes.fromhex("400bfa00000000000000") + b"ima4" + b"\0\0"
    ssnd = struct.pack(">II", 0, 0) + data
    body = (b"AIFC" + b"FVER" + struct.pack(">II", 4, 0xA2805140) + b"COMM" + struct.pack(">I", len(comm)) + comm
            + b"SSND" + struct.pack(">I", len(ssnd)) + ssnd)
    if len(ssnd) & 1:
        body += b"\0"
    return b"FORM" + struct.pack(">I", len(body)) + body


def spb_of(kind, ch, ba):
    if kind == "ima-wav":
        return 2 * (ba - 4 * ch) // ch + 1
    if kind == "ms":
        return 2 * (ba - 6 * ch) // ch
    return 64


def block_bytes(kind, ch, ba):
    return 34 * ch if kind == "ima-aiff" else ba


def build_file(kind, cont, ch, ba, data, nblocks):
    spb = spb_of(kind, ch, ba)
    if kind == "ima-aiff":
        return aifc_file(ch, data, nblocks)
    return (wav_file if cont == "wav" else w64_file)(kind, ch, ba, spb, data, spb * nblocks)


def read_script(filebytes, nitems):
    # the `r` op is last on purpose: a replay's `expect-last` looks at the last transcript line
    return "store s0 %s\nopen h0 s0 r fmt=0 ch=0 sr=0\nr h0 s16 i %d\n" % (filebytes.hex(), nitems)


def parse_read(lines):
    """-> (ret, datahex) or None when the transcript does not contain a completed read"""
    for l in lines:
        if l.startswith("ret=") and "data=" in l:
            try:
                return int(l.split()[0][4:]), l.split("data=")[1].strip()
            except ValueError:
                return None
    return None


# ------------------------------------------------------------------------------------------------ geometries
def legal_sizes(kind, ch, lo=32, hi=1024):
    if kind == "ima-wav":
        # mono: every size (two samples per data byte); stereo: whole (left word, right word) rounds
        return [b for b in range(lo, hi + 1) if b > 4 * ch and (ch == 1 or (b - 8) % 8 == 0)]
    if kind == "ms":
        # wavlike_msadpcm_init: samplesperblock = 2 * (ba - 6ch) / ch >= 7 * ch
        return [b for b in range(lo, hi + 1) if b >= 7 * ch and 2 * (b - 6 * ch) // ch >= 7 * ch]
    return [34]


def geometries(ctx):
    """[(kind, container, channels, blockalign)]"""
    res = []
    if ctx.tier == "thorough":
        for kind in ("ima-wav", "ms"):
            for ch in (1, 2):
                small = {"ima-wav": [8 * ch, 16 * ch, 24 * ch] + ([5, 6, 7, 9, 10, 11, 13, 31] if ch == 1 else []), "ms": [10 if ch == 1 else 26, 11 if ch == 1 else 27, 31]}[kind]
                for ba in small + legal_sizes(kind, ch):
                    for cont in ("wav", "w64"):
                        res.append((kind, cont, ch, ba))
    else:
        for kind in ("ima-wav", "ms"):
            for ch in (1, 2):
                ls = legal_sizes(kind, ch)
                if kind == "ima-wav":
                    picks = [8 * ch, 36 * ch, 256, 512, 1024, ls[0], ctx.rng.choice(ls), ctx.rng.choice(ls)] + ([5, 6, 7, 33, 255] if ch == 1 else [])
                else:
                    picks = [10 if ch == 1 else 26, 32, 33, 255, 256, 512, 1024, ctx.rng.choice(ls), ctx.rng.choice(ls)]
                seen = []
                for ba in picks:
                    if ba not in seen:
                        seen.append(ba)
                for j, ba in enumerate(seen):
                    for cont in ("wav", "w64"):
                        res.append((kind, cont, ch, ba))
    for ch in (1, 2):
        res.append(("ima-aiff", "aifc", ch, 34))
    return res


# ------------------------------------------------------------------------------------------------ block generators
def _fill(rng, n, mode):
    if mode == "rand":
        return bytes(rng.randrange(256) for _ in range(n))
    if mode == "mix":
        return bytes(rng.choice((0x7F, 0xF7, 0x80, 0x08, 0xFF, 0x00, 0x70, 0x07, 0x8F, 0xF8)) for _ in range(n))
    if mode == "updown":   # long runs up then down: drives predictor and step index to both rails
        run = max(1, n // 4)
        return bytes((0x77 if (i // run) % 2 == 0 else 0xFF) for i in range(n))
    return bytes([mode]) * n


FILLS = (0x00, 0xFF, 0x77, 0x88, 0x7F, 0xF7, 0x80, 0x08, "mix", "updown", "rand")


def ima_wav_blocks(rng, ch, ba, nrand):
    preds = (0x8000, 0x7FFF, 0x0000, 0xFFFF, 0x0001)
    idxs = (0, 88, 89, 255, 127, 128, 44, 1, 87)
    out = []
    k = 0
    for f in FILLS:
        for rep in range(2):
            hdr = b""
            for c in range(ch):
                p = preds[(k + c) % len(preds)] if rep == 0 else rng.choice(preds + (rng.randrange(65536),))
                ix = idxs[(k + 2 * c) % len(idxs)] if rep == 0 else rng.choice(idxs + (rng.randrange(256),))
                resv = 0 if (k + c) % 3 else 0xFF      # reserved byte: non-zero only logs a "synchronisation error"
                hdr += struct.pack("<HBB", p, ix, resv)
            out.append(hdr + _fill(rng, ba - 4 * ch, f))
            k += 1
    for _ in range(nrand):
        out.append(_fill(rng, ba, "rand"))
    return out


def ms_blocks(rng, ch, ba, nrand):
    bpreds = (0, 1, 2, 3, 4, 5, 6, 7, 255, 8, 128)
    deltas = (0x0000, 0x8000, 0x7FFF, 0x0010, 0x0001, 0xFFFF, 0x000F, 0x0011, 0x0100, 0x4000)
    samps = (0x8000, 0x7FFF, 0x0000, 0xFFFF, 0x0001, 0x4000, 0xC000)
    out = []
    k = 0
    for f in FILLS:
        for rep in range(2):
            if rep == 0:
                bp = [bpreds[(k + 3 * c) % len(bpreds)] for c in range(ch)]
                dl = [deltas[(k + c) % len(deltas)] for c in range(ch)]
                s1 = [samps[(k + c) % len(samps)] for c in range(ch)]
                s2 = [samps[(k // 2 + 2 * c) % len(samps)] for c in range(ch)]
            else:
                bp = [rng.choice(bpreds + (rng.randrange(256),)) for c in range(ch)]
                dl = [rng.choice(deltas + (rng.randrange(65536),)) for c in range(ch)]
                s1 = [rng.choice(samps + (rng.randrange(65536),)) for c in range(ch)]
                s2 = [rng.choice(samps + (rng.randrange(65536),)) for c in range(ch)]
            hdr = bytes(bp) + b"".join(struct.pack("<H", x) for x in dl) + b"".join(struct.pack("<H", x) for x in s1) \
                + b"".join(struct.pack("<H", x) for x in s2)
            out.append(hdr + _fill(rng, ba - 7 * ch, f))
            k += 1
    for _ in range(nrand):
        out.append(_fill(rng, ba, "rand"))
    return out


def ima_aiff_blocks(rng, ch, nrand):
    words = (0x8000, 0x7F80, 0x0000, 0xFF80, 0x0080)
    idxs = (0, 88, 89, 127, 44, 1, 87)
    out = []
    k = 0
    for f in FILLS:
        for rep in range(3):
            blk = b""
            for c in range(ch):
                w = words[(k + c) % len(words)] if rep == 0 else rng.randrange(65536) & 0xFF80
                ix = idxs[(k + 2 * c) % len(idxs)] if rep < 2 else rng.randrange(128)
                blk += struct.pack(">H", w | ix) + _fill(rng, 32, f)
            out.append(blk)
            k += 1
    for _ in range(nrand):
        out.append(_fill(rng, 34 * ch, "rand"))
    return out


def gen_blocks(ctx, kind, ch, ba):
    nrand = 12 if ctx.tier == "quick" else 24
    if kind == "ima-wav":
        return ima_wav_blocks(ctx.rng, ch, ba, nrand)
    if kind == "ms":
        return ms_blocks(ctx.rng, ch, ba, nrand)
    return ima_aiff_blocks(ctx.rng, ch, nrand)


# ------------------------------------------------------------------------------------------------ table extraction
TAB_IMA = ("ima-wav", "wav", 1, 8)     # 9 samples per block
TAB_MS = ("ms", "wav", 1, 10)          # 8 samples per block


def table_blocks():
    ima = []
    for i in range(89):
        ima.append(bytes([0x00, 0x80, i, 0, 0x04, 0, 0, 0]))    # predictor -32768, code 4: + step + step>>3
        ima.append(bytes([0x00, 0x80, i, 0, 0x00, 0, 0, 0]))    # code 0: + step>>3
    for c in range(16):
        ima.append(bytes([0x00, 0x00, 40, 0, c | 0x40, 0, 0, 0]))   # codes c, 4 from index 40
    ms = []
    for c in range(16):
        ms.append(bytes([2, 0x00, 0x01, 0, 0, 0, 0, (c << 4) | 1, 0, 0]))     # bpred 2 (0,0), idelta 256, codes c, 1
    for p in range(7):
        ms.append(bytes([p, 16, 0, 0x00, 0x01, 0, 0, 0, 0, 0]))               # samp1 = 256, samp2 = 0, code 0 -> coeff1
        ms.append(bytes([p, 16, 0, 0, 0, 0x00, 0x01, 0, 0, 0]))               # samp1 = 0, samp2 = 256, code 0 -> coeff2
    return ima, ms


def _s16(hx):
    v = [int(hx[4 * i:4 * i + 4], 16) for i in range(len(hx) // 4)]
    return [x - 65536 if x >= 32768 else x for x in v]


def tables_from(ima_hex, ms_hex):
    """tables as the running library reveals them; entries that cannot be identified become -9999"""
    BAD = -9999
    s = _s16(ima_hex)
    blk = lambda i: s[9 * i:9 * i + 9]
    step = []
    for i in range(89):
        a, b = blk(2 * i), blk(2 * i + 1)
        step.append(a[1] - b[1] if len(a) > 1 and len(b) > 1 else BAD)
    adj = []
    for c in range(16):
        b = blk(178 + c)
        d = (b[2] - b[1]) if len(b) > 2 else None
        cand = [j for j in range(89) if step[j] + (step[j] >> 3) == d]
        adj.append(cand[0] - 40 if len(cand) == 1 else BAD)
    m = _s16(ms_hex)
    mb = lambda i: m[8 * i:8 * i + 8]
    adapt = [(mb(c)[3] if len(mb(c)) > 3 else BAD) for c in range(16)]
    c1 = [(mb(16 + 2 * p)[2] if len(mb(16 + 2 * p)) > 2 else BAD) for p in range(7)]
    c2 = [(mb(17 + 2 * p)[2] if len(mb(17 + 2 * p)) > 2 else BAD) for p in range(7)]
    return {"imaStepTab": step, "imaIndexAdjust": adj, "msAdaptationTab": adapt, "msCoeff1": c1, "msCoeff2": c2}


def lean_tables(t):
    def lst(name, xs, per):
        rows = [", ".join(str(x) for x in xs[j:j + per]) for j in range(0, len(xs), per)]
        return "def %s : List Int :=\n  [%s]\n" % (name, ",\n   ".join(rows))
    return "\n".join([
        "/- GENERATED on every check run from the running library (sfh), not edited by hand.",
        "   Each entry is revealed by decoding a crafted block through the public API (vlib/c20_adpcm.py `table_blocks`):",
        "   imaStepTab[i]      : two IMA/WAV blocks with header (predictor -32768, index i), first code 4 resp. 0;",
        "                        difference of the first decoded samples = step.",
        "   imaIndexAdjust[c]  : IMA/WAV block (predictor 0, index 40), codes c then 4; second difference identifies the new index.",
        "   msAdaptationTab[c] : MS block (bpred 2 = coefficients 0,0; idelta 256), codes c then 1; second sample = new idelta.",
        "   msCoeff1/2[p]      : MS blocks (bpred p, idelta 16, code 0) with (samp1,samp2) = (256,0) resp. (0,256). -/",
        "namespace Sf.Generated",
        "",
        lst("imaStepTab", t["imaStepTab"], 16),
        lst("imaIndexAdjust", t["imaIndexAdjust"], 16),
        lst("msAdaptationTab", t["msAdaptationTab"], 16),
        lst("msCoeff1", t["msCoeff1"], 16),
        lst("msCoeff2", t["msCoeff2"], 16),
        "end Sf.Generated",
        ""])


# ------------------------------------------------------------------------------------------------ the check
def model_lines(ctx, kind, ch, ba, blocks, ref):
    args = ["adpcm", kind, str(ch), str(ba), str(spb_of(kind, ch, ba))] + (["ref"] if ref else [])
    out = ctx.run_model(args, "".join(b.hex() + "\n" for b in blocks))
    return out.split("\n")[:len(blocks)]


def single_block_replay(kind, cont, ch, ba, block, want, got, what):
    n = spb_of(kind, ch, ba) * ch
    f = build_file(kind, cont, ch, ba, block, 1)
    return ("# C20 (ADPCM): %s decoder, %s container, %d channel(s), block size %d: %s\n"
            "# block   : %s\n# library : %s\n# expected: %s\n"
            "expect-last data=%s\n--- script\n%s" % (kind, cont, ch, ba, what, block.hex(), got, want, want, read_script(f, n)))


def isolate(ctx, kind, cont, ch, ba, blocks):
    """Run every block alone in its own file; -> (block, library output or transcript, reference output) of the first
    block the library does not decode to the reference samples, or None."""
    spb = spb_of(kind, ch, ba)
    scripts = [("iso%d" % i, read_script(build_file(kind, cont, ch, ba, b, 1), spb * ch)) for i, b in enumerate(blocks)]
    res = ctx.batch(scripts, workers=4, op_timeout=30)
    ref = model_lines(ctx, kind, ch, ba, blocks, True)
    for i, b in enumerate(blocks):
        rd = parse_read(res.get("iso%d" % i, []))
        if rd is None:
            return b, "(no samples: %s)" % " | ".join(res.get("iso%d" % i, []))[-300:], ref[i]
        if rd[1] != ref[i]:
            return b, rd[1], ref[i]
    return None


def run_adpcm(ctx):
    found_input = False
    corr_diffs = []

    # ---- 1. tables from the running library -> Generated -> theorems re-checked --------------------------------
    ima_tb, ms_tb = table_blocks()
    tab_scripts = [("tab-ima", read_script(build_file(*TAB_IMA, b"".join(ima_tb), len(ima_tb)), 9 * len(ima_tb))),
                   ("tab-ms", read_script(build_file(*TAB_MS, b"".join(ms_tb), len(ms_tb)), 8 * len(ms_tb)))]
    res = ctx.batch(tab_scripts, workers=2, op_timeout=60)
    ri, rm = parse_read(res.get("tab-ima", [])), parse_read(res.get("tab-ms", []))
    if ri is None or rm is None:
        which = "tab-ima" if ri is None else "tab-ms"
        geo, blks = (TAB_IMA, ima_tb) if ri is None else (TAB_MS, ms_tb)
        iso = isolate(ctx, *geo, blks)
        if iso is not None:
            ctx.violation("adpcm-tables-crash", single_block_replay(*geo, iso[0], iso[2], iso[1],
                          "the library fails on a table-revealing block (file %s: %s)" % (which, " | ".join(res.get(which, []))[-200:])))
        else:
            ctx.violation("adpcm-tables-crash", "# C20 (ADPCM): the library fails on the table-revealing file (%s); no single block reproduces it\n%s\n--- script\n%s"
                          % (which, "\n".join(res.get(which, []))[-2000:], dict(tab_scripts)[which]))
        raise Violation()
    tabs = tables_from(ri[1], rm[1])
    changed = ctx.set_generated("AdpcmTables.lean", lean_tables(tabs))
    ctx.notes["adpcm_generated_tables_changed"] = changed
    mods = [m for m in getattr(ctx, "lean_modules", ["SfProps.C20"]) if m != "SfProps.C20Adpcm"] + ["SfProps.C20Adpcm"]
    ctx.lean_modules = mods
    failed = ctx.lean_stage(mods)
    failed = [f for f in failed if f not in getattr(ctx, "lean_failures_with_input", ())]   # vlib/codecs20.py found the failing input of these

    # ---- 2. the campaign: every geometry, one multi-block file each ------------------------------------------------
    geos = geometries(ctx)
    work = []        # (name, kind, cont, ch, ba, blocks)
    work.append(("g-tab-ima",) + TAB_IMA + (ima_tb,))
    work.append(("g-tab-ms",) + TAB_MS + (ms_tb,))
    for gi, (kind, cont, ch, ba) in enumerate(geos):
        work.append(("g%d" % gi, kind, cont, ch, ba, gen_blocks(ctx, kind, ch, ba)))
    scripts = []
    for (name, kind, cont, ch, ba, blocks) in work:
        n = spb_of(kind, ch, ba) * ch * len(blocks)
        scripts.append((name, read_script(build_file(kind, cont, ch, ba, b"".join(blocks), len(blocks)), n)))
    results = ctx.batch(scripts, workers=4, op_timeout=120)
    sdict = dict(scripts)
    refused = []
    reported = set()
    # both decoders of the model on every file's blocks (4 driver processes at a time)
    import concurrent.futures
    with concurrent.futures.ThreadPoolExecutor(max_workers=4) as ex:
        jobs = [(w[1], w[3], w[4], w[5], r) for w in work for r in (True, False)]
        outs = list(ex.map(lambda j: model_lines(ctx, *j), jobs))
    model_out = {(id(j[3]), j[4]): o for j, o in zip(jobs, outs)}
    for (name, kind, cont, ch, ba, blocks) in work:
        spb = spb_of(kind, ch, ba)
        per = spb * ch * 4
        lines = results.get(name, [])
        rd = parse_read(lines)
        ctx.coverage["traces_validated_against_impl"] += 1
        key = (kind, cont, ch)
        if rd is None:
            # the library refuses a legal geometry, or crashes: the reference samples are not produced
            found_input = True
            refused.append((kind, cont, ch, ba))
            if key not in reported:
                reported.add(key)
                iso = isolate(ctx, kind, cont, ch, ba, blocks)
                if iso is not None:
                    ctx.violation("adpcm-%s-%s-%dch-%d-noread" % (kind, cont, ch, ba),
                                  single_block_replay(kind, cont, ch, ba, iso[0], iso[2], iso[1],
                                                      "the library does not decode the campaign file (%s); this block alone shows it" % " | ".join(lines)[-200:]))
                else:
                    ctx.violation("adpcm-%s-%s-%dch-%d-noread" % (kind, cont, ch, ba),
                                  "# C20 (ADPCM): %s in %s, %d channel(s), legal block size %d: the library does not decode the campaign file; "
                                  "every block alone decodes correctly\n# transcript: %s\n--- script\n%s"
                                  % (kind, cont, ch, ba, " | ".join(lines)[-600:], sdict[name]))
            continue
        ret, data = rd
        ref = model_out[(id(blocks), True)]
        mod = model_out[(id(blocks), False)]
        ctx.count(len(blocks), tag="%s-%s-%d-%d" % (kind, cont, ch, ba))
        for i, blk in enumerate(blocks):
            got = data[i * per:(i + 1) * per]
            if ret < (i + 1) * spb * ch:
                got = got[:max(0, ret - i * spb * ch) * 4]
            if got != ref[i]:
                found_input = True
                if key not in reported:
                    reported.add(key)
                    # confirm on a file that holds this block alone
                    f1 = build_file(kind, cont, ch, ba, blk, 1)
                    l1, rc1, e1 = ctx.script(read_script(f1, spb * ch))
                    r1 = parse_read(l1)
                    alone = r1[1] if r1 else "(no read: %s)" % " | ".join(l1)[-300:]
                    what = "decoded samples differ from the reference algorithm (block %d of %d in the campaign file)" % (i, len(blocks))
                    if r1 and r1[1] == ref[i]:
                        what += "; alone in a file the block decodes correctly, so the defect depends on preceding blocks — the script below holds blocks 0..%d" % i
                        fN = build_file(kind, cont, ch, ba, b"".join(blocks[:i + 1]), i + 1)
                        text = ("# C20 (ADPCM): %s decoder, %s, %d channel(s), block size %d: %s\n# library tail : %s\n# expected tail: %s\n"
                                "expect-last %s\n--- script\n%s" % (kind, cont, ch, ba, what, got[-64:], ref[i][-64:], ref[i][-64:],
                                                                   read_script(fN, spb * ch * (i + 1))))
                    else:
                        text = single_block_replay(kind, cont, ch, ba, blk, ref[i], alone, what)
                    ctx.violation("adpcm-%s-%s-%dch-%d" % (kind, cont, ch, ba), text)
            elif got != mod[i]:
                corr_diffs.append((kind, cont, ch, ba, blk.hex()[:200], got[:64], mod[i][:64]))
        if mod != ref:
            # the theorems say this cannot happen; it does when the tables read out of the library changed
            j = [k for k in range(len(blocks)) if mod[k] != ref[k]][0]
            corr_diffs.append((kind, "model-vs-ref", ch, ba, blocks[j].hex()[:200], mod[j][:64], ref[j][:64]))

    # ---- 3. files ending in a partial block --------------------------------------------------------------------
    pscripts = []
    pinfo = {}
    for pi, (kind, ch, ba) in enumerate((("ima-wav", 1, 36), ("ima-wav", 2, 72), ("ima-wav", 1, 256), ("ms", 1, 32), ("ms", 2, 64), ("ms", 1, 256))):
        for cont in ("wav", "w64"):
            for nfull in (0, 2):
                spb = spb_of(kind, ch, ba)
                full = [_fill(ctx.rng, ba, "rand") for _ in range(nfull)]
                plen = ctx.rng.randrange(7 * ch + 1, ba - 8) & ~7          # multiple of 8: no pad bytes in either container
                plen = max(plen, 16)
                part = _fill(ctx.rng, plen, "rand")
                name = "p%d-%s-%d" % (pi, cont, nfull)
                f = build_file(kind, cont, ch, ba, b"".join(full) + part, nfull + 1)
                pscripts.append((name, read_script(f, spb * ch * (nfull + 1))))
                pinfo[name] = (kind, cont, ch, ba, full, part)
    presults = ctx.batch(pscripts, workers=4, op_timeout=60)
    for name, (kind, cont, ch, ba, full, part) in pinfo.items():
        spb = spb_of(kind, ch, ba)
        rd = parse_read(presults.get(name, []))
        ctx.coverage["traces_validated_against_impl"] += 1
        ctx.count(len(full) + 1, tag="partial-%s-%s-%d-%d" % (kind, cont, ch, ba))
        pkey = ("partial", kind)
        if rd is None:
            found_input = True
            if pkey in reported:
                continue
            reported.add(pkey)
            ctx.violation("adpcm-partial-%s-noread" % name, "# C20 (ADPCM): file ending in a partial block is not decoded\n# transcript: %s\n--- script\n%s"
                          % (" | ".join(presults.get(name, []))[-600:], dict(pscripts)[name]))
            continue
        ret, data = rd
        # what the code does: IMA counts the partial block (its missing tail is what the block buffer still holds:
        # the previous block's bytes, or zeros from calloc); MS leaves the partial block out of sf.frames.
        if kind == "ima-wav":
            prev = full[-1] if full else bytes(ba)
            eff = full + [part + prev[len(part):]]
        else:
            eff = list(full)
        want = "".join(model_lines(ctx, kind, ch, ba, eff, True)) if eff else ""
        want_ret = len(eff) * spb * ch
        got = data[:4 * max(ret, 0)]
        # the full blocks in front of the partial one are what the property speaks about
        nfull_hex = len(full) * spb * ch * 4
        if got[:nfull_hex] != want[:nfull_hex]:
            found_input = True
            if pkey in reported or (kind, cont, ch) in reported:
                continue      # already shown on a single block
            reported.add(pkey)
            ctx.violation("adpcm-partial-%s" % name, "# C20 (ADPCM): %s %s %dch block %d: full blocks followed by a partial block decode differently from the reference\n"
                          "expect-last data=%s\n--- script\n%s" % (kind, cont, ch, ba, want[:nfull_hex], dict(pscripts)[name]))
        elif ret != want_ret or got != want:
            corr_diffs.append((kind, cont + "-partial", ch, ba, part.hex()[:200], "ret=%d %s" % (ret, got[-64:]), "ret=%d %s" % (want_ret, want[-64:])))

    # ---- 4. the other three read entry points (ima_read_i/f/d, msadpcm_read_i/f/d) deliver the same decoded shorts ----
    escripts = []
    einfo = {}
    for (kind, cont, ch, ba) in (("ima-wav", "wav", 1, 36), ("ima-wav", "w64", 2, 72), ("ms", "wav", 1, 33), ("ms", "w64", 2, 64),
                                 ("ima-aiff", "aifc", 1, 34), ("ima-aiff", "aifc", 2, 34)):
        blocks = gen_blocks(ctx, kind, ch, ba)[:24]
        spb = spb_of(kind, ch, ba)
        n = spb * ch * len(blocks)
        f = build_file(kind, cont, ch, ba, b"".join(blocks), len(blocks))
        for ty in ("s32", "f32", "f64"):
            name = "e-%s-%s-%d-%s" % (kind, cont, ch, ty)
            escripts.append((name, "store s0 %s\nopen h0 s0 r fmt=0 ch=0 sr=0\nr h0 %s i %d\n" % (f.hex(), ty, n)))
            einfo[name] = (kind, cont, ch, ba, blocks, ty)
    eresults = ctx.batch(escripts, workers=4, op_timeout=60)
    for name, (kind, cont, ch, ba, blocks, ty) in einfo.items():
        ref = _s16("".join(model_lines(ctx, kind, ch, ba, blocks, True)))
        if ty == "s32":
            want = "".join("%08x" % ((v << 16) & 0xFFFFFFFF) for v in ref)
        elif ty == "f32":
            want = "".join(struct.pack(">f", v / 32768.0).hex() for v in ref)     # default SFC_SET_NORM_FLOAT = true; exact
        else:
            want = "".join(struct.pack(">d", v / 32768.0).hex() for v in ref)
        rd = parse_read(eresults.get(name, []))
        ctx.coverage["traces_validated_against_impl"] += 1
        ctx.count(len(blocks), tag="entry-%s-%s-%d-%s" % (kind, cont, ch, ty))
        if rd is None or rd[1] != want:
            found_input = True
            got = rd[1] if rd else "(no read: %s)" % " | ".join(eresults.get(name, []))[-300:]
            w = {"s32": 8, "f32": 8, "f64": 16}[ty]
            k = next((i for i in range(len(ref)) if got[i * w:(i + 1) * w] != want[i * w:(i + 1) * w]), 0)
            ctx.violation("adpcm-entry-%s-%s-%dch-%s" % (kind, cont, ch, ty),
                          "# C20 (ADPCM): %s %s %dch block %d read as %s: item %d is %s, the reference sample %d gives %s\n"
                          "expect-last data=%s\n--- script\n%s" % (kind, cont, ch, ba, ty, k, got[k * w:(k + 1) * w], ref[k] if ref else 0,
                                                                   want[k * w:(k + 1) * w], want, dict(escripts)[name]))

    ctx.sample({"campaign": "adpcm", "geometries": len(geos), "first": [list(g) for g in geos[:6]],
                "blocks_per_file": len(work[2][5]) if len(work) > 2 else 0})
    ctx.notes["adpcm_geometries"] = len(geos)
    ctx.notes["adpcm_refused_geometries"] = [list(r) for r in refused[:20]]
    ctx.notes["adpcm_correspondence_diffs"] = len(corr_diffs)

    if corr_diffs and not found_input:
        d = corr_diffs[0]
        ctx.violation("adpcm-correspondence",
                      "C20 (ADPCM): lib-shaped model and implementation (or model and reference) disagree on %d block(s), but no block was found on which the "
                      "library's samples differ from the reference decoder.\nfirst: %s container/stream=%s channels=%d blockalign=%d\nblock=%s\nleft =%s\nright=%s\n"
                      % (len(corr_diffs), d[0], d[1], d[2], d[3], d[4], d[5], d[6]), no_input=True)
    if failed and not found_input and not corr_diffs:
        ctx.violation("adpcm-lean-stage", "theorem(s) no longer check: %s\nno failing block found by the ADPCM campaign\n%s"
                      % (", ".join(failed), ctx.notes.get("lean_log_tail", "")), no_input=True)
    ctx.coverage["exhaustive"] = False
    ctx.notes["exhaustive_scope"] = "G.711 streams are complete enumerations; the ADPCM campaign is sampled (the theorems carry the for-all)"
    ctx.coverage["rule"] = (ctx.coverage.get("rule", "") + " | ADPCM: per (decoder, container, channels, block size) one multi-block file of "
                            "adversarial blocks (11 data fills x header corners: predictor +-32768, index 0/88/89/255, MS bpred 0..7/255, idelta 0/+-32768/16) "
                            "plus seeded random blocks, each block compared sample by sample with the reference decoder and the lib-shaped model; "
                            "quick = a spread of legal block sizes, thorough = every legal size 32..1024; AIFF-C ima4 34-byte packets; files ending in a partial block; "
                            "the table-revealing blocks (every step/index/adaptation/coefficient entry) are part of the campaign. Sampled, not exhaustive.").strip(" |")
