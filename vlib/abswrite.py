"""The Lean predicate as the deciding oracle of the write side: C01 / C04 / C07 / C11.

`Sf.AbsWrite.judge` (lean/SfModel/AbsWrite.lean) — the clauses of the four statements as Boolean checkers over one record
of the all-format write campaign — is evaluated by the compiled driver (`sfmodel abs-write`, lean/Driver/AbsWrite.lean) on
the implementation's own transcripts.  This module builds the driver input from the three scripts of a job (reference run,
split run with crash points, stale-frames run) and their transcripts, runs the driver, maps clause tags to the problem
categories of vlib/props/_write_common.py, lets the Lean verdict DECIDE (`decide`), keeps the Python predicate
(vlib/writecamp.py `analyse`) as a cross-check that may only ADD a finding, writes / re-judges replay files, and keeps the
books for the evidence block `abs_write_predicate`.
"""
import concurrent.futures, re, subprocess, time

# clause tag (Lean, Sf.AbsWrite.Fail.tag) -> problem category (vlib/props/_write_common.py CATS)
TAG_CAT = {
    "roundtrip": "roundtrip",
    "open": "open", "write": "write", "close": "close", "reopen": "reopen", "info": "info", "rate": "rate", "frames": "frames",
    "eof": "eof", "stale": "stale",
    "partition": "partition",
    "snapshot-open": "snapshot", "snapshot-info": "snapshot", "snapshot-frames": "snapshot", "snapshot-data": "snapshot",
    "snapshot-short": "snapshot",
    "record": "crash",
}

CLAUSE_OF = {
    "roundtrip": "C01: the first N frames, read with the same sample type, are bit-identical to what was written",
    "open": "C04: a format sf_format_check accepts opens for writing",
    "write": "C04/C05: a write call accepts what it was asked to (N = frames the write calls accepted)",
    "close": "C04: sf_close returns 0",
    "reopen": "C04: the closed file re-opens",
    "info": "C04: re-opening reports the requested channel count, container and encoding",
    "rate": "C04: re-opening reports the requested sample rate (up to the container's documented quantisation)",
    "frames": "C04: N <= F < N + B (+ pad allowance)",
    "eof": "C04: reading delivers exactly F frames followed by end of file",
    "stale": "C04: the stale SF_INFO.frames at open time has no influence",
    "partition": "C07: the bytes depend only on the concatenated samples, not on the split or on header updates",
    "snapshot-open": "C11: the crash-point image is a valid file",
    "snapshot-info": "C11: a reader of the crash-point image obtains the same parameters",
    "snapshot-frames": "C11: frame count = frames written so far, rounded down to whole blocks",
    "snapshot-data": "C11: the crash-point image reads back exactly that prefix of the written data",
    "snapshot-short": "C11: the crash-point image delivers the whole prefix",
    "record": "the transcript is not what the script should have produced (a script died or ended early)",
}

DEAD = ("CRASH", "ABORT", "TIMEOUT")


class Verdict:
    def __init__(self, status, fails=(), info=""):
        self.status, self.fails, self.info = status, list(fails), info      # fails: [(tag, run, idx, detail)]

    @property
    def ok(self):
        return self.status == "ok"

    def __repr__(self):
        return "Verdict(%s %r %s)" % (self.status, self.fails[:3], self.info)


def geom_line(word, ch, sr, ty, block=None, pad=None):
    s = "geom fmt=%08x ch=%d sr=%d ty=%s" % (word, ch, sr, ty)
    if block is not None:
        s += " block=%d pad=%d" % (block, pad or 0)
    return s


def _pairs(script, lines):
    sl = script.strip().split("\n")
    L = []
    for k, op in enumerate(sl):
        L.append(op.strip() or "-")
        L.append(lines[k].strip() or "-" if k < len(lines) else "TIMEOUT transcript-ends-here")
    return L, len(sl)


def record_text(name, geom, runs):
    """driver input of one record; runs: [(\"one\"|\"split\"|\"stale\", script text, transcript lines)]"""
    L = ["== " + name, geom]
    n = 0
    for (which, script, lines) in runs:
        if not script:
            continue
        L.append("run " + which)
        p, k = _pairs(script, lines)
        L += p
        n += k
    return "\n".join(L) + "\n", n


_LINE = re.compile(r"^(\S+) (ok|bad) ?(.*)$")


def parse_verdicts(stdout):
    res = {}
    for line in stdout.split("\n"):
        m = _LINE.match(line)
        if not m:
            continue
        name, st, rest = m.groups()
        if st == "ok":
            res[name] = Verdict("ok", info=rest)
        else:
            fails = []
            for part in rest.split("; "):
                mk = re.match(r"tag=(\S+) run=(\d+) idx=(\d+) ?(.*)$", part)
                if mk:
                    fails.append((mk.group(1), int(mk.group(2)), int(mk.group(3)), mk.group(4)))
            res[name] = Verdict("bad", fails)
    return res


def run_driver(exe, texts, workers=3):
    """texts: [(name, text)] -> {name: Verdict}"""
    order = sorted(texts, key=lambda it: -len(it[1]))
    chunks = [[] for _ in range(max(1, min(workers, len(order))))]
    sizes = [0] * len(chunks)
    for it in order:
        j = sizes.index(min(sizes))
        chunks[j].append(it)
        sizes[j] += len(it[1])

    def one(chunk):
        if not chunk:
            return {}
        p = subprocess.run([exe, "abs-write"], input="".join(t for (_, t) in chunk), capture_output=True, text=True, timeout=1800)
        if p.returncode != 0:
            raise RuntimeError("sfmodel abs-write failed: %s" % p.stderr[-2000:])
        return parse_verdicts(p.stdout)

    out = {}
    with concurrent.futures.ThreadPoolExecutor(max_workers=len(chunks)) as ex:
        for r in ex.map(one, chunks):
            out.update(r)
    return out


def _stats(ctx):
    return ctx.notes.setdefault("abs_write_predicate", {
        "oracle": "Sf.AbsWrite.judge (lean/SfModel/AbsWrite.lean) evaluated by `sfmodel abs-write`",
        "records_judged": 0, "script_lines_judged": 0, "write_calls": 0, "crash_points_judged": 0, "lossless_records": 0,
        "records_with_a_failing_clause": 0, "clause_tag_histogram": {}, "python_only_findings": 0,
        "lean_python_disagreements": 0, "disagreement_examples": [], "wall_s": 0.0, "input_bytes": 0})


def describe(tag, run, idx, detail):
    where = {1: "reference run (one call)", 2: "split run", 3: "stale-frames run"}.get(run, "run %d" % run)
    what = ""
    if tag.startswith("snapshot"):
        what = ", crash point %d" % idx
    elif tag == "write":
        what = ", write call %d" % idx
    return "Lean predicate Sf.AbsWrite.judge: clause `%s` fails in the %s%s [%s] %s" % (tag, where, what, CLAUSE_OF.get(tag, tag), detail.strip())


def job_geom(j):
    return geom_line(j.fmt.word, j.ch, j.sr, j.ty, j.B, j.pad)


def decide(ctx, res):
    """res: the result dicts of writecamp.run_jobs (each with job, script1..3, lines1..3 and the Python predicate's `problems`).
    Replaces r["problems"] by the LEAN verdict's problems (cat, text, which, line) plus what only the Python predicate found
    (text prefixed `python predicate only`), keeps the Python list in r["py_problems"], the Lean verdict in r["lean"]."""
    if not res:
        return res
    st = _stats(ctx)
    t0 = time.time()
    texts = []
    for i, r in enumerate(res):
        j = r["job"]
        name = "rec%d" % i
        text, n = record_text(name, job_geom(j), [("one", r["script1"], r.get("lines1", [])), ("split", r["script2"], r.get("lines2", [])),
                                                  ("stale", r.get("script3", ""), r.get("lines3", []))])
        texts.append((name, text))
        st["script_lines_judged"] += n
        st["input_bytes"] += len(text)
    out = run_driver(ctx.sfmodel(), texts)
    for i, r in enumerate(res):
        v = out.get("rec%d" % i)
        if v is None:
            raise RuntimeError("sfmodel abs-write printed no verdict for record %d (%s)" % (i, r["job"].name(i)))
        if any(t == "geometry" for (t, _, _, _) in v.fails):
            raise RuntimeError("geometry tables differ (vlib/geometry.py vs lean/SfModel/Geometry.lean) for %s: %s" % (r["job"].name(i), v.fails))
        r["lean"] = v
        st["records_judged"] += 1
        if v.ok:
            m = re.search(r"lossless=(\d) calls=(\d+) snaps=(\d+)", v.info)
            if m:
                st["lossless_records"] += int(m.group(1))
                st["write_calls"] += int(m.group(2)) + 1
                st["crash_points_judged"] += int(m.group(3))
        else:
            st["records_with_a_failing_clause"] += 1
            st["write_calls"] += len(r["job"].parts) + 1
        # C11's scope (no rewritable header: RAW; assembled at close: ALAC) is part of the Lean predicate (`snapScope`)
        j = r["job"]
        py = [q for q in r["problems"] if not (q[0] == "snapshot" and (j.fmt.major == 0x04 or j.fmt.codec in (0x70, 0x71, 0x72, 0x73)))]
        r["py_problems"] = py
        lean = []
        for (tag, run, idx, detail) in v.fails:
            st["clause_tag_histogram"][tag] = st["clause_tag_histogram"].get(tag, 0) + 1
            lean.append((TAG_CAT.get(tag, tag), describe(tag, run, idx, detail), run, None))
        lcats = {c for (c, _, _, _) in lean}
        pcats = {c for (c, _, _, _) in py}
        if lcats != pcats:
            st["lean_python_disagreements"] += 1
            if len(st["disagreement_examples"]) < 5:
                st["disagreement_examples"].append({"record": r["job"].name(i), "lean": sorted(t for (t, _, _, _) in v.fails),
                                                    "python": sorted(pcats)})
        extra = [(c, "python predicate only: " + t, w, None) for (c, t, w, _) in py if c not in lcats]
        st["python_only_findings"] += len(extra)
        r["problems"] = lean + extra
    st["wall_s"] = round(st["wall_s"] + time.time() - t0, 3)
    return res


# ---------------------------------------------------------------------------------------------------------------------
# replay files
# ---------------------------------------------------------------------------------------------------------------------

def replay_text(prop, r, cat, text):
    """a replay file that carries its record header: `bin/check Cxx --replay f` re-runs the scripts and re-judges with the driver"""
    j = r["job"]
    tags = sorted({t for (t, _, _, _) in r["lean"].fails if TAG_CAT.get(t, t) == cat}) if r.get("lean") else []
    L = ["# %s violated on the implementation's own transcript" % prop,
         "# format %s, %d channel(s), %d Hz, %d frames of %s" % (j.fmt.name, j.ch, j.sr, j.n, j.ty),
         "# %s" % text,
         "abs-write " + job_geom(j),
         "abs-write-clauses " + (",".join(tags) if tags else "-"),
         "--- run one", r["script1"].rstrip("\n")]
    if cat not in ("roundtrip", "open", "close", "reopen", "info", "rate", "frames", "eof") or any(w != 1 for (c, _, w, _) in r["problems"] if c == cat):
        L += ["--- run split", r["script2"].rstrip("\n")]
        if r.get("script3"):
            L += ["--- run stale", r["script3"].rstrip("\n")]
    return "\n".join(L) + "\n"


def is_replay(path):
    try:
        with open(path) as f:
            return any(l.startswith("abs-write geom ") for l in f)
    except OSError:
        return False


def replay(ctx, path, cats):
    """re-runs the scripts of a write-side replay file on the tree under test and re-judges the record with `sfmodel abs-write`"""
    text = open(path).read()
    geom = next(l[len("abs-write "):].strip() for l in text.split("\n") if l.startswith("abs-write geom "))
    runs = []
    for m in re.finditer(r"^--- run (\w+)\n(.*?)(?=^--- run |\Z)", text, re.S | re.M):
        script = m.group(2).strip("\n") + "\n"
        lines, rc, err = ctx.script(script)
        lines = [l for l in lines if l.startswith(ctx.TRANSCRIPT_PREFIXES)]
        if rc != 0:
            lines.append("ABORT status=%d" % rc)
        runs.append((m.group(1), script, lines))
        print("--- run %s" % m.group(1))
        print("\n".join(l if len(l) < 240 else l[:240] + "…" for l in lines))
    rec, _ = record_text("replay", geom, runs)
    v = run_driver(ctx.sfmodel(), [("replay", rec)]).get("replay")
    if v is None:
        raise RuntimeError("sfmodel abs-write printed no verdict")
    if v.ok:
        print("sfmodel abs-write: ok %s" % v.info)
    bad = False
    for (tag, run, idx, detail) in v.fails:
        mine = TAG_CAT.get(tag, tag) in cats
        print("sfmodel abs-write: %s%s" % (describe(tag, run, idx, detail), "" if mine else "   (a clause of another property)"))
        bad = bad or mine
    if bad:
        ctx.report(path)
    else:
        print("replay: the record is accepted by the %s clauses (no violation on this tree)" % ctx.prop)
