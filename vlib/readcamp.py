"""All-format read/seek campaign (C05 read side, C06): files written by the library itself, a reference stream
from one sequential read per caller type, then random read/seek histories checked by abscheck.ReadChecker."""
import re
from . import scripts as S, kernels as K, abscheck, formats

TYS = ["s16", "s32", "f32", "f64"]

# frames per block of the block codecs (for choosing lengths that straddle blocks); approximate is fine
BLOCK_HINT = {0x12: 505, 0x13: 500, 0x20: 160, 0x21: 2, 0x22: 160, 0x23: 160, 0x24: 160, 0x30: 120, 0x31: 120, 0x32: 120,
              0x40: 50, 0x41: 50, 0x42: 50, 0x70: 4096, 0x71: 4096, 0x72: 4096, 0x73: 4096}


SAMPLE_BYTES = {0x01: 1, 0x05: 1, 0x02: 2, 0x03: 3, 0x04: 4, 0x06: 4, 0x07: 8, 0x10: 1, 0x11: 1}


def raw_bw(fmt, ch):
    """bytes per frame for sf_read_raw on sample-granular encodings, else None (PAF 24-bit and SDS pack samples; XI is DPCM)"""
    if not fmt.granular or fmt.codec not in SAMPLE_BYTES or fmt.major in (0x11, 0x0F) or (fmt.major == 0x05 and fmt.codec == 0x03):
        return None
    return SAMPLE_BYTES[fmt.codec] * ch


def block_hint(fmt):
    b = BLOCK_HINT.get(fmt.codec, 1)
    if fmt.major == 0x11:      # SDS: 60/40/30 samples per block
        b = 60
    if fmt.major == 0x05 and fmt.codec == 0x03:   # PAF24: 10 frames per block
        b = 10
    return b


def pick_lengths(rng, fmt):
    b = block_hint(fmt)
    cands = [0, 1, 2, 3, b - 1, b, b + 1, 2 * b + 1, 3 * b - 1, 4 * b + 1, 5 * b + 7, 7 * b - 1, 100, 257, 1000]
    cands = [c for c in cands if 0 <= c <= 9000]
    return cands


def write_phase(rng, fmt, ch, n, sr=8000, wty=None):
    """script writing n frames in a few calls, then reference reads of each type"""
    wty = wty or ("s16" if fmt.codec not in (0x06, 0x07) else rng.choice(["f32", "f64", "s16"]))
    vmode = "unit"
    lines = ["open h0 s0 w fmt=%08x ch=%d sr=%d" % (fmt.word, ch, sr)]
    left = n
    while left > 0:
        k = min(left, rng.choice([1, 2, 3, 7, 64, 505, 1024, left, left]))
        unit = rng.choice("if")
        cnt = k if unit == "f" else k * ch
        lines.append(S.w_line("h0", wty, unit, cnt, S.rand_values(rng, wty, k * ch, vmode)))
        left -= k
    lines += ["close h0", "dump s0"]
    raw = fmt.major == 0x04
    for j, ty in enumerate(TYS):
        h = "h%d" % (j + 1)
        lines.append(("open %s s0 r fmt=%08x ch=%d sr=%d" % (h, fmt.word, ch, sr)) if raw else ("open %s s0 r" % h))
        # one sequential read of everything (+ room to see that nothing follows)
        lines.append("r %s %s i %d" % (h, ty, (n + 5000) * ch))
        lines.append("r %s %s i %d" % (h, ty, ch))
        lines.append("close %s" % h)
    return "\n".join(lines) + "\n"


def parse_write_phase(lines, script, ch):
    """returns dict(frames=F, ref={ty: [items]}, filehex=…, open_ok=bool, write_rets=[…]) or None if the format could not be written"""
    sl = script.strip().split("\n")
    info = {"ref": {}, "write_ok": True, "problems": []}
    if len(lines) < len(sl):
        info["problems"].append("transcript ends early (%d of %d lines): %s" % (len(lines), len(sl), lines[-1:] if lines else ""))
        return info
    for k, (op, out) in enumerate(zip(sl, lines)):
        t = op.split()
        if t[0] == "open" and "open=NULL" in out:
            info["problems"].append("line %d: %s -> %s" % (k, op[:60], out))
            return info
        if t[0] == "w":
            kv = abscheck.parse_kv(out)
            if int(kv.get("ret", -1)) != int(t[4]):
                info["write_ok"] = False
                info["problems"].append("line %d: write of %s returned %s" % (k, t[4], kv.get("ret")))
        if t[0] == "dump":
            info["filehex"] = out.split("hex=")[1] if "hex=" in out else ""
        if t[0] == "open" and t[3] == "r":
            kv = abscheck.parse_kv(out)
            F = int(kv.get("frames", -1))
            info.setdefault("frames_by_handle", []).append(F)
            info["frames"] = F
            info["seekable"] = kv.get("seekable") == "1"
        if t[0] == "r" and k + 1 < len(sl) and sl[k + 1].startswith("r "):
            ty = t[2]
            kv = abscheck.parse_kv(out)
            ret = int(kv.get("ret", -1))
            items = abscheck.split_items(kv.get("data", ""), ty)
            info["ref"][ty] = items[:max(ret, 0)]
            info.setdefault("ref_ret", {})[ty] = ret
            kv2 = abscheck.parse_kv(lines[k + 1])
            info.setdefault("after_ret", {})[ty] = int(kv2.get("ret", -1))
    return info


def test_phase(rng, fmt, ch, F, filehex, nops, sr=8000, raw_fmt=None):
    """random read/seek history on a fresh read handle; every op is followed by a position probe"""
    lines = ["store s0 " + filehex]
    raw = fmt.major == 0x04
    if raw_bw(fmt, ch) and F > 0:
        # reference stream for sf_read_raw: one sequential raw read of the whole file through a separate handle (abslean.py)
        lines.append(("open h1 s0 r fmt=%08x ch=%d sr=%d" % (fmt.word, ch, sr)) if raw else "open h1 s0 r")
        lines += ["rraw h1 %d" % (F * raw_bw(fmt, ch)), "close h1"]
    lines.append(("open h0 s0 r fmt=%08x ch=%d sr=%d" % (fmt.word, ch, sr)) if raw else "open h0 s0 r")
    if F * ch > 8192 + 800:
        # long files (handlecheck.allformat_read_campaign adds one per sample-granular codec): per caller type, a small read behind every staging-buffer
        # boundary (1024 / 2048 / 4096 / 8192 items) and a long read that crosses them at another phase than the sequential reference read did
        for ty in TYS:
            lines += ["seek h0 %d 0" % (F - 700 // ch), "r h0 %s i %d" % (ty, 600 // ch * ch), "seek h0 0 1",
                      "seek h0 1 0", "r h0 %s i %d" % (ty, (F - 1) * ch), "seek h0 0 1"]
    b = BLOCK_HINT.get(fmt.codec, 1)
    if fmt.major == 0x11:
        b = 60
    if fmt.major == 0x05 and fmt.codec == 0x03:
        b = 10
    pos = 0      # the generator's own idea of the read position (only used to aim at block boundaries)
    k = 0
    first = b > 1 and F > b and rng.random() < 0.5      # half of the block-codec histories start with the boundary pattern
    while k < nops:
        k += 1
        r = rng.random()
        if b > 1 and (r < 0.12 or first) and pos < F:
            first = False
            # read exactly up to the next block boundary, then move a little inside the block that starts there:
            # lazily decoding readers still hold the previous block at that moment
            n = b - pos % b
            ty = rng.choice(TYS)
            lines.append("r h0 %s f %d" % (ty, n))
            pos = min(F, pos + n)
            lines.append("seek h0 0 1")
            if rng.random() < 0.8 and pos < F:
                d = rng.choice([1, 2, 7, b // 2, b - 1])
                if rng.random() < 0.5:
                    lines.append("seek h0 %d 1" % d)
                    tgt = pos + d
                else:
                    tgt = pos + d
                    lines.append("seek h0 %d 0" % tgt)
                if 0 <= tgt <= F:
                    pos = tgt
                lines.append("seek h0 0 1")
                n2 = rng.choice([1, 3, b + 1])
                lines.append("r h0 %s f %d" % (rng.choice(TYS), n2))
                pos = min(F, pos + n2)
                lines.append("seek h0 0 1")
                k += 2
            continue
        bw = raw_bw(fmt, ch)
        if bw and r < 0.1:
            # sf_read_raw: whole frames (and, rarely, a byte count that is not a whole number of frames: must be refused)
            n = rng.choice([1, 2, 3, 7, 33, max(F, 1), F + 2])
            cnt = n * bw + (1 if (rng.random() < 0.1 and bw > 1) else 0)
            lines.append("rraw h0 %d" % cnt)
            if cnt % bw == 0:
                pos = min(F, pos + n)
            lines.append("seek h0 0 1")
            continue
        if r < 0.55:
            ty = rng.choice(TYS)
            unit = rng.choice("if")
            n = rng.choice([1, 1, 2, 3, 7, b - 1 if b > 1 else 5, b, b + 1, 2 * b + 1, 33, 4096 // max(ch, 1), max(F, 1), F + 1, 3 * F + 1])
            n = max(0, min(n, 12000))
            if rng.random() < 0.05:
                n = rng.choice([0, -1, -7])
            cnt = n if unit == "f" else (n * ch if rng.random() < 0.95 else n * ch + 1)
            lines.append("r h0 %s %s %d" % (ty, unit, cnt))
            if n > 0 and (unit == "f" or cnt % ch == 0):
                pos = min(F, pos + n)
        else:
            base = rng.choice([0, 0, 0, 1, 1, 2])
            q = rng.choice([0, 0, 0, 0x10]) if rng.random() < 0.92 else rng.choice([0x20, 0x30, 0x40, 3, 5])
            if base == 0:
                off = rng.choice([0, 1, b - 1, b, b + 1, F // 2, max(F - 1, 0), F, F + 1, -1, rng.randrange(0, F + 1)])
            elif base == 1:
                off = rng.choice([0, 0, 1, -1, b, -b, 5, -5, F, -F])
            else:
                off = rng.choice([0, -1, -b, -(b + 1), -F, -(F // 2), 1, -(F + 1)])
            lines.append("seek h0 %d %d" % (off, base | q))
            tgt = off if base == 0 else (pos + off if base == 1 else F + off)
            if q in (0, 0x10) and 0 <= tgt <= F:
                pos = tgt
        lines.append("seek h0 0 1")
    lines.append("close h0")
    return "\n".join(lines) + "\n"


def test_start(sl):
    """index of the first judged line of a test-phase script: the one after `open h0`"""
    return next(i for i, l in enumerate(sl) if l.startswith("open h0")) + 1


def check_test_phase(script, lines, ch, F, ref, seekable=True, bw=None, filehex=None):
    """returns list of (line index, text) problems"""
    sl = script.strip().split("\n")
    chk = abscheck.ReadChecker(ch, F, ref)
    chk.bw = bw
    chk.filebytes = bytes.fromhex(filehex) if filehex else None
    probs = []
    if len(lines) < len(sl):
        last = lines[-1] if lines else ""
        probs.append((len(lines) - 1, "transcript ends early: %s" % ([l for l in lines if l.startswith(("CRASH", "ABORT", "TIMEOUT"))] or last), "crash"))
    start = test_start(sl)
    for k in range(start, min(len(sl), len(lines))):
        op, out = sl[k], lines[k]
        if op.startswith("close"):
            if out.strip() != "ret=0":
                probs.append((k, "close returned %s" % out, "count"))
            continue
        if op.startswith("seek") and not seekable:
            # SF_INFO.seekable = 0: every seek must be refused (-1, error set) and must not disturb the stream
            kv = abscheck.parse_kv(out)
            if kv.get("ret") != "-1" or kv.get("err") == "0":
                probs.append((k, "handle reports seekable=0 but sf_seek returned %s err=%s" % (kv.get("ret"), kv.get("err")), "seek"))
            continue
        if op == "seek h0 0 1" and k > start and not sl[k - 1].startswith("seek h0 0 1"):
            # position probe
            kv = abscheck.parse_kv(out)
            if int(kv.get("ret", -999)) != chk.pos:
                probs.append((k, "zero-offset SEEK_CUR reports %s, next frame to be delivered is %d (after: %s)" % (kv.get("ret"), chk.pos, sl[k - 1][:50]), "position"))
                # resynchronise so one fault is reported once
                try:
                    chk.pos = int(kv.get("ret"))
                except (TypeError, ValueError):
                    pass
            continue
        chk.op(k, op, out)
    return probs + chk.problems
