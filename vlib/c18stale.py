"""C18 stale-PEAK campaign: SFC_CALC_* must report the maxima of the STORED samples on files whose PEAK chunk no longer describes them.

libsndfile's PEAK bookkeeping only grows, so ordinary histories leave a stale chunk behind; other software writes whatever it likes.
Every job builds one float / double file in a PEAK container by one HISTORY

  control          written once (chunk accurate: GET and CALC must agree with each other and with the samples)
  overwrite-w      written, then `sf_seek` back in the same SFM_WRITE session and quieter frames written over the loudest ones
  overwrite-rdwr   written and closed, re-opened SFM_RDWR, the loudest frames overwritten
  truncate-rdwr    written and closed, re-opened SFM_RDWR on a real path, SFC_FILE_TRUNCATE in front of the loudest frames
  patch-*          written and closed, then the value / position fields of the PEAK chunk are patched in the file bytes
                   (bigger, smaller, zero, positions moved) -- what a file from elsewhere may carry

and then, on a read handle (and for a third of the jobs on an SFM_RDWR handle) positioned at a seeded frame with seeded norm flags, asks
the four SFC_CALC_* commands (vlib/c18lib.py `calc_test_script` / `check_calc_test`: value == maximum of |v| over the sequential
reference stream, read position / write position / norm flags restored, following read unchanged) and SFC_GET_SIGNAL_MAX /
SFC_GET_MAX_ALL_CHANNELS (== the chunk that is in the file: the header commands report the header).
Lean: `Sf.Peak.stepCalc` never reads `h.peak` (SfProps/C18Stale.lean `calc_ignores_peak_chunk`); the reference streams go through
`sfmodel c18 calc`, and the WAV / RIFX jobs through `sfmodel c18 script` line by line (history and test).
"""
import collections, struct

from . import c18lib as L, scripts as S, abscheck

Fm = collections.namedtuple("Fm", "word major codec name granular")
HISTORIES = ["control", "overwrite-w", "overwrite-rdwr", "truncate-rdwr", "patch-bigger", "patch-smaller", "patch-zero", "patch-positions"]
PAD = 8


def _item(enc_ty, num, den=1024):
    x = num / float(den)
    return L.f32b(x) if enc_ty == "f32" else L.f64b(x)


def _frames_lines(rng, h, ty, ch, rows):
    """write calls (frames unit) over rows = [[numerators per channel]]"""
    out, k = [], 0
    while k < len(rows):
        n = min(len(rows) - k, rng.choice([1, 2, 5, 64, len(rows), len(rows)]))
        items = [_item(ty, v) for r in rows[k:k + n] for v in r]
        unit = rng.choice("if")
        out.append("w %s %s %s %d %s" % (h, ty, unit, n if unit == "f" else n * ch, "".join("%0*x" % (L.DIG[ty], v) for v in items)))
        k += n
    return out


def _quiet(rng, ch):
    return [rng.choice([-1, 1]) * rng.randrange(0, 129) for _ in range(ch)]


def gen_job(rng, k, container, enc, hist, ch):
    """-> dict(name, container, enc, ch, hist, F, phase1 script, loud)"""
    word = L.CONTAINERS[container][0] | L.ENC[enc]
    F = rng.choice([9, 12, 40, 1024 // ch + rng.choice([1, 7, 300])])
    ty = rng.choice(["f32", "f64"])
    rows = [_quiet(rng, ch) for _ in range(F)]
    # one loud frame per channel: magnitude in (0.5, 1), exact in binary32
    lo = F // 2 + 1 if hist == "truncate-rdwr" else 0
    loud = {}
    for c in range(ch):
        p = rng.randrange(lo, F)
        rows[p][c] = rng.choice([-1, 1]) * 64 * rng.randrange(9, 16)
        loud[c] = p
    ls = ["open h0 s0 w fmt=%08x ch=%d sr=8000" % (word, ch)]
    if container == "rf64":
        ls.append("cmd h0 1050 1 null")
    ls += _frames_lines(rng, "h0", ty, ch, rows)
    T = None
    if hist == "overwrite-w":
        for p in sorted(set(loud.values())):
            ls.append("seek h0 %d 0" % p)
            n = rng.choice([1, 1, 2]) if p + 2 <= F else 1
            ls += _frames_lines(rng, "h0", rng.choice(["f32", "f64"]), ch, [_quiet(rng, ch) for _ in range(n)])
        if rng.random() < 0.5:
            ls.append("seek h0 0 2")
        ls.append("close h0")
    elif hist == "overwrite-rdwr":
        ls += ["close h0", "open h1 s0 rw fmt=%08x ch=%d sr=8000" % (word, ch)]
        for p in sorted(set(loud.values())):
            ls.append("seek h1 %d %d" % (p, 0x20))
            ls += _frames_lines(rng, "h1", rng.choice(["f32", "f64"]), ch, [_quiet(rng, ch)])
        ls.append("close h1")
    elif hist == "truncate-rdwr":
        T = rng.randrange(1, min(loud.values()) + 1) if rng.random() < 0.6 else sorted(loud.values())[len(loud) // 2]
        T = max(1, T)
        ls += ["close h0", "open h1 s0 rw fmt=%08x ch=%d sr=8000 route=path" % (word, ch),
               "cmd h1 1080 8 %s" % struct.pack("<q", T).hex(), "close h1"]
    else:
        ls.append("close h0")
    ls.append("dump s0")
    return {"name": "st%03d-%s-%s-c%d-%s" % (k, container, enc, ch, hist), "container": container, "enc": enc, "ch": ch, "hist": hist, "F": F, "T": T,
            "phase1": "\n".join(ls) + "\n", "loud": loud, "fm": Fm(word, (word >> 16) & 0xFFF, word & 0xFFFF, "%s-%s" % (container, enc), True)}


def patch_peak(rng, job, data):
    """the file with its PEAK chunk patched as the history says; returns (bytes, note) -- unchanged for the other histories"""
    hist, container, ch = job["hist"], job["container"], job["ch"]
    if not hist.startswith("patch-"):
        return data, ""
    chunk, off = L.find_peak(container, data)
    if chunk is None:
        return data, "no PEAK chunk to patch (%s)" % off
    flav = L.CONTAINERS[container][1]
    b = bytearray(data)
    for c in range(ch):
        if flav == "caf":
            vo, po, e, pf = off + 16 + 12 * c, off + 20 + 12 * c, ">", "q"
        else:
            vo, po, e, pf = off + 16 + 8 * c, off + 20 + 8 * c, "<" if flav == "riff-le" else ">", "I"
        v = struct.unpack(e + "I", b[vo:vo + 4])[0]
        if hist == "patch-bigger":
            nv = L.f32b(L.b2f32(v) * rng.choice([2.0, 4.0, 1024.0]) + rng.choice([0.0, 1.0]))
        elif hist == "patch-smaller":
            nv = L.f32b(L.b2f32(v) / rng.choice([2.0, 16.0]))
        elif hist == "patch-zero":
            nv = 0
        else:
            nv = v
        b[vo:vo + 4] = struct.pack(e + "I", nv)
        if hist == "patch-positions":
            b[po:po + struct.calcsize(pf)] = struct.pack(e + pf, rng.randrange(0, 3 * job["F"] + 2))
    return bytes(b), "PEAK chunk at offset %d patched" % off


def phase2_script(rng, job, filehex, mode):
    """reference reads (norm off / on), the CALC test of c18lib, then the GET commands on a fresh read handle"""
    ch, F = job["ch"], job["F"]
    ls = ["store s0 " + filehex]
    for norm in (0, 1):
        h = "h%d" % (5 + norm)
        ls += ["open %s s0 r fmt=0 ch=0 sr=0" % h, "cmd %s 1012 %d null" % (h, norm), "r %s f64 i %d" % (h, (F + PAD) * ch), "r %s f64 i %d" % (h, ch), "close %s" % h]
    nref = len(ls)
    t, meta = L.calc_test_script(rng, job["fm"], ch, job["frames"], filehex, mode)
    ls += t.strip().split("\n")
    nget = len(ls)
    ls += ["open h7 s0 r fmt=0 ch=0 sr=0", "cmd h7 1044 8 zero", "cmd h7 1045 %d zero" % (8 * ch), "close h7"]
    return "\n".join(ls) + "\n", meta, nref, nget


def _dead(lines, want):
    dead = [l for l in lines if l.startswith(L.DEAD)]
    if dead or len(lines) < want:
        return "transcript ends early (%d of %d lines): %s" % (len(lines), want, dead[0] if dead else (lines[-1] if lines else ""))
    return None


def _model_script(ctx, scripts):
    inp = "".join("== %s\n%s" % (nm, t) for nm, t in scripts)
    out = ctx.run_model(["c18", "script"], inp, timeout=1800)
    mod, cur = {}, None
    for line in out.split("\n"):
        if line.startswith("== end"):
            cur = None
        elif line.startswith("== "):
            cur = line[3:]
            mod[cur] = []
        elif cur is not None:
            mod[cur].append(line)
    return mod


def stale_campaign(ctx, quick=True, model=True):
    rng = ctx.rng
    findings, stats = [], collections.Counter()
    jobs, k = [], 0
    reps = 1 if quick else 4
    for rep in range(reps):
        for container in L.CONTAINERS:
            for enc in ("f32", "f64"):
                for hist in HISTORIES:
                    ch = 1 + (k + rep) % 3 if rng.random() < 0.85 else rng.choice([4, 6])
                    jobs.append(gen_job(rng, k, container, enc, hist, ch))
                    k += 1
    out1 = ctx.batch([(j["name"], j["phase1"]) for j in jobs], clean=True, workers=4)
    tests = []
    for j in jobs:
        stats["jobs"] += 1
        stats["history:" + j["hist"]] += 1
        stats["container:" + j["container"]] += 1
        lines = out1.get(j["name"], [])
        sl = j["phase1"].strip().split("\n")
        d = _dead(lines, len(sl))
        if d:
            findings.append(L.Finding("crash", j["name"], "history: " + d, j["phase1"], cat="crash"))
            continue
        bad = None
        for op, o in zip(sl, lines):
            t = op.split()
            if t[0] == "open" and "open=ok" not in o:
                bad = ("open", "`%s` -> %s" % (op[:80], o))
                break
            if t[0] == "w" and abscheck.parse_kv(o).get("ret") != t[4]:
                bad = ("write", "`%s…` -> %s" % (op[:40], o))
                break
            if t[0] == "seek" and abscheck.parse_kv(o).get("ret") in (None, "-1"):
                bad = ("seek", "`%s` -> %s" % (op, o))
                break
            if t[0] == "cmd" and t[2] == "1080" and not o.startswith("ret=0 "):
                bad = ("truncate", "`%s` -> %s" % (op, o))
                break
            if t[0] == "close" and o.strip() != "ret=0":
                bad = ("close", "`%s` -> %s" % (op, o))
                break
        if bad:
            # a history the library refuses (e.g. a container that cannot be opened SFM_RDWR) is not a C18 matter: counted, listed, skipped
            stats["history-refused:" + bad[0]] += 1
            stats.setdefault("refused", [])
            stats["refused"].append("%s: %s" % (j["name"], bad[1][:140]))
            continue
        data = bytes.fromhex(lines[-1].split("hex=")[1]) if "hex=" in lines[-1] else b""
        data, note = patch_peak(rng, j, data)
        j["note"] = note
        j["file"] = data
        j["frames"] = j["T"] if j["hist"] == "truncate-rdwr" else j["F"]
        modes = ["r"] + (["rw"] if rng.random() < 0.34 else [])
        for mode in modes:
            sc, meta, nref, nget = phase2_script(rng, j, data.hex(), mode)
            tests.append((j["name"] + "-" + mode, j, sc, meta, nref, nget, mode))
    out2 = ctx.batch([(t[0], t[2]) for t in tests], clean=True, workers=4)
    mjobs, mwho = [], []
    for (name, j, sc, meta, nref, nget, mode) in tests:
        ch, F = j["ch"], j["frames"]
        lines = out2.get(name, [])
        sl = sc.strip().split("\n")
        stats["tests"] += 1
        stats["ops"] += len(sl)
        stats["mode:" + mode] += 1
        ctx.count(1, "stale:%s:%s:%d:%s:%s" % (j["container"], j["enc"], ch, j["hist"], mode))
        why = "history %s%s [made by: %s]" % (j["hist"], (" (" + j["note"] + ")") if j.get("note") else "",
                                              " ; ".join(l if len(l) < 70 else l[:60] + "…" for l in j["phase1"].strip().split("\n"))[:900])
        d = _dead(lines, len(sl))
        if d:
            findings.append(L.Finding("crash", name, "%s: %s" % (why, d), sc, cat="crash"))
            continue
        # reference streams
        ref, bad = {}, None
        for norm in (0, 1):
            o = abscheck.parse_kv(lines[1 + 5 * norm])
            r1, r2 = abscheck.parse_kv(lines[3 + 5 * norm]), abscheck.parse_kv(lines[4 + 5 * norm])
            if "open=ok" not in lines[1 + 5 * norm] or int(o.get("frames", -1)) != F or r1.get("ret") != str(F * ch) or r2.get("ret") != "0":
                bad = "re-open `%s`, sequential read ret=%s then %s (expected %d frames of %d channels)" % (lines[1 + 5 * norm][:90], r1.get("ret"), r2.get("ret"), F, ch)
                break
            hx = r1.get("data", "")
            ref[norm] = [int(hx[i:i + 16], 16) for i in range(0, 16 * F * ch, 16)]
        if bad:
            stats["reference-differs"] += 1
            stats.setdefault("reference_problems", [])
            stats["reference_problems"].append("%s: %s" % (name, bad[:200]))
            continue
        sig, per = L.stream_max(ref[0], ch)
        chunk, off = L.find_peak(j["container"], j["file"])
        cvals = None
        if chunk is not None:
            pp, cv, cpos = L.parse_peak(j["container"], chunk, ch)
            cvals = [L.widen(v) for v in cv] if not [x for x in pp if "size" in x] else None
        stale = cvals is not None and cvals != per
        stats["stale-chunk" if stale else "accurate-chunk"] += 1
        if j["hist"] != "control" and not stale and j["hist"] != "patch-positions":
            stats["history-left-chunk-accurate"] += 1
        # CALC
        probs, results = L.check_calc_test(meta, lines[nref:nget], ch, F, ref, name)
        for cat in sorted(set(c for c, _ in probs)):
            texts = [x for c, x in probs if c == cat]
            if cat in ("control-seek", "open-rw", "rw-stream"):
                stats["skipped:" + cat] += 1
                continue
            kind = "crash" if cat == "crash" else "truth"
            findings.append(L.Finding(kind, name, "%s ch=%d frames=%d, %s; PEAK chunk in the file says [%s], stored samples have [%s]: %s"
                                      % (j["fm"].name, ch, F, why, ",".join(map(L.hx64, cvals or [])), ",".join(map(L.hx64, per)), "; ".join(texts[:4])), sc, cat="stale-" + cat))
            stats["finding:" + cat] += 1
        # GET: the header commands report the chunk that is in the file
        g1, g2 = L.cmd_doubles(lines[nget + 1]), L.cmd_doubles(lines[nget + 2])
        if cvals is None:
            want1, want2 = (0, [0]), (0, [0] * ch)
        else:
            want1, want2 = (1, [max(cvals)]), (1, cvals)
        if (g1[0], g1[2]) != want1 or (g2[0], g2[2]) != want2:
            kind = "truth" if j["hist"] == "control" else "corr"
            findings.append(L.Finding(kind, name, "%s: SFC_GET_SIGNAL_MAX -> ret=%d [%s], SFC_GET_MAX_ALL_CHANNELS -> ret=%d [%s]; the PEAK chunk in the file holds [%s]"
                                      % (why, g1[0], ",".join(map(L.hx64, g1[2])), g2[0], ",".join(map(L.hx64, g2[2])), ",".join(map(L.hx64, cvals or []))), sc, cat="stale-get"))
            stats["finding:get"] += 1
        if j["hist"] == "control" and cvals is not None and cvals != per:
            findings.append(L.Finding("truth", name, "file written once: PEAK chunk [%s] but the stored samples have [%s]" % (",".join(map(L.hx64, cvals)), ",".join(map(L.hx64, per))), sc, cat="stale-control"))
        if results and model:
            for norm in (0, 1):
                mjobs.append((ch, ref[norm]))
                mwho.append((name, norm, results, sc, j))
    if model and mjobs:
        for (sig, per), (name, norm, results, sc, j) in zip(L.model_calc(ctx, mjobs), mwho):
            stats["model_jobs"] += 1
            a, b = ("1040", "1042") if norm == 0 else ("1041", "1043")
            if results.get(a) != [sig] or results.get(b) != per:
                findings.append(L.Finding("corr", name, "%s norm=%d: implementation %s=[%s] %s=[%s]; model (scan of the reference stream) sig=%s all=[%s]"
                                          % (j["fm"].name, norm, a, ",".join(map(L.hx64, results.get(a, []))), b, ",".join(map(L.hx64, results.get(b, []))), L.hx64(sig), ",".join(map(L.hx64, per))), sc, cat="corr"))
                stats["corr-mismatch"] += 1
    # the Lean handle model on the WAV / RIFX jobs, line by line: the history (the stale chunk itself) and the test
    if model:
        l1 = [(j["name"] + "-hist", j["phase1"]) for j in jobs if j["container"] in ("wav", "rifx") and j["hist"] != "truncate-rdwr" and "file" in j]
        l1 += [(name, sc) for (name, j, sc, meta, nref, nget, mode) in tests if j["container"] in ("wav", "rifx")]
        impl = dict((j["name"] + "-hist", out1.get(j["name"], [])) for j in jobs)
        impl.update(out2)
        mod = _model_script(ctx, l1) if l1 else {}
        for nm, t in l1:
            i, m = impl.get(nm, []), mod.get(nm, [])
            pre = S.modelled_prefix(m)
            stats["model_scripts"] += 1
            stats["model_lines"] += pre
            if "unmodelled" in m:
                stats["model_partly_unmodelled"] += 1
            dd = S.first_diff(i, m)
            if dd is not None:
                sl = t.strip().split("\n")
                findings.append(L.Finding("corr", nm, "line %d `%s`: implementation `%s` model `%s`" % (dd, sl[dd][:80] if dd < len(sl) else "?",
                                          (i[dd] if dd < len(i) else "<missing>")[:300], (m[dd] if dd < len(m) else "<missing>")[:300]), "\n".join(sl[:dd + 1]) + "\n", cat="corr"))
                stats["corr-mismatch"] += 1
    stats["distinct_tags"] = len([t for t in ctx.distinct if t.startswith("stale:")])
    return findings, stats
