"""C20 for G.721 / G.723, NMS ADPCM and GSM 06.10 (round 5, worker codecs2): the codec kernels of the tree under test against the
models with the PUBLISHED tables, through the public API, and the search for a failing input when a `_tables_extracted` theorem stops.

  decode stream   a data region (campaign-made: noise, constant codes, code cycles, level sweeps) behind an AU header (G.72x) or as a RAW
                  file (NMS 16/24/32, GSM 06.10 33-byte frames): `sf_read_short` of everything  ==  `sfmodel <codec> dec`
  encode stream   shorts (noise at many levels, ramps, sines, sweeps from silence to full scale and back, extremes) written with one
                  `sf_write_short`, closed: the data region  ==  `sfmodel <codec> enc`

The models are transcriptions with the published tables (lean/SfModel/G72x.lean, Nms.lean, Gsm.lean; `g72x_tables_extracted`,
`nms_tables_extracted`, `gsm_tables_extracted` tie the tables to the tree on every run), so a difference is an input on which the tree's
kernel leaves its published definition: the replay holds the input and, as `expect-last`, what the definition gives.

`run(ctx)` — the C20 stage (always).  `search(ctx)` — called by C05 / C06 / C07 only when codectab.pregen saw a differing table entry;
there the three statements still hold on such a codec, so what it finds is written as context of the `no-failing-input-found`
theorem verdict, not as a violation of its own.
"""
import collections

from . import g72x as G

AU, RAW = 0x030000, 0x040000
# (codec key, display name, format word, model args enc, model args dec, samples per block, bytes per block)
CODECS = [
    ("g721", "G.721 32 kbit/s", AU | 0x30, ["g72x", "enc", "4"], ["g72x", "dec", "4"], 120, 60),
    ("g723_24", "G.723 24 kbit/s", AU | 0x31, ["g72x", "enc", "3"], ["g72x", "dec", "3"], 120, 45),
    ("g723_40", "G.723 40 kbit/s", AU | 0x32, ["g72x", "enc", "5"], ["g72x", "dec", "5"], 120, 75),
    ("nms16", "NMS ADPCM 16 kbit/s", RAW | 0x22, ["nms", "enc", "16"], ["nms", "dec", "16"], 160, 42),
    ("nms24", "NMS ADPCM 24 kbit/s", RAW | 0x23, ["nms", "enc", "24"], ["nms", "dec", "24"], 160, 62),
    ("nms32", "NMS ADPCM 32 kbit/s", RAW | 0x24, ["nms", "enc", "32"], ["nms", "dec", "32"], 160, 82),
    ("gsm", "GSM 06.10", RAW | 0x20, ["gsm", "enc"], ["gsm", "dec"], 160, 33),
]
BITS = {"g721": 4, "g723_24": 3, "g723_40": 5}
ENC_KINDS = ["uniform", "walk", "square", "sine", "sweep", "levels", "extremes", "quiet", "steps", "mixture", "alternate", "impulse"]
DEC_KINDS = ["noise", "const", "cycle", "runs", "noise", "runs"]


def sx16(v):
    v &= 0xFFFF
    return v - 65536 if v & 0x8000 else v


def enc_content(rng, kind, n):
    if kind == "sweep":
        # silence -> full scale -> silence: the step-size state (yl / yu / xmax) passes through every value on the way
        out = []
        for i in range(n):
            a = 32767 * min(i, n - 1 - i) * 2 // max(1, n - 1)
            a = max(1, min(32767, a))
            out.append(rng.randrange(-a, a + 1))
        return out
    if kind == "square":
        # near full-scale square waves of long period: the predictor overshoots, the ACCUM sum of G.72x leaves 16 bits (KF-G721-ENC-SE)
        a, per = rng.choice([32700, 32767, 32000, 30000]), rng.choice([16, 16, 12, 20, 29, 40])
        lo = rng.choice([-1, -1, 0])
        return [(a if (k // per) % 2 == 1 else lo * a) for k in range(n)]
    if kind == "levels":
        out, a = [], 1
        while len(out) < n:
            a = rng.choice([1, 3, 10, 30, 100, 300, 1000, 3000, 10000, 32767])
            run = rng.choice([20, 40, 80, 160])
            f = rng.choice([0, 0, 1])
            for i in range(run):
                out.append(rng.randrange(-a, a + 1) if f == 0 else (a if (i // rng.choice([1, 2, 5, 20, 40])) % 2 == 0 else -a))
        return out[:n]
    return G.content(rng, kind, n)


def dec_region(rng, key, kind, nblocks, bpb):
    n = nblocks * bpb
    if key == "gsm":
        frames = []
        for b in range(nblocks):
            if kind == "const":
                v = rng.choice([0x00, 0xFF, 0x55, 0xAA, rng.getrandbits(8)])
                fr = [v] * 33
            elif kind == "runs":
                fr = [rng.getrandbits(8) if (b // 3) % 2 == 0 else rng.choice([0, 0xFF]) for _ in range(33)]
            else:
                fr = [rng.getrandbits(8) for _ in range(33)]
            fr[0] = 0xD0 | (fr[0] & 0x0F)
            frames += fr
        return frames
    if kind == "noise":
        return [rng.getrandbits(8) for _ in range(n)]
    if kind == "const":
        v = rng.choice([0x00, 0xFF, 0x77, 0x88, 0x0F, 0xF0, rng.getrandbits(8)])
        return [v] * n
    if kind == "cycle":
        s, st = rng.getrandbits(8), rng.choice([1, 3, 7, 17, 85])
        return [(s + st * i) & 0xFF for i in range(n)]
    # runs: stretches of one byte (the top codes wind the step size up, the bottom codes wind it down: a level sweep on the decoder side)
    out = []
    while len(out) < n:
        v = rng.choice([0x00, 0xFF, 0x77, 0x88, 0x33, 0xCC, 0x11, 0xEE, rng.getrandbits(8)])
        out += [v] * rng.choice([5, 20, 60, 150])
    if key.startswith("nms"):
        # the last word of an NMS block is the rms word: any value will do
        pass
    return out[:n]


def file_hex(key, word, datahex):
    if key in BITS:
        return G.file_around(word, BITS[key], 8000, 1, datahex)
    return datahex


def region_of(key, filehex):
    if key in BITS:
        return filehex[2 * int(filehex[8:16] or "18", 16):] if len(filehex) >= 48 else ""
    return filehex


def make_jobs(rng, per_codec, big, only=None, tag=""):
    jobs = []
    for (key, disp, word, menc, mdec, spb, bpb) in CODECS:
        if only is not None and family(key) not in only:
            continue
        for j in range(per_codec):
            nb = rng.choice([1, 2, 3, 5, 8]) * (2 if big else 1)
            if key == "gsm":
                # the model's GSM encoder costs ~10 ms a frame; a changed encoder-table entry (gsm_NRFAC, gsm_DLB) moves few outputs: many frames then
                nb = rng.choice([8, 16, 24, 32]) if big else max(1, nb // 2)
            kind = ENC_KINDS[j % len(ENC_KINDS)]
            n = nb * spb - rng.choice([0, 0, 1, spb // 2])
            if kind == "square":
                n = max(n, 3 * spb)
            xs = [max(-32768, min(32767, v)) for v in enc_content(rng, kind, max(1, n))]
            jobs.append(dict(dir="enc", key=key, disp=disp, word=word, margs=menc, kind=kind, xs=xs, name="%s-enc%s-%d-%s" % (key, tag, j, kind)))
        for j in range(per_codec):
            nb = rng.choice([1, 2, 4, 6, 12]) * (2 if big else 1)
            kind = DEC_KINDS[j % len(DEC_KINDS)]
            data = dec_region(rng, key, kind, nb, bpb)
            jobs.append(dict(dir="dec", key=key, disp=disp, word=word, margs=mdec, kind=kind, data=data, n=nb * spb, name="%s-dec%s-%d-%s" % (key, tag, j, kind)))
    return jobs


def family(key):
    return "g72x" if key in BITS else key.rstrip("0123456789")


def harness_script(job, n=None):
    if job["dir"] == "enc":
        xs = job["xs"]
        return "\n".join(["open h0 s0 w fmt=%08x ch=1 sr=8000" % job["word"],
                          "w h0 s16 i %d %s" % (len(xs), "".join("%04x" % (x & 0xFFFF) for x in xs)),
                          "close h0", "dump s0"]) + "\n"
    datahex = "".join("%02x" % b for b in job["data"])
    return "\n".join(["store s0 " + file_hex(job["key"], job["word"], datahex),
                      "open h0 s0 r fmt=%08x ch=1 sr=8000" % job["word"],
                      "r h0 s16 i %d" % (job["n"] if n is None else n)]) + "\n"


def model_answers(ctx, jobs):
    """one sfmodel process per (codec, direction)"""
    groups = collections.OrderedDict()
    for j in jobs:
        groups.setdefault(tuple(j["margs"]), []).append(j)
    for margs, js in groups.items():
        if js[0]["dir"] == "enc":
            inp = "".join("".join("%04x" % (x & 0xFFFF) for x in j["xs"]) + "\n" for j in js)
        else:
            inp = "".join("".join("%02x" % b for b in j["data"]) + "\n" for j in js)
        out = ctx.run_model(list(margs), inp, timeout=1800).split("\n")
        for j, l in zip(js, out):
            j["model"] = l.replace(" ", "").strip()


def impl_answer(job, lines):
    if job["dir"] == "enc":
        l = next((l for l in lines if l.startswith("len=") and "hex=" in l), None)
        return region_of(job["key"], l.split("hex=")[1].strip()) if l is not None else None
    l = next((l for l in reversed(lines) if l.startswith("ret=") and "data=" in l), None)
    if l is None:
        return None
    ret = int(l.split()[0].split("=")[1])
    return l.split("data=")[1].strip()[:4 * ret]


def first_diff(a, b, w):
    n = min(len(a), len(b)) // w
    for k in range(n):
        if a[k * w:(k + 1) * w] != b[k * w:(k + 1) * w]:
            return k
    return n if len(a) != len(b) else None


def replay_text(job, impl, model, k, diffs):
    head = ["# C20: %s %s — the tree under test leaves the published definition on this input" % (job["disp"], "decoder" if job["dir"] == "dec" else "encoder")]
    for (codec, t, i, a, b) in diffs:
        head.append("# table entry changed in the tree: %s %s[%s]: published %s, tree %s" % (codec, t, i, a, b))
    if job["dir"] == "dec":
        n = k + 1
        head.append("# %d bytes of data (%s), decoded sample %d: tree %s, published-table decode (model) %s" % (len(job["data"]), job["kind"], k, impl[4 * k:4 * k + 4], model[4 * k:4 * k + 4]))
        head.append("expect-last data=%s" % model[:4 * n])
        return "\n".join(head) + "\n--- script\n" + harness_script(job, n)
    head.append("# %d samples (%s), encoded byte %d of the data region: tree %s, published-table encode (model) %s" % (len(job["xs"]), job["kind"], k, impl[2 * k:2 * k + 2], model[2 * k:2 * k + 2]))
    head.append("expect-last %s" % model)
    return "\n".join(head) + "\n--- script\n" + harness_script(job)


def campaign(ctx, per_codec, big=False, only=None, tag=""):
    """returns (list of (job, impl, model, first differing item), stats)"""
    rng = ctx.rng
    jobs = make_jobs(rng, per_codec, big, only, tag)
    model_answers(ctx, jobs)
    res = ctx.batch([(j["name"], harness_script(j)) for j in jobs], op_timeout=30, workers=3, clean=True)
    stats = collections.Counter()
    found = []
    for j in jobs:
        lines = res.get(j["name"], [])
        impl = impl_answer(j, lines)
        stats["jobs"] += 1
        stats["%s_%s_jobs" % (j["key"], j["dir"])] += 1
        if j["dir"] == "enc":
            stats["samples_encoded"] += len(j["xs"])
            stats["encoded_bytes_compared"] += len(j.get("model", "")) // 2
        else:
            stats["data_bytes_decoded"] += len(j["data"])
            stats["decoded_samples_compared"] += len(j.get("model", "")) // 4
        crashed = any(l.startswith(("CRASH", "ABORT", "TIMEOUT")) for l in lines)
        if impl is None or crashed:
            found.append((j, None, j.get("model", ""), None, lines))
            continue
        if impl != j.get("model", ""):
            found.append((j, impl, j["model"], first_diff(impl, j["model"], 2 if j["dir"] == "enc" else 4), lines))
    return found, stats


def _report(ctx, found, diffs, as_violation):
    seen = set()
    paths = []
    for (j, impl, model, k, lines) in found:
        tag = (j["key"], j["dir"])
        if tag in seen:
            continue
        seen.add(tag)
        if impl is None or k is None:
            text = "# C20: %s: the harness run of this input did not finish normally\n# %s\n--- script\n%s" % (j["disp"], " | ".join(lines[-3:])[:600], harness_script(j))
        else:
            text = replay_text(j, impl, model, k, [d for d in diffs if j["key"].startswith(d[0]) or (d[0] == "g72x" and j["key"] in BITS)])
        name = "%s-codec-%s-%s" % (ctx.prop.lower(), j["key"], j["dir"])
        if as_violation:
            paths.append(ctx.violation(name, text))
        else:
            paths.append(ctx.write_replay(name + "-context", text))
    return paths


def escalate(ctx, diffs, found, stats, budget=60.0):
    """a table entry differs but the first batch shows no input for that codec family: more rounds for that family only (an entry of an encoder
    table such as gsm_NRFAC moves one output in thousands), until an input is found or the budget is spent"""
    import time
    t0 = time.time()
    rounds = 0
    while time.time() - t0 < budget and rounds < 10:
        have = {family(j["key"]) for (j, impl, model, k, lines) in found if impl is not None and k is not None}
        missing = {d[0] for d in diffs} - have
        if not missing:
            break
        rounds += 1
        f2, s2 = campaign(ctx, 18, True, only=missing, tag="-x%d" % rounds)
        found += f2
        stats.update(s2)
    stats["escalation_rounds"] = rounds
    return found, stats


def run(ctx, failed=()):
    """the C20 stage"""
    q = ctx.tier == "quick"
    diffs = list(getattr(ctx, "codectab_diffs", []))
    big = bool(diffs) or any("tables_extracted" in f or "_extracted" in f for f in failed)
    found, stats = campaign(ctx, (6 if q else 40) * (3 if big else 1), big)
    if diffs:
        found, stats = escalate(ctx, diffs, found, stats)
    ctx.count(stats["jobs"], tag="codecs20")
    for (key, *_rest) in CODECS:
        ctx.distinct.add("codecs20:" + key)
    ctx.coverage["traces_validated_against_impl"] += stats["jobs"]
    paths = _report(ctx, found, diffs, True)
    # `_extracted` theorems that stopped and whose codec now has a concrete failing input: later stages need not report them again
    hit = {family(j["key"]) for (j, impl, model, k, lines) in found if impl is not None and k is not None}
    # (a failure inside SfProps/C05G72x.lean, which the C20 modules import, is named by file and line)
    ctx.lean_failures_with_input = [f for f in failed if ("_extracted" in f and any(("." + c + "_") in f for c in hit)) or ("C05G72x.lean" in f and "g72x" in hit)]
    ev = dict(stats)
    ev["differences"] = len(found)
    ev["table_entries_differing"] = len(diffs)
    ctx.notes["codec_kernels"] = ev
    ctx.coverage["rule"] = (ctx.coverage.get("rule", "") + " | codec kernels (G.721, G.723 24/40, NMS 16/24/32, GSM 06.10): sampled, not exhaustive — per codec "
                            "campaign-made data regions {noise, constant codes, cycles, runs} decoded through sf_read_short and sample blocks {noise, walks, sines, "
                            "silence-to-full-scale sweeps, level runs, extremes, steps, impulses} encoded through sf_write_short + close, compared with the models carrying "
                            "the published tables (tables tied by g72x / nms / gsm_tables_extracted)")
    return bool(paths)


def search(ctx):
    """C05 / C06 / C07: only when a table entry of the tree differs from the published one; returns replay paths (context, no verdict)"""
    diffs = list(getattr(ctx, "codectab_diffs", []))
    if not diffs:
        return []
    found, stats = campaign(ctx, 12, True)
    found, stats = escalate(ctx, diffs, found, stats, budget=30.0)
    paths = _report(ctx, found, diffs, False)
    ctx.notes["codec_table_search"] = {"jobs": stats["jobs"], "inputs_leaving_the_published_tables": len(found), "context_replays": paths}
    return paths
