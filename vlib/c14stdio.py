"""C14: the route NO campaign took — sf_open ("-") = `psf_set_stdio` (src/file_io.c): SFM_READ reads descriptor 0, SFM_WRITE writes
descriptor 1, SFM_RDWR is refused (round 9 covgap; harness route `stdio` / `stdiopipe` in harness/sfh.c op_open).

For every file of C14's public stream (one per writable (major, codec) pair, SD2 excepted — its resource fork needs a path):
  write   the same write history through route stdio (a regular scratch file behind descriptor 1) and through virtual I/O: equal call
          results and equal file bytes (name fields masked as the statement says);
  read    the vio-written file through route stdio (regular file behind descriptor 0): every result equals the virtual-I/O route's;
          after sf_close descriptors 0 / 1 are STILL OPEN: the library did not open them ("never touches descriptors it did not open";
          KF-C14-STDIO-CLOSE, repaired: psf_set_stdio sets do_not_close_descriptor as its Windows-API branch always did);
  pipe    WAV / AIFF / AU sample-granular: route stdiopipe (a pipe behind descriptor 0) against the sequential virtual-I/O read;
  rdwr    sf_open ("-", SFM_RDWR) returns NULL with a non-zero error and a message.
Replays are plain scripts (generic replay; `sfh script` holds its script in memory, so descriptor 0 is free to carry the sound file).
"""
import re


def run(ctx, jobs):
    from .props import c14 as C
    scripts, meta = [], []
    for n, j in enumerate(jobs):
        f = j["f"]
        if not j.get("filehex") or f.major == 0x16:
            continue
        scripts.append(("w|%d|vio" % n, C.write_script(f, j["ch"], j["frames"], j["vals"], "vio", j["title"])))
        scripts.append(("w|%d|stdio" % n, C.write_script(f, j["ch"], j["frames"], j["vals"], "stdio", j["title"])))
        scripts.append(("r|%d|vio" % n, C.read_script(f, j["ch"], j["frames"], j["filehex"], "vio")))
        scripts.append(("r|%d|stdio" % n, C.read_script(f, j["ch"], j["frames"], j["filehex"], "stdio")))
        pipe = f.major in C.PIPE_MAJORS and f.granular
        if pipe:
            scripts.append(("r|%d|vioseq" % n, C.read_script(f, j["ch"], j["frames"], j["filehex"], "vio", seekable=False)))
            scripts.append(("r|%d|stdiopipe" % n, C.read_script(f, j["ch"], j["frames"], j["filehex"], "stdiopipe", seekable=False)))
        scripts.append(("rw|%d|stdio" % n, C.read_script(f, j["ch"], j["frames"], j["filehex"], "stdio", mode="rw")))
        meta.append((n, j, pipe))
    res = ctx.batch(scripts, op_timeout=20, clean=True, workers=8)
    sd = dict(scripts)
    found = False
    nrep = [0]

    def bad(name, why, key, ref, got):
        nonlocal found
        found = True
        nrep[0] += 1
        if nrep[0] > 3:
            return
        ctx.violation("stdio-" + re.sub(r"\W+", "_", name), "# C14 sf_open (\"-\") must behave as every other route: %s\n# reference route: %s\n# stdio route    : %s\n--- script\n%s"
                      % (why, " / ".join(ref)[:600], " / ".join(got)[:600], sd[key]))

    for (n, j, pipe) in meta:
        f = j["f"]
        # write
        ref, got = res.get("w|%d|vio" % n, []), res.get("w|%d|stdio" % n, [])
        ctx.count(1, tag="write-stdio-%s" % f.name.split("-")[0])
        rm = re.match(r"len=(\d+) hex=([0-9a-f]*)", ref[-1] if ref else "")
        gm = re.match(r"len=(\d+) hex=([0-9a-f]*)", got[-1] if got else "")
        if rm and ref[0].startswith("open=ok"):
            a, b = rm.group(2), gm.group(2) if gm else None
            if f.major == 0x06 and b is not None:
                a, b = C.svx_without_name(a), C.svx_without_name(b)
            elif f.major == 0x21 and b is not None:
                a, b = C.mask_names(f.major, a, a), C.mask_names(f.major, b, b)
            if C.strip_route_noise(got[:-1]) != C.strip_route_noise(ref[:-1]):
                bad("w-" + j["name"], "%s: open / write / close results differ from the virtual-I/O route" % j["name"], "w|%d|stdio" % n, C.strip_route_noise(ref[:-1]), C.strip_route_noise(got[:-1]))
            elif C.fd_open_of(got) != 1:
                bad("wfd-" + j["name"], "%s: sf_close closed descriptor 1 (fd_open=%s) -- the process's stdout, a descriptor the library did not open (KF-C14-STDIO-CLOSE)" % (j["name"], C.fd_open_of(got)),
                    "w|%d|stdio" % n, ["ret=0 fd_open=1"], [l for l in got if "fd_open" in l][:1])
            elif a != b:
                bad("wbytes-" + j["name"], "%s: the bytes written through descriptor 1 differ from the virtual-I/O route's (%s vs %s bytes)" % (j["name"], gm.group(1) if gm else "?", rm.group(1)),
                    "w|%d|stdio" % n, ref[-1:], got[-1:])
        # read
        for (rk, gk, what) in [("r|%d|vio", "r|%d|stdio", "regular file behind descriptor 0")] + ([("r|%d|vioseq", "r|%d|stdiopipe", "pipe behind descriptor 0")] if pipe else []):
            ref, got = res.get(rk % n, []), res.get(gk % n, [])
            ctx.count(1, tag="read-%s-%s" % (gk.split("|")[-1], f.name.split("-")[0]))
            ctx.coverage["traces_validated_against_impl"] += 1
            a = C.strip_route_noise(C.cut_reads(sd[rk % n], ref, j["ch"]))[1:]
            b = C.strip_route_noise(C.cut_reads(sd[gk % n], got, j["ch"]))[1:]
            if "stdiopipe" in gk:
                a, b = [re.sub(r" seekable=\d", "", x) for x in a], [re.sub(r" seekable=\d", "", x) for x in b]
            if a != b:
                k = next((i for i in range(min(len(a), len(b))) if a[i] != b[i]), min(len(a), len(b)))
                bad("r-%s-%s" % (gk.split("|")[-1], j["name"]), "%s (%s): line %d differs" % (j["name"], what, k + 1), gk % n, a[k:k + 2], b[k:k + 2])
            elif got and got[1].startswith("open=ok") and C.fd_open_of(got) != 1:
                bad("rfd-%s-%s" % (gk.split("|")[-1], j["name"]), "%s (%s): sf_close closed descriptor 0 (fd_open=%s) -- the process's stdin, a descriptor the library did not open (KF-C14-STDIO-CLOSE)" % (j["name"], what, C.fd_open_of(got)),
                    gk % n, ["ret=0 fd_open=1"], got[-1:])
        # rdwr is refused
        got = res.get("rw|%d|stdio" % n, [])
        ctx.count(1, tag="rdwr-stdio")
        m = re.match(r"open=NULL err=(\d+) msglen=(\d+)", got[1] if len(got) > 1 else "")
        if not m or int(m.group(1)) == 0 or int(m.group(2)) == 0:
            bad("rw-" + j["name"], "%s: sf_open (\"-\", SFM_RDWR) must fail with a non-zero error and a message" % j["name"], "rw|%d|stdio" % n, ["open=NULL err=<non-zero> msglen=<non-zero>"], got[1:2])
    ctx.notes["stdio_route"] = {"formats": len(meta), "scripts": len(scripts), "pipe_formats": sum(1 for m in meta if m[2]), "failures": nrep[0]}
    return found
