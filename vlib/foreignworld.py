"""C19: FOREIGN files and READ/WRITE handles in the mix — merged vs solo.

Why this exists (round 8, seed C19-svx-anno-global): every workload of the all-format campaign (vlib/worldcamp.py) creates its own
file, so whatever a header READER finds in a file is what the header WRITER of the same process would have put there anyway: a
reader that parks something it parsed (an annotation, a name, a chunk list, a layout decision) in process-wide storage for the writer's
benefit changes nothing observable.  It shows only when (a) the file comes from elsewhere — optional text / metadata chunks with other
contents and other LENGTHS than the library's own —, (b) it is opened in the mode whose open path feeds the writer (SFM_RDWR rewrites
the header at open and at close), and (c) another handle of the same container WRITES in the same process.

What is enumerated: for every container vlib/foreign.py can transform (AU, WAV, WAVEX, AIFF, SVX, CAF, W64, RF64, VOC, NIST):
  file A    a library-written base file that carries every string the container stores (title … genre, set before the audio), then
            every foreign transformation of it (vlib/foreign.py `VARIANTS`: unknown chunks, ANNO / AUTH in front of the audio, an AU
            annotation, an 18-byte `fmt `, SSND offset, `free` chunk …) plus `asis`
  actor A   `store` the file, open it r or rw, read, sf_get_string x 5, (rw: append two frames, header update), close, digest
  actor B   a WRITER of the same container (another encoding where there is one): vlib/worldcamp.py `gen_workload` kind `w`
            (write in several calls with header updates, close, re-open, read everything back, digest)
  merges    `roundrobin` (B opened before A's open and closed after A's close: B's close-time header rewrite comes after A's
            reader ran), `sequential` (A's whole life, THEN B: "results are independent of what the library did earlier") and
            `reverse`; quick tier: rw in every cell, r in a rotating third.
  verdict   the property itself: each actor alone in a fresh process vs its lines in the merged run — return values, data, error
            numbers, metadata getters, final store digests — must be identical (vlib/props/c19.py `compare`).
Model: lean/SfModel/HeaderText.lean (Sf.HeaderText: a header writer whose optional text comes from the handle vs from a process-wide
cell a reader fills), theorems lean/SfProps/C19Text.lean.
"""
import collections

from . import worldcamp as WC, foreign, scripts as S

STRINGS = [(1, b"foreign title"), (2, b"(c) someone else"), (3, b"other software 1.0"), (4, b"an artist"), (5, b"a comment of thirty-one bytes.."),
           (6, b"2001-02-03"), (7, b"an album"), (8, b"a licence"), (9, b"7"), (16, b"a genre")]


def base_files(ctx, fs):
    rng = ctx.rng
    by = {}
    for f in fs:
        if f.major in foreign.VARIANTS and f.granular and f.codec not in (0x70, 0x71, 0x72, 0x73, 0x40, 0x41, 0x42, 0x50, 0x51):
            by.setdefault(f.major, []).append(f)
    picks = []
    for mj, lst in sorted(by.items()):
        lst = sorted(lst, key=lambda f: f.name)
        picks.append((lst[rng.randrange(len(lst))], lst))
    scripts = []
    for k, (f, lst) in enumerate(picks):
        ty = "s16" if f.codec not in (0x06, 0x07) else "f32"
        sets = "".join("setstr h0 %d %s\n" % (t, v.hex()) for (t, v) in STRINGS)
        scripts.append(("fw-base-%d" % k, "open h0 s0 w fmt=%08x ch=1 sr=8000\n%s%s\nclose h0\ndump s0\n"
                        % (f.word, sets, S.w_line("h0", ty, "f", 19, S.rand_values(rng, ty, 19, "unit")))))
    out = ctx.batch(scripts, clean=True)
    res = []
    for k, (f, lst) in enumerate(picks):
        d = [l for l in out.get("fw-base-%d" % k, []) if "hex=" in l]
        if d:
            res.append((f, lst, bytes.fromhex(d[-1].split("hex=")[-1].strip())))
    return res


def actor_a(f, filehex, mode, rng):
    ty = "s16" if f.codec not in (0x06, 0x07) else "f32"
    raw = f.major == 0x04
    opn = ("open h0 s0 %s fmt=%08x ch=1 sr=8000" % (mode, f.word)) if (mode == "rw" or raw) else "open h0 s0 r"
    L = ["store s0 " + filehex, opn, "info h0", "r h0 %s f 3" % ty] + ["getstr h0 %d" % t for (t, _) in STRINGS[:5]]
    if mode == "rw":
        L += ["seek h0 0 %d" % 0x22, S.w_line("h0", ty, "f", 2, S.rand_values(rng, ty, 2, "unit")), "cmd h0 1060 0 null"]
    L += ["strerror h0", "close h0", "dump s0 sum", "dump s7 sum"]
    return "\n".join(L) + "\n"


def run(ctx, env, fs, findings):
    """appends findings in the format of vlib/props/c19.py (kind 'group'); returns the statistics"""
    from .props import c19 as C
    rng = ctx.rng
    quick = ctx.tier == "quick"
    stats = collections.Counter()
    groups = []
    n = 0
    for (f, lst, b) in base_files(ctx, fs):
        stats["containers"] += 1
        for (tag, nb) in [("asis", b)] + foreign.VARIANTS[f.major](b):
            stats["files"] += 1
            for mode in ("rw", "r"):
                n += 1
                if mode == "r" and quick and n % 3:
                    continue
                fb = lst[(n + 1) % len(lst)]
                chb = 1 + n % min(2, fb.maxch)
                A = C.Workload(f, 1, actor_a(f, nb.hex(), mode, rng), kind="foreign-" + mode)
                B = C.Workload(fb, chb, WC.gen_workload(rng, fb, chb, kind="w", nops=5, short=True), kind="w")
                lens = [len(B.lines), len(A.lines)]
                for how in ("roundrobin", "reverse") + (("sequential",) if not quick or n % 2 else ()):
                    # B first in the group: round-robin opens B before A; `reverse` runs A's whole life before B's first call
                    groups.append(C.Group("fw-%s-%s-%s-%s-%d" % (f.name, tag, mode, how, n), [B, A], WC.merge_order(rng, lens, how), how))
                stats["pairs"] += 1
                ctx.distinct.add("foreignworld:%s:%s:%s" % (f.name.split("-")[0], tag, mode))
    solo = {}
    for g in groups:
        for k, w in enumerate(g.wls):
            solo[(w.uid, k)] = ("fwsolo-%d-%d" % (w.uid, k), "\n".join(g.parts[k]) + "\n")
    batch = list({v[0]: v for v in solo.values()}.values()) + [(g.name, g.text()) for g in groups]
    out = ctx.batch(batch, clean=True, env=env, workers=4)
    for g in groups:
        mo = out.get(g.name, [])
        stats["merged_scripts"] += 1
        stats["merged_ops"] += len(g.merged)
        for k, w in enumerate(g.wls):
            so = out.get(solo[(w.uid, k)][0], [])
            stats["comparisons"] += 1
            if C.dead(so):
                stats["solo_dies"] += 1
                continue
            mine_out = WC.project(mo + ["<missing>"] * (len(g.merged) - len(mo)), g.owners, k)
            d = C.compare(g.parts[k], so, g.parts[k], mine_out)
            if d is not None:
                findings.append(dict(kind="group", name=g.name, k=k, fmt=w.fmt, group=g, diff=d, dead=C.dead(mo), solo=g.parts[k], merged=g.merged,
                                     owners=g.owners, solo_out=so, merged_out=mo))
                stats["differences"] += 1
    return dict(stats)
